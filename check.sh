#!/bin/sh
# usage: ./check.sh <property> <quick|thorough>
# Exit 0 = property held on everything explored; 1 = VIOLATION line printed; 2 = engine error; 3 = inconclusive.
cd /verif
[ -x bin/gosym ] || ./build.sh >/dev/null 2>&1 || { echo "ENGINE-ERROR: build failed"; exit 2; }
exec ./bin/gosym check -prop "$1" -tier "${2:-quick}"
