#!/usr/bin/env python3
"""Regenerates /verif/MANIFEST.json from harness/<id>/spec.json and not_applicable.json."""
import json, os, glob
root = os.path.dirname(os.path.abspath(__file__))
props = [json.loads(l)["id"] for l in open(os.path.join(root, "properties.jsonl"))]
na = json.load(open(os.path.join(root, "not_applicable.json")))
checks = []
claimed = set()
for pid in props:
    sp = os.path.join(root, "harness", pid, "spec.json")
    if not os.path.exists(sp):
        continue
    s = json.load(open(sp))
    if not s.get("registered", False):
        continue
    claimed.add(pid)
    bounds = "; ".join(f"{k}: {v}" for k, v in s.get("bounds", {}).items())
    note = "Bounds: " + bounds + ". Stubs/assumptions: " + ("; ".join(s.get("stubs", [])) or "none") + \
        ". Outside the claim: " + ("; ".join(s.get("outside", [])) or "nothing beyond the bounds") + \
        ". Trusted: gosym engine (/verif/engine), z3 5.1.0 (z3-new; z3 4.8.12 and cvc5 1.0 re-decide a query it leaves unknown), Go semantics as modelled in DESIGN.md §2."
    checks.append({
        "property_id": pid,
        "quick_cmd": f"./check.sh {pid} quick",
        "thorough_cmd": f"./check.sh {pid} thorough",
        "evidence_file": f"/verif/evidence/{pid}.json",
        "replay_cmd_template": "./bin/gosym replay {path}",
        "engine": "gosym",
        "level_claimed": {
            "category": "model_checking",
            "text": s["level_text"],
            "design_ref": s.get("design_ref", "DESIGN.md §4 " + pid),
        },
        "level_note": note,
        "technique": "bounded symbolic execution of the real Go code (go/ssa) decided by SMT (z3), counterexamples replayed natively",
    })
not_app = []
for pid in props:
    if pid in claimed:
        continue
    reason = na.get(pid, "no check registered yet: the harness for this property has not been built or does not yet run clean on the unchanged tree")
    not_app.append({"property_id": pid, "reason": reason})
m = {
    "version": 1,
    "setup_cmd": "./setup.sh",
    "hooks": {
        "guard": "verif",
        "enable": "none needed: harnesses are injected with go/packages Overlay (symbolic run) and go test -overlay (native replay); no file in /repo carries hooks",
        "baseline_off_cmd": "cd /repo && PATH=/opt/veriftools/go1.26.8/bin:$PATH GOTOOLCHAIN=local GOFLAGS=-mod=mod GOPROXY=off go test -vet=off -count=1 ./...",
        "source_commits": [],
        "add_only": True,
    },
    "engines": [{
        "name": "gosym",
        "path": "/verif/engine",
        "serves_properties": sorted(claimed),
        "kind_free_text": "forking symbolic interpreter for go/ssa (built from /repo's current source on every run) emitting SMT-LIB2 bit-vector queries to z3; bounded model checking of harness entry points",
    }],
    "checks": checks,
    "not_applicable": not_app,
    "notes": "Every check rebuilds its encoding from /repo's working tree. Exit codes: 0 held within bounds, 1 VIOLATION, 2 engine error, 3 inconclusive (unknown/unsupported/unwinding).",
}
json.dump(m, open(os.path.join(root, "MANIFEST.json"), "w"), indent=1)
print("checks:", len(checks), "not_applicable:", len(not_app))
