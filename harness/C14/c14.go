package netmc

import (
	"go.minekube.com/gate/pkg/edition/java/proto/packet"
	"go.minekube.com/gate/pkg/edition/java/proto/packet/config"
	"go.minekube.com/gate/pkg/edition/java/proto/state"
	"go.minekube.com/gate/pkg/edition/java/proto/util/queue"
	"go.minekube.com/gate/pkg/gate/proto"
	zz "go.minekube.com/gate/pkg/internal/zzverif"
)

// zzKA builds a play-only packet carrying a tag (KeepAlive's RandomID is data, not identity).
func zzPlayOnlyPacket(tag int) proto.Packet { return &packet.JoinGame{EntityID: tag} }
func zzConfigValidPacket() proto.Packet     { return &config.FinishedUpdate{} }

func zzTags(w *zzWriter) []int {
	var out []int
	for _, p := range w.log {
		if j, ok := p.(*packet.JoinGame); ok {
			out = append(out, j.EntityID)
		}
	}
	return out
}

// Sequential reference behaviour: packets written during CONFIG are held; config-valid ones pass at
// once; on leaving CONFIG the held ones come out in order before anything written later.
func VerifHarness_QueueSequential() {
	wr := &zzWriter{}
	c, _ := newZZMinecraftConn(767, state.Play, &zzReader{}, wr, &zzHandler{})
	reg := state.FromDirection(proto.ClientBound, state.Config, 767)
	_, playOnlyIsConfig := reg.PacketID(zzPlayOnlyPacket(0))
	_, cfgIsConfig := reg.PacketID(zzConfigValidPacket())
	zz.Assert(!playOnlyIsConfig && cfgIsConfig, "harness packets are not play-only / config-valid in the real registry")
	c.SetOutboundState(state.Config)
	n := 1 + zz.Choose(3)
	want := []int{}
	for i := 0; i < n; i++ {
		if zz.Bool() {
			zz.Assert(c.BufferPacket(zzConfigValidPacket()) == nil, "a config-valid packet was refused")
			zz.Assert(len(wr.log) > 0 && wr.log[len(wr.log)-1] != nil, "a config-valid packet was not written immediately")
			_, isCfg := wr.log[len(wr.log)-1].(*config.FinishedUpdate)
			zz.Assert(isCfg, "a config-valid packet was not written immediately")
		} else {
			before := len(wr.log)
			zz.Assert(c.BufferPacket(zzPlayOnlyPacket(i)) == nil, "a play packet was refused during configuration")
			zz.Assert(len(wr.log) == before, "a play-only packet was written to a client in the configuration phase")
			want = append(want, i)
		}
	}
	c.SetOutboundState(state.Play)
	zz.Assert(c.BufferPacket(zzPlayOnlyPacket(100)) == nil, "a play packet after the release was refused")
	want = append(want, 100)
	got := zzTags(wr)
	zz.Assert(len(got) == len(want), "held play packets were lost or duplicated")
	for i := range want {
		zz.Assert(got[i] == want[i], "held play packets were not delivered in the order written, before later packets")
	}
	zz.Reach("sequential")
}

// The holding queue is bounded: the 1025th held packet closes the connection instead of being dropped silently.
func VerifHarness_QueueBound() {
	wr := &zzWriter{}
	h := &zzHandler{}
	c, _ := newZZMinecraftConn(767, state.Play, &zzReader{}, wr, h)
	c.SetOutboundState(state.Config)
	q := c.playPacketQueue
	zz.Assert(q != nil, "entering the configuration phase did not activate the holding queue")
	for i := 0; i < 1024; i++ {
		ok, err := q.Queue(zzPlayOnlyPacket(i))
		zz.Assert(ok && err == nil, "the queue refused a packet below its bound")
	}
	err := c.BufferPacket(zzPlayOnlyPacket(2000))
	zz.Assert(err == queue.ErrQueueFull, "the overflowing packet was neither queued nor reported")
	zz.Assert(Closed(c) && h.disconnected == 1, "queue overflow did not close the connection")
	zz.Reach("bound")
}

// Two writers race with the state change out of CONFIG (every interleaving at lock operations,
// <=3 preemptions): each accepted play packet reaches the client exactly once and none is stranded in
// the holding queue; the lockset monitor reports unsynchronised access to the queue.
func VerifHarness_QueueConcurrent() {
	zz.MaxPreempt(3)
	zz.RaceMonitor()
	wr := &zzWriter{}
	c, _ := newZZMinecraftConn(767, state.Play, &zzReader{}, wr, &zzHandler{})
	c.SetOutboundState(state.Config)
	held := c.playPacketQueue
	var e1, e2 error
	zz.Go(func() { e1 = c.BufferPacket(zzPlayOnlyPacket(1)) })
	zz.Go(func() { e2 = c.BufferPacket(zzPlayOnlyPacket(2)) })
	zz.Go(func() { c.SetOutboundState(state.Play) })
	zz.WaitAll()
	zz.Assert(e1 == nil && e2 == nil, "a play packet was refused")
	got := zzTags(wr)
	n1, n2 := 0, 0
	for _, t := range got {
		if t == 1 {
			n1++
		}
		if t == 2 {
			n2++
		}
	}
	zz.Assert(n1 <= 1 && n2 <= 1, "a play packet was delivered twice")
	zz.Assert(n1 == 1 && n2 == 1, "a play packet accepted during the state change was lost (stranded in the released queue)")
	_ = held
	zz.Assert(c.playPacketQueue == nil, "the holding queue is still active after the client returned to play")
	zz.Reach("concurrent")
}

// The server-switch flow: the queue is enabled first (EnablePlayPacketQueue), the state becomes CONFIG
// later (possibly announced twice: outbound, then both directions). Packets held at any point of that
// sequence survive it and come out once, in order, when the client is back in play.
func VerifHarness_QueueEnableThenConfig() {
	wr := &zzWriter{}
	c, _ := newZZMinecraftConn(767, state.Play, &zzReader{}, wr, &zzHandler{})
	var want []int
	hold := func(tag int) {
		before := len(wr.log)
		zz.Assert(c.BufferPacket(zzPlayOnlyPacket(tag)) == nil, "a play packet was refused")
		zz.Assert(len(wr.log) == before, "a play-only packet was written while the holding queue is active")
		want = append(want, tag)
	}
	c.EnablePlayPacketQueue()
	hold(1)
	steps := zz.Choose(3)
	if steps >= 1 {
		c.SetOutboundState(state.Config)
		hold(2)
	}
	if steps >= 2 {
		c.SetState(state.Config)
		hold(3)
	}
	if zz.Bool() {
		c.SetState(state.Play)
	} else {
		c.SetOutboundState(state.Play)
	}
	got := zzTags(wr)
	zz.Assert(len(got) == len(want), "packets held while entering the configuration phase were lost or duplicated")
	for i := range want {
		zz.Assert(got[i] == want[i], "held packets were not delivered in the order written")
	}
	zz.Reach("enable-then-config")
}

// Held packets are released while another goroutine writes a new play packet: the new packet must
// not overtake the held ones.
func VerifHarness_QueueReleaseOrder() {
	zz.MaxPreempt(3)
	wr := &zzWriter{}
	c, _ := newZZMinecraftConn(767, state.Play, &zzReader{}, wr, &zzHandler{})
	c.SetOutboundState(state.Config)
	_ = c.BufferPacket(zzPlayOnlyPacket(1))
	_ = c.BufferPacket(zzPlayOnlyPacket(2))
	zz.Go(func() { c.SetOutboundState(state.Play) })
	zz.Go(func() { _ = c.BufferPacket(zzPlayOnlyPacket(3)) })
	zz.WaitAll()
	if c.playPacketQueue != nil {
		// the writer won the race and its packet is held too; release it
		c.SetOutboundState(state.Play)
	}
	got := zzTags(wr)
	zz.Assert(len(got) == 3, "a play packet was lost or duplicated around the release")
	zz.Assert(got[0] == 1 && got[1] == 2 && got[2] == 3, "a packet written during the release overtook packets written before it")
	zz.Reach("release-order")
}

func VerifMutant_Queue() {
	wr := &zzWriter{}
	c, _ := newZZMinecraftConn(767, state.Play, &zzReader{}, wr, &zzHandler{})
	c.SetOutboundState(state.Config)
	_ = c.BufferPacket(zzPlayOnlyPacket(1))
	zz.Assert(len(wr.log) == 1, "control: a play-only packet must be held during configuration")
}
