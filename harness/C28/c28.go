package tablist

import (
	"time"

	"go.minekube.com/common/minecraft/component"
	"go.minekube.com/gate/pkg/edition/java/profile"
	"go.minekube.com/gate/pkg/edition/java/proto/packet/chat"
	"go.minekube.com/gate/pkg/edition/java/proto/packet/tablist/playerinfo"
	"go.minekube.com/gate/pkg/edition/java/proxy/crypto"
	"go.minekube.com/gate/pkg/edition/java/proxy/tablist"
	"go.minekube.com/gate/pkg/gate/proto"
	zz "go.minekube.com/gate/pkg/internal/zzverif"
	"go.minekube.com/gate/pkg/util/uuid"
)

// ---- the reference client: what a vanilla 1.19.3+ client holds after the packets it was sent ----

type zzCEntry struct {
	name      string
	latencyMs int
	gameMode  int
	listed    bool
	display   component.Component
	order     int
	// ghost: the API added an entry for this UUID under another profile than the client holds
	// (known finding, see known_findings.json); cleared when the client drops the entry
	apiOtherProfile bool
}

type zzClient struct {
	protocol proto.Protocol
	entries  map[uuid.UUID]*zzCEntry
	packets  int
}

func (c *zzClient) apply(p proto.Packet) {
	c.packets++
	switch pk := p.(type) {
	case *playerinfo.Remove:
		for _, id := range pk.PlayersToRemove {
			delete(c.entries, id)
		}
	case *playerinfo.Upsert:
		has := func(a playerinfo.UpsertAction) bool { return playerinfo.ContainsAction(pk.ActionSet, a) }
		for _, e := range pk.Entries {
			cur := c.entries[e.ProfileID]
			if has(playerinfo.AddPlayerAction) && cur == nil {
				cur = &zzCEntry{name: e.Profile.Name} // vanilla defaults: survival, unlisted, latency 0
				c.entries[e.ProfileID] = cur
			}
			if cur == nil {
				continue // an update for an entry the client does not have is ignored
			}
			if has(playerinfo.UpdateGameModeAction) {
				cur.gameMode = e.GameMode
			}
			if has(playerinfo.UpdateListedAction) {
				cur.listed = e.Listed
			}
			if has(playerinfo.UpdateLatencyAction) {
				cur.latencyMs = e.Latency
			}
			if has(playerinfo.UpdateDisplayNameAction) {
				cur.display = e.DisplayName.AsComponentOrNil()
			}
			if has(playerinfo.UpdateListOrderAction) && c.protocol >= 768 {
				cur.order = e.ListOrder
			}
		}
	default:
		zz.Assert(false, "an unexpected packet type was sent to the tab list viewer")
	}
}

type zzViewer struct{ c *zzClient }

func (v *zzViewer) WritePacket(p proto.Packet) error    { v.c.apply(p); return nil }
func (v *zzViewer) BufferPacket(p proto.Packet) error   { v.c.apply(p); return nil }
func (v *zzViewer) Flush() error                        { return nil }
func (v *zzViewer) Protocol() proto.Protocol            { return v.c.protocol }
func (v *zzViewer) IdentifiedKey() crypto.IdentifiedKey { return nil }

var (
	zzIDs   = []uuid.UUID{{0: 0xa, 15: 1}, {0: 0xb, 15: 2}}
	zzNames = []string{"alice", "bob"}
	zzTexts = []component.Component{nil, &component.Text{Content: "one"}, &component.Text{Content: "two"}}
	zzLat   = []time.Duration{0, 1500 * time.Millisecond, -time.Millisecond}
)

// symbolic attribute values: solver variables, so a path forks only where the code branches on them
func zzModes() int {
	m := zz.Int()
	zz.Assume(m >= -1 && m <= 3)
	return m
}
func zzOrder() int {
	o := zz.Int()
	zz.Assume(o >= -8 && o <= 8)
	return o
}

// zzCompare: the model's entries are exactly the client's, attribute by attribute.
func zzCompare(tl InternalTabList, c *zzClient) {
	got := tl.Entries()
	zz.Assert(len(got) == len(c.entries), "the tab list reports a different set of entries than the client holds")
	for id, ce := range c.entries {
		e := got[id]
		zz.Assert(e != nil, "the client holds an entry the tab list does not report")
		if ce.apiOtherProfile {
			zz.Assert(e.Profile().ID == id && e.Profile().Name == ce.name, "API Add for a listed UUID under another profile: the reported profile differs from the one the client keeps")
		} else {
			zz.Assert(e.Profile().ID == id && e.Profile().Name == ce.name, "an entry's profile differs from the one the client was given")
		}
		zz.Assert(int(e.Latency()/time.Millisecond) == ce.latencyMs, "an entry's latency differs from what the client was told")
		if e.GameMode() != -1 {
			zz.Assert(e.GameMode() == ce.gameMode, "an entry's game mode differs from what the client was told")
		}
		zz.Assert(e.Listed() == ce.listed, "an entry's listed flag differs from what the client was told")
		zz.Assert(e.DisplayName() == ce.display, "an entry's display name differs from what the client was told")
		if c.protocol >= 768 {
			zz.Assert(e.ListOrder() == ce.order, "an entry's list order differs from what the client was told")
		}
	}
}

func zzNewEntry(tl InternalTabList, i int) *Entry {
	return &Entry{OwningTabList: tl, EntryAttributes: EntryAttributes{
		Profile:     profile.GameProfile{ID: zzIDs[i], Name: zzNames[i]},
		DisplayName: zzTexts[zz.Choose(3)],
		Latency:     zzLat[zz.Choose(3)],
		GameMode:    zzModes(),
		Listed:      zz.Bool(),
		ListOrder:   zzOrder(),
	}}
}

// zzStep performs one API call or one backend packet (which the proxy also forwards to the client).
func zzStep(tl InternalTabList, c *zzClient) {
	i := zz.Choose(2)
	id := zzIDs[i]
	switch zz.Choose(6) {
	case 0: // API: add a fresh entry object (new, or replacing the one with the same id)
		ne := zzNewEntry(tl, i)
		if ce := c.entries[id]; ce != nil && ce.name != ne.Profile().Name {
			ce.apiOtherProfile = true
		}
		zz.Assert(tl.Add(ne) == nil, "adding an entry failed")
		zz.Reach("api-add")
	case 1: // API: add the entry that is already in the list again
		if e := tl.Entries()[id]; e != nil {
			zz.Assert(tl.Add(e) == nil, "adding an entry that is already in the list failed")
			zz.Reach("api-add-again")
		}
	case 2: // API: remove one, or all
		if zz.Bool() {
			zz.Assert(tl.RemoveAll(id) == nil, "removing an entry failed")
		} else {
			zz.Assert(tl.RemoveAll() == nil, "removing all entries failed")
		}
		zz.Reach("api-remove")
	case 3: // API: change one attribute of an entry in the list
		e := tl.Entries()[id]
		if e == nil {
			return
		}
		var err error
		switch zz.Choose(5) {
		case 0:
			err = e.SetLatency(zzLat[zz.Choose(3)])
		case 1:
			err = e.SetGameMode(zzModes())
		case 2:
			err = e.SetListed(zz.Bool())
		case 3:
			err = e.SetDisplayName(zzTexts[zz.Choose(3)])
		case 4:
			err = e.SetListOrder(zzOrder())
		}
		zz.Assert(err == nil, "changing an entry's attribute failed")
		zz.Reach("api-set")
	case 4: // backend: player-info update, processed by the model and forwarded to the client
		name := zzNames[i]
		if zz.Bool() { // the backend announces the profile under another name than the entry may already have
			name += "2"
		}
		pe := &playerinfo.Entry{ProfileID: id, Profile: profile.GameProfile{ID: id, Name: name},
			Listed: zz.Bool(), Latency: []int{0, 20, 999}[zz.Choose(3)], GameMode: zzModes(), ListOrder: zzOrder()}
		var set []playerinfo.UpsertAction
		switch zz.Choose(6) {
		case 0:
			set = []playerinfo.UpsertAction{playerinfo.AddPlayerAction, playerinfo.UpdateGameModeAction, playerinfo.UpdateListedAction, playerinfo.UpdateLatencyAction}
		case 1:
			set = []playerinfo.UpsertAction{playerinfo.UpdateLatencyAction}
		case 2:
			set = []playerinfo.UpsertAction{playerinfo.UpdateGameModeAction, playerinfo.UpdateListedAction}
		case 3:
			set = []playerinfo.UpsertAction{playerinfo.UpdateDisplayNameAction}
			pe.DisplayName = chat.FromComponentProtocol(zzTexts[zz.Choose(3)], c.protocol)
		case 4:
			set = []playerinfo.UpsertAction{playerinfo.UpdateListOrderAction}
		case 5:
			set = []playerinfo.UpsertAction{playerinfo.AddPlayerAction}
		}
		p := &playerinfo.Upsert{ActionSet: set, Entries: []*playerinfo.Entry{pe}}
		zz.Assert(tl.ProcessUpdate(p) == nil, "processing a backend player-info update failed")
		c.apply(p)
		zz.Reach("backend-upsert")
	case 5: // backend: player-info remove
		p := &playerinfo.Remove{PlayersToRemove: []uuid.UUID{id}}
		tl.ProcessRemove(p)
		c.apply(p)
		zz.Reach("backend-remove")
	}
}

// One step from an arbitrary consistent state: each of the two ids is absent, or present with arbitrary
// attributes known identically to the model and the client (the invariant every step must preserve,
// so histories of any length are covered as far as the invariant describes the reachable states).
func VerifHarness_StepPreservesAgreement() {
	zz.Unwind(64)
	c := &zzClient{protocol: []proto.Protocol{761, 767, 768, 769}[zz.Choose(4)], entries: map[uuid.UUID]*zzCEntry{}}
	tl := New(&zzViewer{c}).(*TabList)
	for i := range zzIDs {
		if zz.Bool() {
			continue
		}
		var e *Entry
		if i == 1 { // the second entry's display name and latency are fixed (keeps the number of pre-states small)
			e = &Entry{OwningTabList: tl, EntryAttributes: EntryAttributes{Profile: profile.GameProfile{ID: zzIDs[i], Name: zzNames[i]},
				DisplayName: zzTexts[1], Latency: zzLat[1], GameMode: zzModes(), Listed: zz.Bool(), ListOrder: zzOrder()}}
		} else {
			e = zzNewEntry(tl, i)
		}
		if c.protocol < 768 {
			e.EntryAttributes.ListOrder = 0
		}
		tl.EntriesByID[zzIDs[i]] = e
		ce := &zzCEntry{name: zzNames[i], latencyMs: int(e.EntryAttributes.Latency / time.Millisecond), gameMode: e.EntryAttributes.GameMode, listed: e.EntryAttributes.Listed, display: e.EntryAttributes.DisplayName, order: e.EntryAttributes.ListOrder}
		c.entries[zzIDs[i]] = ce
	}
	zzCompare(tl, c)
	// one step is the inductive argument; the thorough tier differs in the sequences below
	zzStep(tl, c)
	zzCompare(tl, c)
	zz.Reach("step")
}

// Sequences of API calls and backend packets from the empty list: after every step the model equals the
// reference client, entry by entry and attribute by attribute.
func VerifHarness_ModelMatchesClient() {
	zz.Unwind(64)
	protocols := []proto.Protocol{761, 769}
	if zz.Thorough() {
		protocols = []proto.Protocol{761, 767, 768, 769}
	}
	c := &zzClient{protocol: protocols[zz.Choose(len(protocols))], entries: map[uuid.UUID]*zzCEntry{}}
	tl := New(&zzViewer{c})
	for s := 0; s < 2; s++ {
		zzStep(tl, c)
		zzCompare(tl, c)
	}
	zz.Reach("sequence")
}

func VerifMutant_TabList() {
	c := &zzClient{protocol: 767, entries: map[uuid.UUID]*zzCEntry{}}
	tl := New(&zzViewer{c})
	_ = tl.Add(&Entry{OwningTabList: tl, EntryAttributes: EntryAttributes{Profile: profile.GameProfile{ID: zzIDs[0], Name: "alice"}, Listed: true}})
	zz.Assert(len(c.entries) == 0, "control: an added entry reaches the client")
}

var _ tablist.Viewer = (*zzViewer)(nil)
