package lite

import (
	"go.minekube.com/gate/pkg/gate/proto"
	"net"
	"time"

	"github.com/go-logr/logr"
	"go.minekube.com/gate/pkg/edition/java/lite/config"
	"go.minekube.com/gate/pkg/edition/java/netmc"
	"go.minekube.com/gate/pkg/edition/java/proto/packet"
	zz "go.minekube.com/gate/pkg/internal/zzverif"
)

var zzBackends = []string{"b0:1", "b1:1", "b2:1"}

func zzStrategy() config.Strategy {
	switch zz.Choose(6) {
	case 0:
		return config.StrategySequential
	case 1:
		return config.StrategyRoundRobin
	case 2:
		return config.StrategyLeastConnections
	case 3:
		return config.StrategyLowestLatency
	case 4:
		return config.StrategyRandom
	}
	return ""
}

// zzArbitraryState puts the strategy manager into an arbitrary state: round-robin position, active
// connection counters and measured latencies are symbolic.
type zzSMState struct {
	rr      int
	counts  [3]uint32
	hasLat  [3]bool
	latency [3]time.Duration
}

func zzArbitraryState(sm *StrategyManager, host string, light bool) *zzSMState {
	st := &zzSMState{}
	st.rr = zz.Int()
	zz.Assume(st.rr >= 0 && st.rr < 1<<40)
	sm.roundRobinIndexes.Store(host, st.rr)
	for i, b := range zzBackends {
		st.counts[i] = zz.Uint32()
		zz.Assume(st.counts[i] < 1<<31)
		if st.counts[i] > 0 || zz.Bool() {
			sm.getOrCreateCounter(b).Store(st.counts[i])
		}
		st.hasLat[i] = zz.Bool()
		if st.hasLat[i] {
			d := int64(10 * (i + 1))
			if !light {
				d = zz.Int64()
				zz.Assume(d > 0 && d < 1<<40) // a measured latency is positive
			}
			st.latency[i] = time.Duration(d)
			sm.RecordLatency(b, st.latency[i])
		}
	}
	return st
}

// zzExpected is the statement's rule for the first choice among the remaining candidates (indices into zzBackends).
func zzExpected(strategy config.Strategy, st *zzSMState, cand []int) int {
	switch strategy {
	case config.StrategyRoundRobin:
		return cand[st.rr%len(cand)]
	case config.StrategyLeastConnections:
		best := cand[0]
		for _, c := range cand[1:] {
			if st.counts[c] < st.counts[best] {
				best = c
			}
		}
		return best
	case config.StrategyLowestLatency:
		for _, c := range cand {
			if !st.hasLat[c] {
				return c
			}
		}
		best := cand[0]
		for _, c := range cand[1:] {
			if st.latency[c] < st.latency[best] {
				best = c
			}
		}
		return best
	}
	return cand[0] // sequential and the default
}

func zzIndexOf(b string) int {
	for i, x := range zzBackends {
		if x == b {
			return i
		}
	}
	return -1
}

// One selection from an arbitrary manager state, for every strategy: the chosen backend is the one
// the strategy dictates.
func VerifHarness_StrategyChoice() {
	zzFixedClock()
	sm := NewStrategyManager()
	strategy := zzStrategy()
	zz.Assume(strategy != config.StrategyRandom)
	st := zzArbitraryState(sm, "h", false)
	route := &config.Route{Strategy: strategy}
	got, _, ok := sm.GetNextBackend(logr.Discard(), route, "h", zzBackends)
	zz.Assert(ok, "no backend was chosen although candidates exist")
	zz.Assert(zzIndexOf(got) == zzExpected(strategy, st, []int{0, 1, 2}), "the chosen backend is not the one the route's strategy dictates")
	_, _, ok = sm.GetNextBackend(logr.Discard(), route, "h", nil)
	zz.Assert(!ok, "a backend was chosen from an empty list")
	zz.Reach("choice")
}

type zzLiteClient struct {
	netmc.MinecraftConn
	c net.Conn
}

func (c *zzLiteClient) Conn() net.Conn { return c.c }

type zzLiteNetConn struct{ net.Conn }

func (zzLiteNetConn) RemoteAddr() net.Addr { return &net.TCPAddr{IP: net.IPv4(1, 2, 3, 4), Port: 5} }

// One connection attempt through the real per-attempt closure of findRoute: whatever the strategy,
// manager state and random draws, every backend of the route is handed out exactly once and the
// attempt is exhausted only after all of them. Backend spellings that denote the same address
// (default port, letter case) count as one backend.
func VerifHarness_AttemptTriesEachOnce() {
	zzFixedClock()
	zzStubRand()
	sm := NewStrategyManager()
	strategy := zzStrategy()
	_ = zzArbitraryState(sm, "*", !zz.Thorough())
	backends := []string{"b0:1", "b1:1", "b2:1"}
	distinct := 3
	switch zz.Choose(3) {
	case 1:
		backends = []string{"b0", "b1:1", "b0:25565"} // the same backend spelled with and without the default port
		distinct = 2
	case 2:
		backends = []string{"b0:1", "b0:1"}
		distinct = 1
	}
	host := "*"
	if zz.Bool() {
		host = "play.example" // an exact host: no wildcard groups to substitute into the backends
	}
	configured := append([]string(nil), backends...)
	routes := []config.Route{{Host: []string{host}, Backend: backends, Strategy: strategy}}
	client := &zzLiteClient{c: zzLiteNetConn{}}
	_, _, route, _, next, err := findRoute(routes, logr.Discard(), client, &packet.Handshake{ServerAddress: "play.example"}, sm)
	zz.Assert(err == nil && route != nil && next != nil, "no route found for a matching host")
	tried := map[string]int{}
	n := 0
	for {
		addr, _, ok := next()
		if !ok {
			break
		}
		n++
		zz.Assert(n <= 4, "the attempt never runs out of backends")
		tried[canonicalBackendAddress(addr)]++
	}
	for k, v := range tried {
		_ = k
		zz.Assert(v == 1, "a backend was tried more than once in one connection attempt")
	}
	zz.Assert(len(tried) == distinct, "the attempt gave up before every backend of the route was tried")
	zz.Assert(len(route.Backend) == len(configured), "the attempt modified the route's configured backend list")
	for i := range configured {
		zz.Assert(route.Backend[i] == configured[i] && routes[0].Backend[i] == configured[i], "the attempt rewrote the route's configured backend list (the next connection sees different backends)")
	}
	zz.Reach("attempt")
}

// Active-connection accounting: up to three connections opened and closed in an arbitrary order.
func VerifHarness_ConnectionCounts() {
	sm := NewStrategyManager()
	var closers []func()
	open := 0
	steps := 4
	if zz.Thorough() {
		steps = 6
	}
	for i := 0; i < steps; i++ {
		if len(closers) < 3 && zz.Bool() {
			b := zzBackends[zz.Choose(2)]
			host := "h"
			if zz.Bool() {
				host = "H" // route hosts compare case-insensitively
			}
			closers = append(closers, sm.TrackConnection(host, b))
			open++
		} else if len(closers) > 0 {
			k := zz.Choose(len(closers))
			closers[k]()
			closers = append(closers[:k:k], closers[k+1:]...)
			open--
		}
		zz.Assert(int(sm.ActiveConnections()) == open, "the active-connection count differs from the number of open forwarded connections")
		var perBackend uint32
		for _, b := range zzBackends {
			if c := sm.getCounter(b); c != nil {
				perBackend += c.Load()
			}
		}
		zz.Assert(int(perBackend) == open, "the per-backend counters used by least-connections differ from the open connections")
	}
	for _, c := range closers {
		c()
	}
	zz.Assert(sm.ActiveConnections() == 0, "the active-connection count did not return to zero")
	zz.Reach("counts")
}

// Least-connections counts the connections that are really open, whatever spelling the route uses for
// a backend (no port, upper case, explicit port): after opening up to two connections the backend
// with the fewest open connections is chosen (the first of them on a tie).
func VerifHarness_LeastConnectionsSeesOpenConnections() {
	zzFixedClock()
	sm := NewStrategyManager()
	spelled := []string{"b0", "B1:25565", "b2:1"}
	var open [3]int
	n := zz.Choose(3)
	for i := 0; i < n; i++ {
		k := zz.Choose(3)
		_ = sm.TrackConnection("h", spelled[k])
		open[k]++
	}
	got, _, ok := sm.GetNextBackend(logr.Discard(), &config.Route{Strategy: config.StrategyLeastConnections}, "h", spelled)
	zz.Assert(ok, "no backend chosen")
	best := 0
	for i := 1; i < 3; i++ {
		if open[i] < open[best] {
			best = i
		}
	}
	zz.Assert(got == spelled[best], "least-connections did not choose the backend with the fewest open connections")
	zz.Assert(int(sm.ActiveConnections()) == n, "the active-connection count differs from the open connections")
	zz.Reach("least-open")
}

// A whole forward (real Forward/tryBackends/dialRoute over in-memory connections) with arbitrary dial
// outcomes and a possible fault right after the dial (the client's buffered bytes cannot be read):
// every backend is dialed at most once, in order, until one accepts; when the forward has ended - for
// whatever reason - no connection is counted as open any more.
func VerifHarness_ForwardCountsAndFailover() {
	zz.MaxLen(2)
	zz.Unwind(300)
	zzFixedClock()
	sm := NewStrategyManager()
	route := config.Route{Host: []string{"*"}, Backend: []string{"b0:1", "b1:1", "b2:1"}, Strategy: config.StrategySequential}
	client := &zzFwdClient{conn: &zzPipeConn{remote: &net.TCPAddr{IP: net.IPv4(1, 2, 3, 4), Port: 5}, in: zz.Bytes(zz.Choose(2))}}
	if zz.Bool() {
		client.bufferedErr = errZZDial
	}
	d := &zzDialer{refuse: map[string]bool{}}
	for _, b := range route.Backend {
		if zz.Bool() {
			d.refuse[b] = true
		}
	}
	d.install()
	hs := &packet.Handshake{ProtocolVersion: 767, ServerAddress: "play.example", Port: 25565, NextStatus: 2}
	pc := &proto.PacketContext{Direction: proto.ServerBound, Protocol: 767, Payload: []byte{0, 1, 2}}
	Forward(time.Second, []config.Route{route}, logr.Discard(), client, hs, pc, sm)
	zz.WaitAll()
	// dialed = the configured order up to and including the first backend that accepts
	want := []string{}
	for _, b := range route.Backend {
		want = append(want, b)
		if !d.refuse[b] {
			break
		}
	}
	zz.Assert(len(d.dialed) == len(want), "backends were not tried one by one until the first that accepts (or a backend was tried twice)")
	for i := range want {
		zz.Assert(d.dialed[i] == want[i], "backends were not tried in the order the strategy dictates")
	}
	zz.Assert(sm.ActiveConnections() == 0, "a forward that has ended is still counted as an open connection")
	for _, b := range route.Backend {
		if c := sm.getCounter(b); c != nil {
			zz.Assert(c.Load() == 0, "a backend's least-connections counter stays raised after the forward ended")
		}
	}
	zz.Assert(client.closed >= 1, "the client connection was not closed when the forward ended")
	zz.Reach("forward-counts")
}

// Two connections on two goroutines: counts are exact afterwards and the manager's shared state is
// only touched under its locks (Eraser lockset monitor over every heap cell).
func VerifHarness_ConcurrentConnections() {
	zz.MaxPreempt(2)
	zz.RaceMonitor()
	zzFixedClock()
	sm := NewStrategyManager()
	strategy := zzStrategy()
	route := &config.Route{Strategy: strategy}
	var b1, b2 string
	conn := func(out *string) {
		b, _, ok := sm.GetNextBackend(logr.Discard(), route, "h", zzBackends)
		if ok {
			*out = b
			done := sm.TrackConnection("h", b)
			done()
		}
	}
	zz.Go(func() { conn(&b1) })
	zz.Go(func() { conn(&b2) })
	zz.WaitAll()
	zz.Assert(b1 != "" && b2 != "", "a concurrent connection got no backend")
	zz.Assert(sm.ActiveConnections() == 0, "the active-connection count did not return to zero after concurrent connections")
	zz.Reach("concurrent")
}

func VerifMutant_Strategy() {
	zzFixedClock()
	sm := NewStrategyManager()
	st := zzArbitraryState(sm, "h", true)
	_ = st
	got, _, _ := sm.GetNextBackend(logr.Discard(), &config.Route{Strategy: config.StrategyLeastConnections}, "h", zzBackends)
	zz.Assert(got == "b0:1", "control: least-connections does not always pick the first backend")
}
