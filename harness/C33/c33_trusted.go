package netutil

import (
	"net"

	zz "go.minekube.com/gate/pkg/internal/zzverif"
)

func zzMustTrusted(list ...string) TrustedNetworks {
	t, err := ParseTrustedNetworks(list)
	zz.Assert(err == nil, "a valid trusted-network list was rejected")
	return t
}

// zzIn4 is bit-wise CIDR membership for IPv4, written on the raw address bytes.
func zzIn4(ip [4]byte, net4 [4]byte, bits int) bool {
	a := uint32(ip[0])<<24 | uint32(ip[1])<<16 | uint32(ip[2])<<8 | uint32(ip[3])
	n := uint32(net4[0])<<24 | uint32(net4[1])<<16 | uint32(net4[2])<<8 | uint32(net4[3])
	if bits == 0 {
		return true
	}
	mask := ^uint32(0) << (32 - uint(bits))
	return a&mask == n&mask
}

// An IPv4 peer - plain, or as the IPv4-mapped IPv6 address a dual-stack listener reports - is trusted
// exactly when its four bytes lie in one of the trusted CIDRs; the port and the textual form do not matter.
func VerifHarness_TrustedV4() {
	trusted := zzMustTrusted("10.0.0.0/8", " 192.168.1.7 ", "172.16.0.0/12", "fc00::/7")
	var ip [4]byte
	ip[0], ip[1], ip[2], ip[3] = zz.Byte(), zz.Byte(), zz.Byte(), zz.Byte()
	var peer net.Addr
	switch zz.Choose(3) {
	case 0:
		peer = &net.TCPAddr{IP: net.IPv4(ip[0], ip[1], ip[2], ip[3]).To4(), Port: 25565}
	case 1: // 16-byte form (IPv4-mapped), as accepted sockets on [::] report
		peer = &net.TCPAddr{IP: net.IPv4(ip[0], ip[1], ip[2], ip[3]), Port: 1}
	case 2: // textual mapped form from a generic address
		peer = NewAddr("[::ffff:"+net.IPv4(ip[0], ip[1], ip[2], ip[3]).String()+"]:77", "tcp")
	}
	want := zzIn4(ip, [4]byte{10, 0, 0, 0}, 8) || zzIn4(ip, [4]byte{192, 168, 1, 7}, 32) || zzIn4(ip, [4]byte{172, 16, 0, 0}, 12)
	zz.Assert(trusted.Contains(peer) == want, "an IPv4 peer is trusted although outside every trusted network, or untrusted although inside one")
	if want {
		zz.Reach("v4-trusted")
	} else {
		zz.Reach("v4-untrusted")
	}
}

// IPv6 peers with and without a zone; a zone never changes the verdict.
func VerifHarness_TrustedV6() {
	trusted := zzMustTrusted("fc00::/7", "::1", "10.0.0.0/8")
	ip := make(net.IP, 16)
	ip[0], ip[1] = zz.Byte(), zz.Byte()
	ip[15] = zz.Byte()
	zz.Assume(!(ip[0] == 0 && ip[1] == 0)) // keep clear of the v4-compatible/mapped ranges (covered by TrustedV4)
	zone := ""
	if zz.Bool() {
		zone = "eth0"
	}
	peer := &net.TCPAddr{IP: ip, Port: 9, Zone: zone}
	want := ip[0]&0xfe == 0xfc
	zz.Assert(trusted.Contains(peer) == want, "an IPv6 peer is trusted although outside fc00::/7, or untrusted although inside")
	lo := &net.TCPAddr{IP: net.IPv6loopback, Port: 9, Zone: zone}
	zz.Assert(trusted.Contains(lo), "the loopback address listed as trusted is not trusted")
	zz.Reach("v6")
}

// Addresses that carry no IP are never trusted, nor is anything when the list is empty.
func VerifHarness_TrustedNonIP(){
	zz.MaxLen(3)
	trusted := zzMustTrusted("0.0.0.0/0", "::/0")
	s := zz.String(zz.Choose(4))
	got := trusted.ContainsStr(s)
	if got {
		zz.Assert(net.ParseIP(s) != nil, "a peer address that is not an IP address was trusted")
		zz.Reach("short-ip")
	} else {
		zz.Reach("non-ip")
	}
	zz.Assert(!trusted.Contains(nil), "a nil address was trusted")
	var none TrustedNetworks
	zz.Assert(!none.ContainsStr("10.0.0.1"), "the empty trusted list trusted an address")
	zz.Assert(!trusted.Contains(NewAddr("pipe", "pipe")), "an in-memory pipe address was trusted")
}

func zzDecimal(s string, max int) (int, bool) {
	if len(s) == 0 || len(s) > 3 {
		return 0, false
	}
	if len(s) > 1 && s[0] == '0' {
		return 0, false
	}
	n := 0
	for i := 0; i < len(s); i++ {
		if s[i] < '0' || s[i] > '9' {
			return 0, false
		}
		n = n*10 + int(s[i]-'0')
	}
	return n, n <= max
}

// Parsing the trusted list: "10.2.3.X" and "10.2.3.4/Y" with X, Y arbitrary strings of 1..3 bytes are
// accepted exactly when X is a decimal octet / Y a decimal prefix length without leading zeros;
// IPv4-mapped forms are rejected; an accepted entry trusts exactly its network.
func VerifHarness_ParseTrusted() {
	zz.MaxLen(3)
	tail := zz.String(1 + zz.Choose(3))
	for i := 0; i < len(tail); i++ {
		// printable ASCII: surrounding whitespace is trimmed by design and is not part of the entry
		zz.Assume(tail[i] > 0x20 && tail[i] < 0x7f)
		// '/' would turn the address template into a CIDR (checked by the CIDR template); '%' starts an
		// IPv6 zone, whose interning (unique.Make) the engine cannot follow for symbolic text
		zz.Assume(tail[i] != '/' && tail[i] != '%')
	}
	switch zz.Choose(3) {
	case 0:
		t, err := ParseTrustedNetworks([]string{"10.2.3." + tail})
		oct, ok := zzDecimal(tail, 255)
		zz.Assert((err == nil) == ok, "an entry that is not a valid IPv4 address was accepted, or a valid one rejected")
		if ok {
			zz.Assert(len(t) == 1 && t.ContainsStr("10.2.3."+tail) && t[0].Bits() == 32 && int(t[0].Addr().As4()[3]) == oct, "a single address does not trust exactly itself")
			zz.Reach("addr-accepted")
		} else {
			zz.Reach("addr-rejected")
		}
	case 1:
		t, err := ParseTrustedNetworks([]string{"10.2.3.4/" + tail})
		bits, ok := zzDecimal(tail, 32)
		zz.Assert((err == nil) == ok, "an entry that is not a valid IPv4 CIDR was accepted, or a valid one rejected")
		if ok {
			zz.Assert(len(t) == 1 && t[0].Bits() == bits && t.ContainsStr("10.2.3.4"), "a CIDR entry does not contain its own address or has the wrong length")
			zz.Reach("cidr-accepted")
		} else {
			zz.Reach("cidr-rejected")
		}
	case 2:
		_, err := ParseTrustedNetworks([]string{"::ffff:10.2.3." + tail})
		zz.Assert(err != nil, "an IPv4-mapped IPv6 entry was accepted")
		_, err = ParseTrustedNetworks([]string{"::ffff:10.2.3.4/" + tail})
		zz.Assert(err != nil, "an IPv4-mapped IPv6 CIDR was accepted")
		zz.Reach("mapped-rejected")
	}
}

func VerifMutant_Trusted() {
	trusted := zzMustTrusted("10.0.0.0/8")
	b := zz.Byte()
	zz.Assert(trusted.ContainsStr(net.IPv4(b, 1, 1, 1).String()), "control: only 10.x is trusted")
}
