package proxy

import (
	"net"
	"time"

	"github.com/pires/go-proxyproto"
	zz "go.minekube.com/gate/pkg/internal/zzverif"
	"go.minekube.com/gate/pkg/util/netutil"
)

type zzPeerConn struct {
	net.Conn
	remote net.Addr
}

func (c *zzPeerConn) RemoteAddr() net.Addr { return c.remote }

// the proxy's own end of the connection: a private (trusted-range) address, as behind a load balancer
func (c *zzPeerConn) LocalAddr() net.Addr { return &net.TCPAddr{IP: net.IPv4(10, 0, 0, 1), Port: 25565} }

// The PROXY header policy chosen for a connection is USE exactly for peers inside the trusted
// networks and REJECT for everybody else (a header from such a peer then fails the connection, a peer
// without header keeps its address); a wrapper without trusted networks rejects from everyone.
func VerifHarness_HeaderPolicy() {
	var chosen []proxyproto.Policy
	zz.ReplaceSym("github.com/pires/go-proxyproto.NewConn", func(conn net.Conn, opts ...func(*proxyproto.Conn)) *proxyproto.Conn {
		c := &proxyproto.Conn{}
		for _, o := range opts {
			o(c)
		}
		chosen = append(chosen, c.ProxyHeaderPolicy)
		return c
	})
	trusted, err := netutil.ParseTrustedNetworks([]string{"10.0.0.0/8", "192.168.1.7"})
	zz.Assert(err == nil, "trusted list rejected")
	p := &proxyProtocol{trusted: trusted}
	a, b, c, d := zz.Byte(), zz.Byte(), zz.Byte(), zz.Byte()
	ip := net.IPv4(a, b, c, d)
	if zz.Bool() {
		ip = ip.To4()
	}
	wrapped := p.wrapConnTimeout(&zzPeerConn{remote: &net.TCPAddr{IP: ip, Port: 4242}}, time.Second)
	inside := a == 10 || (a == 192 && b == 168 && c == 1 && d == 7)
	if zz.Native() {
		pc, ok := wrapped.(*proxyproto.Conn)
		zz.Assert(ok, "the connection was not wrapped for PROXY protocol parsing")
		chosen = append(chosen, pc.ProxyHeaderPolicy)
	}
	zz.Assert(len(chosen) == 1, "the connection was not wrapped exactly once")
	if inside {
		zz.Assert(chosen[0] == proxyproto.USE, "a header from a trusted upstream would not be honoured")
		zz.Reach("use")
	} else {
		zz.Assert(chosen[0] == proxyproto.REJECT, "a PROXY header from an untrusted peer would be honoured or silently ignored")
		zz.Reach("reject")
	}
	// no trusted networks configured / nil wrapper: fail closed
	var none *proxyProtocol
	chosen = nil
	w2 := none.wrapConnTimeout(&zzPeerConn{remote: &net.TCPAddr{IP: ip, Port: 1}}, time.Second)
	if zz.Native() {
		chosen = append(chosen, w2.(*proxyproto.Conn).ProxyHeaderPolicy)
	}
	zz.Assert(len(chosen) == 1 && chosen[0] == proxyproto.REJECT, "a wrapper without trusted networks honours PROXY headers")
}

func VerifMutant_HeaderPolicy() {
	var chosen []proxyproto.Policy
	zz.ReplaceSym("github.com/pires/go-proxyproto.NewConn", func(conn net.Conn, opts ...func(*proxyproto.Conn)) *proxyproto.Conn {
		c := &proxyproto.Conn{}
		for _, o := range opts {
			o(c)
		}
		chosen = append(chosen, c.ProxyHeaderPolicy)
		return c
	})
	trusted, _ := netutil.ParseTrustedNetworks([]string{"10.0.0.0/8"})
	p := &proxyProtocol{trusted: trusted}
	a := zz.Byte()
	p.wrapConnTimeout(&zzPeerConn{remote: &net.TCPAddr{IP: net.IPv4(a, 0, 0, 1), Port: 1}}, time.Second)
	zz.Assert(len(chosen) == 1 && chosen[0] == proxyproto.REJECT, "control: 10.x peers get USE")
}
