package lite

import (
	"errors"
	"time"

	"github.com/go-logr/logr"
	"go.minekube.com/gate/pkg/edition/java/lite/config"
	"go.minekube.com/gate/pkg/edition/java/proto/packet"
	zz "go.minekube.com/gate/pkg/internal/zzverif"
	"golang.org/x/sync/singleflight"
)

// zzClock32 is a clock in whole seconds that the harness advances between operations (constant within
// one operation; whole seconds keep the time arithmetic free of divisions by 10^9).
type zzClock32 struct{ ns int64 }

func (c *zzClock32) now() time.Time { return time.Unix(c.ns, 0) }

func zzCache32(clock *zzClock32) *pingStatusCache {
	zz.Replace("time.Now", clock.now)
	return newPingStatusCache(clock.now, new(singleflight.Group))
}

func zzRes(tag string) *pingResult { return &pingResult{res: &packet.StatusResponse{Status: tag}} }

// A status is served from the cache exactly while its TTL has not elapsed: a second request at an
// arbitrary later instant goes to the backend iff now >= stored + ttl; different backends, client
// protocols or route generations never share an entry.
func VerifHarness_CacheTTL() {
	clock := &zzClock32{ns: 1_000_000}
	c := zzCache32(clock)
	const ttlSec = 5
	ttl := int64(ttlSec)
	key := pingKey{backendAddr: "b:1", protocol: 767, routeGeneration: 3}
	loads := 0
	first := c.load(key, ttlSec*time.Second, func() *pingResult { loads++; return zzRes("one") })
	zz.Assert(loads == 1 && first.res.Status == "one", "the first request did not fetch the status from the backend")
	dt := zz.Int64()
	zz.Assume(dt >= 0 && dt < 1<<30) // seconds
	clock.ns += dt
	other := key
	switch zz.Choose(4) {
	case 1:
		other.backendAddr = "b:2"
	case 2:
		other.protocol = 766
	case 3:
		other.routeGeneration = 4
	}
	second := c.load(other, ttlSec*time.Second, func() *pingResult { loads++; return zzRes("two") })
	if other != key {
		zz.Assert(loads == 2 && second.res.Status == "two", "a status cached for another backend, protocol or route generation was served")
		zz.Reach("other-key")
	} else if dt >= ttl {
		zz.Assert(loads == 2 && second.res.Status == "two", "a status older than the route's TTL was served from the cache")
		zz.Reach("expired")
	} else {
		zz.Assert(loads == 1 && second == first, "a status younger than the TTL was fetched again instead of being served from the cache")
		zz.Reach("cached")
	}
}

// The same question with a backend that is slow to answer, for fixed fetch durations around the TTL
// (shorter, exactly the TTL, longer, much longer) and an arbitrary later instant: an entry stored
// after a slow fetch still expires - at the latest one TTL after it was stored.
func VerifHarness_CacheTTLAfterSlowFetch() {
	clock := &zzClock32{ns: 1_000_000}
	c := zzCache32(clock)
	const ttlSec = 5
	key := pingKey{backendAddr: "b:1", protocol: 767, routeGeneration: 3}
	fd := []int64{1, 4, 5, 6, 3600}[zz.Choose(5)]
	loads := 0
	first := c.load(key, ttlSec*time.Second, func() *pingResult { loads++; clock.ns += fd; return zzRes("one") })
	zz.Assert(loads == 1 && first.res.Status == "one", "the first request did not fetch the status from the backend")
	dt := zz.Int64()
	zz.Assume(dt >= 0 && dt < 1<<30) // seconds after the entry was stored
	clock.ns += dt
	second := c.load(key, ttlSec*time.Second, func() *pingResult { loads++; return zzRes("two") })
	if dt >= ttlSec {
		zz.Assert(loads == 2 && second.res.Status == "two", "a status stored after a slow fetch was still served more than the TTL later")
		zz.Reach("expired-after-slow-fetch")
	} else if dt < ttlSec-fd {
		zz.Assert(loads == 1 && second == first, "a status younger than the TTL was fetched again instead of being served from the cache")
		zz.Reach("cached-after-slow-fetch")
	}
}

// After a reset nothing obtained before it is served, however the slow fetch that was in flight
// across the reset interleaves: a request that starts after the reset returned gets a status fetched
// after the reset.
func VerifHarness_ResetDropsOldStatus() {
	zz.MaxPreempt(2)
	clock := &zzClock32{ns: 1_000_000}
	c := zzCache32(clock)
	key := pingKey{backendAddr: "b:1", protocol: 767}
	ttl := time.Hour
	// every fetch is tagged with whether it began before the reset took effect (ghost read of the
	// generation counter; the cache itself never sees the tag)
	fetch := func(slow bool) func() *pingResult {
		return func() *pingResult {
			before := c.generation == 0
			if slow {
				zz.Yield()
			}
			if before {
				return zzRes("before-reset")
			}
			return zzRes("after-reset")
		}
	}
	var late *pingResult
	zz.Go(func() {
		// a request whose backend fetch is slow: it may straddle the reset
		_ = c.load(key, ttl, fetch(true))
	})
	zz.Go(func() {
		c.reset()
		late = c.load(key, ttl, fetch(false))
	})
	zz.WaitAll()
	zz.Assert(late != nil, "the request after the reset got no status")
	zz.Assert(late.res.Status == "after-reset", "a request that started after the reset was answered with a status obtained before it")
	// and later requests never see the pre-reset status either
	again := c.load(key, ttl, fetch(false))
	zz.Assert(again.res.Status == "after-reset", "a status obtained before the reset was stored in the cache after it")
	zz.Reach("reset")
}

// Two simultaneous requests for the same key: at most one backend fetch is in flight, both get its result.
func VerifHarness_SingleFlight() {
	zz.MaxPreempt(2)
	clock := &zzClock32{ns: 1_000_000}
	c := zzCache32(clock)
	key := pingKey{backendAddr: "b:1", protocol: 767}
	inFlight, maxInFlight, fetches := 0, 0, 0
	fetch := func() *pingResult {
		inFlight++
		fetches++
		if inFlight > maxInFlight {
			maxInFlight = inFlight
		}
		zz.Yield()
		inFlight--
		return zzRes("s")
	}
	var r1, r2 *pingResult
	zz.Go(func() { r1 = c.load(key, time.Hour, fetch) })
	zz.Go(func() { r2 = c.load(key, time.Hour, fetch) })
	zz.WaitAll()
	zz.Assert(maxInFlight <= 1, "two backend status requests for the same key were in flight at once")
	zz.Assert(r1 != nil && r2 != nil && r1.res.Status == "s" && r2.res.Status == "s", "a request got no status")
	zz.Reach("single-flight")
}

// Two simultaneous requests whose keys differ in backend, client protocol or route generation never
// share a fetch: each gets the status fetched for its own key.
func VerifHarness_ConcurrentKeysDoNotShare() {
	zz.MaxPreempt(2)
	clock := &zzClock32{ns: 1_000_000}
	c := zzCache32(clock)
	k1 := pingKey{backendAddr: "b:1", protocol: 767, routeGeneration: 3}
	k2 := k1
	switch zz.Choose(3) {
	case 0:
		k2.backendAddr = "b:2"
	case 1:
		k2.protocol = 47
	case 2:
		k2.routeGeneration = 4
	}
	var r1, r2 *pingResult
	zz.Go(func() { r1 = c.load(k1, time.Hour, func() *pingResult { zz.Yield(); return zzRes("one") }) })
	zz.Go(func() { r2 = c.load(k2, time.Hour, func() *pingResult { zz.Yield(); return zzRes("two") }) })
	zz.WaitAll()
	zz.Assert(r1 != nil && r1.res.Status == "one", "a request was answered with the status fetched for a different key")
	zz.Assert(r2 != nil && r2.res.Status == "two", "a request was answered with the status fetched for a different key")
	zz.Reach("distinct-keys")
}

// The configured fallback status is used only when there is a backend error and a fallback.
func VerifHarness_FallbackOnlyOnFailure() {
	var route *config.Route
	switch zz.Choose(3) {
	case 1:
		route = &config.Route{}
	case 2:
		route = &config.Route{Fallback: &config.Status{}}
	}
	resp, _ := handleFallbackResponse(logr.Discard(), route, 767, errors.New("all backends failed"))
	if route == nil || route.Fallback == nil {
		zz.Assert(resp == nil, "a fallback status was produced although none is configured")
		zz.Reach("no-fallback")
	} else {
		zz.Assert(resp != nil, "the configured fallback status was not used when every backend failed")
		zz.Reach("fallback")
	}
}

func VerifMutant_Cache() {
	clock := &zzClock32{ns: 1}
	c := zzCache32(clock)
	key := pingKey{backendAddr: "b:1"}
	n := 0
	c.load(key, time.Hour, func() *pingResult { n++; return zzRes("a") })
	c.load(key, time.Hour, func() *pingResult { n++; return zzRes("b") })
	zz.Assert(n == 2, "control: the second request within the TTL is served from the cache")
}
