package future

import (
	zz "go.minekube.com/gate/pkg/internal/zzverif"
)

type zzCB struct {
	calls int
	got   int
}

// Symbolic sequences of up to 4 (quick) / 5 (thorough) operations over {register callback i, complete(v)}:
// the value is fixed by the first completion; every callback runs exactly once with it, whether
// it was registered before or after.
func VerifHarness_FutureSequence() {
	f := New[int]()
	steps := 4
	if zz.Thorough() {
		steps = 5
	}
	var cbs []*zzCB
	completed := false
	first := 0
	for i := 0; i < steps; i++ {
		if zz.Bool() {
			cb := &zzCB{}
			cbs = append(cbs, cb)
			ret := f.ThenAccept(func(v int) { cb.calls++; cb.got = v })
			zz.Assert(ret == f, "ThenAccept does not return the future")
			if completed {
				zz.Assert(cb.calls == 1 && cb.got == first, "a callback registered after completion did not run at once with the completed value")
				zz.Reach("registered-after")
			} else {
				zz.Assert(cb.calls == 0, "a callback ran before the future completed")
				zz.Reach("registered-before")
			}
		} else {
			v := zz.Int()
			f.Complete(v)
			if !completed {
				completed = true
				first = v
				zz.Reach("first-completion")
			} else {
				zz.Reach("repeated-completion")
			}
		}
		zz.Assert(!zz.Held(&f.mu), "the future's lock is still held after the call returned")
		for _, cb := range cbs {
			if completed {
				zz.Assert(cb.calls == 1, "a callback did not run exactly once after completion")
				zz.Assert(cb.got == first, "a callback saw a value other than the first completion's")
			} else {
				zz.Assert(cb.calls == 0, "a callback ran before completion")
			}
		}
	}
}

// Registrations and completions racing on two goroutines (every interleaving at the lock operations,
// up to 2 preemptions): each callback still runs exactly once, all with the same value, and that
// value is one of the completed ones.
func VerifHarness_FutureConcurrent() {
	zz.MaxPreempt(2)
	f := New[int]()
	a, b := &zzCB{}, &zzCB{}
	v1, v2 := zz.Int(), zz.Int()
	zz.Go(func() {
		f.ThenAccept(func(v int) { a.calls++; a.got = v })
		f.Complete(v1)
	})
	zz.Go(func() {
		f.Complete(v2)
		f.ThenAccept(func(v int) { b.calls++; b.got = v })
	})
	zz.WaitAll()
	zz.Assert(a.calls == 1 && b.calls == 1, "a callback did not run exactly once under concurrent registration and completion")
	zz.Assert(a.got == b.got, "two callbacks of one future saw different values")
	zz.Assert(a.got == v1 || a.got == v2, "callbacks saw a value that was never completed")
	zz.Assert(f.completed && f.value == a.got, "the future's value is not the one the callbacks saw")
	zz.Reach("concurrent")
}

// A chain of composed futures completes in chain order: the outer future completes only after the
// first future and then the inner one have completed, with the inner value.
func VerifHarness_FutureCompose() {
	f := New[int]()
	inner := New[int]()
	var order []int
	innerMade := false
	out := ThenCompose(f, func(v int) *Future[int] {
		order = append(order, 1)
		innerMade = true
		return inner
	})
	res := &zzCB{}
	out.ThenAccept(func(v int) { order = append(order, 2); res.calls++; res.got = v })
	v, w := zz.Int(), zz.Int()
	// complete the two sources in either order
	if zz.Bool() {
		f.Complete(v)
		zz.Assert(innerMade && res.calls == 0, "the composed future completed before the inner future did")
		inner.Complete(w)
		zz.Reach("outer-then-inner")
	} else {
		inner.Complete(w)
		zz.Assert(!innerMade && res.calls == 0, "the composed stage ran before the first future completed")
		f.Complete(v)
		zz.Reach("inner-then-outer")
	}
	zz.Assert(res.calls == 1 && res.got == w, "the composed future did not complete exactly once with the inner value")
	zz.Assert(len(order) == 2 && order[0] == 1 && order[1] == 2, "the chain did not complete in chain order")
	// a second completion of either source changes nothing
	f.Complete(v + 1)
	inner.Complete(w + 1)
	zz.Assert(res.calls == 1 && res.got == w && out.value == w, "a repeated completion changed the composed result")
}

func VerifMutant_Future() {
	f := New[int]()
	cb := &zzCB{}
	f.ThenAccept(func(v int) { cb.calls++; cb.got = v })
	f.Complete(zz.Int())
	f.Complete(zz.Int())
	zz.Assert(cb.calls == 2, "control: a second completion must not run callbacks again")
}
