package proxy

import (
	"context"
	"strings"

	"go.minekube.com/gate/pkg/edition/java/config"
	"go.minekube.com/gate/pkg/edition/java/profile"
	"go.minekube.com/gate/pkg/edition/java/proto/state"
	zz "go.minekube.com/gate/pkg/internal/zzverif"
	"go.minekube.com/gate/pkg/util/uuid"
	"go.minekube.com/common/minecraft/component"
)

// ---- C11: one inductive step of the player registry from an arbitrary valid pre-state ----

type zzReg struct {
	p   *Proxy
	cfg *config.Config
	ev  *zzEvents
	pre []*connectedPlayer // players registered in the pre-state
}

// zzRegPlayer builds a connectedPlayer over a fake connection whose Close runs the player's teardown,
// as the real connection's read loop does (closeKnown -> SessionHandler.Disconnected -> teardown).
func (r *zzReg) player(name string, id uuid.UUID) *connectedPlayer {
	conn := newZZConn(767, state.Play)
	conn.ctx, conn.cancel = context.WithCancel(context.Background())
	pl := &connectedPlayer{
		MinecraftConn:      conn,
		sessionHandlerDeps: &sessionHandlerDeps{proxy: r.p, registrar: r.p, eventMgr: r.ev, configProvider: &zzConfigProvider{cfg: r.cfg}},
		profile:            &profile.GameProfile{ID: id, Name: name},
	}
	conn.onClose = pl.teardown
	return pl
}

func zzSymID() uuid.UUID {
	var id uuid.UUID
	id[0] = zz.Byte()
	id[15] = zz.Byte()
	return id
}

// zzDisconnectStub stands in for (*connectedPlayer).Disconnect: the real one renders the reason and
// writes a disconnect packet before closing; what the registry depends on is only that an active
// player's connection is closed once and that closing runs teardown.
func zzDisconnectStub(p *connectedPlayer, reason component.Component) {
	if !p.Active() {
		return
	}
	_ = p.MinecraftConn.Close()
}

func zzLower(s string) string { return strings.ToLower(s) }

// zzName is a symbolic ASCII username of 1..maxLen bytes (any ASCII byte, both letter cases).
func zzName(maxLen int) string {
	s := zz.String(1 + zz.Choose(maxLen))
	for i := 0; i < len(s); i++ {
		zz.Assume(s[i] < 0x80)
	}
	return s
}

// newZZReg builds a registry holding n (0..2) players with symbolic names (1..nameLen bytes) and ids,
// constrained by the representation invariant: keys are lower(name) / id of their value; without kick
// mode names and ids are pairwise distinct; in kick mode ids are distinct and a name entry may have
// been taken over by the newer of two same-named players.
func newZZReg(kick bool, nameLen, maxPre int) *zzReg {
	cfg := config.DefaultConfig
	cfg.OnlineMode = true
	cfg.OnlineModeKickExistingPlayers = kick
	r := &zzReg{cfg: &cfg, ev: &zzEvents{}}
	r.p = zzProxy(&cfg, r.ev)
	zz.ReplaceSym("(*go.minekube.com/gate/pkg/edition/java/proxy.connectedPlayer).Disconnect", zzDisconnectStub)
	n := zz.Choose(maxPre + 1)
	for i := 0; i < n; i++ {
		name := zzName(nameLen)
		id := zzSymID()
		for _, o := range r.pre {
			zz.Assume(o.profile.ID != id)
			if !kick {
				zz.Assume(zzLower(o.profile.Name) != zzLower(name))
			}
		}
		pl := r.player(name, id)
		r.p.playerIDs[id] = pl
		r.p.playerNames[zzLower(name)] = pl // in kick mode the later player takes over a shared name
		r.pre = append(r.pre, pl)
	}
	// lock discipline: the registry maps are only touched under muP (struct comment)
	zz.Guard(&r.p.playerIDs, &r.p.muP)
	zz.Guard(&r.p.playerNames, &r.p.muP)
	return r
}

// invariant checks the registry representation invariant and returns nothing; violations are asserts.
func (r *zzReg) invariant(kick bool, all []*connectedPlayer) {
	p := r.p
	zz.Assert(!zz.Held(&p.muP), "the registry lock is still held after the operation returned (every later registry call blocks)")
	zz.Assert(p.PlayerCount() == len(p.playerIDs), "player count differs from the number of registered UUIDs")
	nIDs := 0
	for _, pl := range all {
		if got, ok := p.playerIDs[pl.profile.ID]; ok && got == pl {
			nIDs++
		}
		if got, ok := p.playerNames[zzLower(pl.profile.Name)]; ok && got == pl {
			// a name entry must describe a player that is registered by UUID
			byID, ok2 := p.playerIDs[pl.profile.ID]
			zz.Assert(ok2 && byID == pl, "a player is findable by name but not registered by UUID")
		}
	}
	zz.Assert(nIDs == len(p.playerIDs), "a UUID entry does not map to the player carrying that UUID")
	if !kick {
		zz.Assert(len(p.playerNames) == len(p.playerIDs), "name and UUID lookups describe different sets of players")
	}
}

// stillFindable asserts that registered player pl survived an operation performed by someone else.
func (r *zzReg) stillFindable(pl *connectedPlayer, byNameToo bool, what string) {
	got := r.p.Player(pl.profile.ID)
	zz.Assert(got != nil && got.(*connectedPlayer) == pl, what+": a registered player is no longer findable by UUID")
	if byNameToo {
		gotN := r.p.PlayerByName(pl.profile.Name)
		zz.Assert(gotN != nil && gotN.(*connectedPlayer) == pl, what+": a registered player is no longer findable by name")
	}
}

func zzRegistryStep(kick bool, nameLen, maxPre int) (outcome string) {
	r := newZZReg(kick, nameLen, maxPre)
	p := r.p
	// the acting player: its name and id may collide with registered ones in any way
	q := r.player(zzName(nameLen), zzSymID())
	all := append(append([]*connectedPlayer{}, r.pre...), q)
	nameOwner := map[*connectedPlayer]bool{}
	for _, o := range r.pre {
		nameOwner[o] = p.playerNames[zzLower(o.profile.Name)] == o
	}
	sameID := func(o *connectedPlayer) bool { return o.profile.ID == q.profile.ID }
	sameName := func(o *connectedPlayer) bool { return zzLower(o.profile.Name) == zzLower(q.profile.Name) }

	switch zz.Choose(4) {
	case 0: // may this player register?
		ok := p.canRegisterConnection(q)
		free := true
		for _, o := range r.pre {
			if sameID(o) || sameName(o) {
				free = false
			}
		}
		zz.Assert(ok == (kick || free), "canRegisterConnection disagrees with the registry contents")
		for _, o := range r.pre {
			r.stillFindable(o, nameOwner[o], "after a registration probe")
		}
		outcome = "can-register"
	case 1: // a login registers
		ok := p.registerConnection(q)
		zz.Assert(!zz.Held(&p.muP), "registerConnection returned with the registry lock held (every later registry call blocks)")
		if ok {
			got := p.Player(q.profile.ID)
			zz.Assert(got != nil && got.(*connectedPlayer) == q, "a successfully registered player is not findable by UUID")
			gotN := p.PlayerByName(q.profile.Name)
			zz.Assert(gotN != nil && gotN.(*connectedPlayer) == q, "a successfully registered player is not findable by name")
			outcome = "registered"
		} else {
			zz.Assert(!kick, "registration was refused in kick-existing mode")
			outcome = "register-refused"
		}
		for _, o := range r.pre {
			if sameID(o) {
				if kick {
					zz.Assert(o.MinecraftConn.(*zzConn).closed > 0 && !o.Active(), "kick mode: the older session with the same UUID was not disconnected")
					zz.Assert(ok, "kick mode: the newer session was not registered")
				} else {
					zz.Assert(!ok, "a second player with an already registered UUID was registered")
					r.stillFindable(o, nameOwner[o], "after a refused duplicate login")
				}
				continue
			}
			if sameName(o) && !kick {
				zz.Assert(!ok, "a second player with an already registered name was registered")
			}
			r.stillFindable(o, nameOwner[o] && !(kick && sameName(o)), "after another player's login")
		}
	case 2: // a never-registered connection (rejected, duplicate or failed login) goes away
		found := p.unregisterConnection(q)
		zz.Assert(!found, "unregistering a never-registered connection reported it as registered")
		for _, o := range r.pre {
			r.stillFindable(o, nameOwner[o], "after the teardown of a never-registered connection")
		}
		outcome = "unregister-stranger"
	case 3: // teardown of a never-registered connection or of a registered one
		if len(r.pre) > 0 && zz.Bool() {
			victim := r.pre[zz.Choose(len(r.pre))]
			victim.teardown()
			got := p.Player(victim.profile.ID)
			zz.Assert(got == nil, "a player is still registered after its own teardown")
			for _, o := range r.pre {
				if o != victim {
					r.stillFindable(o, nameOwner[o], "after another player's teardown")
				}
			}
			outcome = "teardown-registered"
		} else {
			q.teardown()
			for _, o := range r.pre {
				r.stillFindable(o, nameOwner[o], "after the teardown of a never-registered connection")
			}
			outcome = "teardown-stranger"
		}
	}
	r.invariant(kick, all)
	// a later registry call must return (no leaked lock)
	_ = p.PlayerCount()
	return outcome
}

func VerifHarness_RegistryStep() {
	zz.MaxLen(2)
	nl, mp := 2, 2
	if zz.Thorough() && zz.Choose(2) == 1 {
		nl, mp = 1, 3
	}
	switch zzRegistryStep(false, nl, mp) {
	case "can-register":
		zz.Reach("can-register")
	case "registered":
		zz.Reach("registered")
	case "register-refused":
		zz.Reach("register-refused")
	case "unregister-stranger":
		zz.Reach("unregister-stranger")
	case "teardown-registered":
		zz.Reach("teardown-registered")
	case "teardown-stranger":
		zz.Reach("teardown-stranger")
	}
}

func VerifHarness_RegistryStepKickMode() {
	zz.MaxLen(2)
	kl := 1
	if zz.Thorough() {
		kl = 2
	}
	switch zzRegistryStep(true, kl, 2) {
	case "can-register":
		zz.Reach("kick-can-register")
	case "registered":
		zz.Reach("kick-registered")
	case "unregister-stranger":
		zz.Reach("kick-unregister-stranger")
	case "teardown-registered":
		zz.Reach("kick-teardown-registered")
	case "teardown-stranger":
		zz.Reach("kick-teardown-stranger")
	}
}

// Two complete sessions with the same name in different case, sequentially: login A, login B (refused),
// B's teardown, then A must still be there; then A leaves and the registry is empty.
func VerifHarness_RegistrySequence() {
	zz.MaxLen(2)
	r := newZZReg(false, 1, 2)
	p := r.p
	zz.Assume(len(r.pre) == 0)
	a := r.player(zzName(2), zzSymID())
	b := r.player(zzName(2), zzSymID())
	zz.Assert(p.registerConnection(a), "first login refused on an empty registry")
	okB := p.canRegisterConnection(b) && p.registerConnection(b)
	collide := a.profile.ID == b.profile.ID || zzLower(a.profile.Name) == zzLower(b.profile.Name)
	zz.Assert(okB == !collide, "second login admitted/refused against the uniqueness rule")
	if !okB {
		b.teardown()
		r.stillFindable(a, true, "after the refused login's teardown")
		zz.Reach("refused-then-teardown")
	} else {
		zz.Assert(p.PlayerCount() == 2, "two distinct players registered but count is not 2")
		b.teardown()
		r.stillFindable(a, true, "after the other player's logout")
		zz.Reach("both-registered")
	}
	a.teardown()
	zz.Assert(p.PlayerCount() == 0 && len(p.playerNames) == 0, "registry not empty after everyone left")
}

// Two logins racing for the UUID (and name) of an online player, every interleaving at the registry
// lock operations (registerConnection releases the lock while it kicks the older session, so it is
// not one critical section): afterwards every session that was admitted and is still connected is
// findable, so at most one session per UUID survives and the others were disconnected.
func VerifHarness_ConcurrentLogins() {
	zz.MaxLen(1)
	zz.MaxPreempt(3)
	kick := zz.Bool()
	r := newZZReg(kick, 1, 0)
	p := r.p
	var id uuid.UUID
	id[0] = 7
	old := r.player("a", id)
	p.playerIDs[id] = old
	p.playerNames["a"] = old
	name2 := "a"
	if zz.Bool() {
		name2 = "A"
	}
	q1 := r.player("a", id)
	q2 := r.player(name2, id)
	oldOnline := true
	if !kick && zz.Bool() {
		// without kick mode: the name is free, two case variants with different UUIDs race
		delete(p.playerIDs, id)
		delete(p.playerNames, "a")
		q2.profile.ID[0] = 8
		oldOnline = false
	}
	ok1, ok2 := false, false
	zz.Go(func() { ok1 = p.canRegisterConnection(q1) && p.registerConnection(q1) })
	zz.Go(func() { ok2 = p.canRegisterConnection(q2) && p.registerConnection(q2) })
	zz.WaitAll()
	zz.Assert(!zz.Held(&p.muP), "the registry lock is still held after both logins returned")
	live := 0
	for _, pl := range []*connectedPlayer{old, q1, q2} {
		admitted := (pl == old && oldOnline) || (pl == q1 && ok1) || (pl == q2 && ok2)
		if admitted && pl.Active() {
			live++
			got := p.Player(pl.profile.ID)
			zz.Assert(got != nil && got.(*connectedPlayer) == pl, "an admitted session that is still connected is not findable by UUID (it was silently replaced)")
			gotN := p.PlayerByName(pl.profile.Name)
			zz.Assert(gotN != nil && (kick || gotN.(*connectedPlayer) == pl), "an admitted session that is still connected is not findable by name")
		}
	}
	zz.Assert(p.PlayerCount() == len(p.playerIDs) && p.PlayerCount() <= live, "the registry holds sessions that were never admitted or are gone")
	if !kick {
		zz.Assert(len(p.playerNames) == len(p.playerIDs) && live == 1, "without kick mode exactly one of the colliding sessions may be online")
		zz.Reach("concurrent-no-kick")
	} else {
		zz.Assert(ok1 && ok2, "kick mode refused a login")
		zz.Assert(live == 1, "kick mode: not exactly one session of the UUID survived")
		zz.Reach("concurrent-kick")
	}
}

func VerifMutant_RegistryStep() {
	zz.MaxLen(1)
	r := newZZReg(false, 1, 2)
	zz.Assume(len(r.pre) == 1)
	q := r.player(zzName(1), zzSymID())
	ok := r.p.canRegisterConnection(q)
	zz.Assert(ok, "control: a colliding name or UUID must make canRegisterConnection false")
}
