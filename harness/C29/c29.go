package lite

import (
	"go.minekube.com/gate/pkg/edition/java/lite/config"
	zz "go.minekube.com/gate/pkg/internal/zzverif"
)

func zzLowerByte(c byte) byte {
	if c >= 'A' && c <= 'Z' {
		return c + 32
	}
	return c
}

// zzGlob is the reference matcher from the statement: '*' any sequence (shortest first, so that the
// captures are the leftmost ones), '?' exactly one character, everything else literally, compared
// case-insensitively. ASCII hosts: one character is one byte.
func zzGlob(p, s string, groups []string) (bool, []string) {
	if len(p) == 0 {
		return len(s) == 0, groups
	}
	switch p[0] {
	case '*':
		for k := 0; k <= len(s); k++ {
			if ok, g := zzGlob(p[1:], s[k:], append(append([]string{}, groups...), s[:k])); ok {
				return true, g
			}
		}
		return false, nil
	case '?':
		if len(s) == 0 {
			return false, nil
		}
		return zzGlob(p[1:], s[1:], append(append([]string{}, groups...), s[:1]))
	}
	if len(s) == 0 || zzLowerByte(s[0]) != zzLowerByte(p[0]) {
		return false, nil
	}
	return zzGlob(p[1:], s[1:], groups)
}

func zzLowerStr(s string) string {
	b := []byte(s)
	for i := range b {
		b[i] = zzLowerByte(b[i])
	}
	return string(b)
}

var zzPatterns = []string{"*", "?", "a*", "*.b", "a?c", "a.b", "*.*", "a+(", "A.b", "?*", "[a]", "a|b", "**"}

func zzHost(max int) string {
	s := zz.String(zz.Choose(max + 1))
	for i := 0; i < len(s); i++ {
		zz.Assume(s[i] < 0x80) // ASCII incl. control characters, dots and regex metacharacters
	}
	return s
}

// matchWithGroups(host, pattern) for every ASCII host of up to 3 (quick) / 4 (thorough) bytes against
// each pattern of a fixed list: same verdict and the same captured texts as the reference.
func VerifHarness_GlobMatch() {
	max := 3
	if zz.Thorough() {
		max = 4
	}
	zz.MaxLen(max)
	zz.Unwind(400)
	pat := zzPatterns[zz.Choose(len(zzPatterns))]
	host := zzHost(max)
	got, groups := matchWithGroups(host, pat)
	want, wgroups := zzGlob(pat, zzLowerStr(host), nil)
	zz.Assert(got == want, "a host pattern matches differently from the glob rules ('*' any sequence, '?' exactly one character, case-insensitive)")
	if got {
		zz.Assert(len(groups) == len(wgroups), "the number of captured wildcard texts is wrong")
		for i := range wgroups {
			zz.Assert(groups[i] == wgroups[i], "a wildcard captured a different text than it matched")
		}
		zz.Reach("matched")
	} else {
		zz.Reach("not-matched")
	}
}

// Non-ASCII hosts: one character is one UTF-8 encoded rune for '?', and letters outside ASCII compare
// case-insensitively too. Latin-1 letters (U+00C0..U+00FF, second byte symbolic) around fixed text.
func VerifHarness_GlobMatchLatin1() {
	zz.MaxLen(2)
	zz.Unwind(400)
	b := zz.Byte()
	zz.Assume(b >= 0x80 && b <= 0xbf)
	ch := string([]byte{0xc3, b}) // U+00C0 + (b-0x80)
	lower := ch
	if b <= 0x9e && b != 0x97 { // À..Þ except the multiplication sign have lower-case forms 0x20 above
		lower = string([]byte{0xc3, b + 0x20})
	}
	switch zz.Choose(4) {
	case 0: // '?' matches exactly one character, not one byte
		ok, g := matchWithGroups(ch+".b", "?.b")
		zz.Assert(ok && len(g) == 1 && g[0] == lower, "'?' did not match exactly one non-ASCII character (or captured something else)")
		ok, _ = matchWithGroups(ch+".b", "??.b")
		zz.Assert(!ok, "'??' matched a single two-byte character")
	case 1: // literal non-ASCII letters compare case-insensitively
		ok, _ := matchWithGroups(ch+".b", lower+".b")
		zz.Assert(ok, "a host differing from the pattern only in the case of a non-ASCII letter did not match")
		ok, _ = matchWithGroups(lower+".b", ch+".b")
		zz.Assert(ok, "a pattern differing from the host only in the case of a non-ASCII letter did not match")
	case 2: // '*' captures the character whole
		ok, g := matchWithGroups("a"+ch+"c", "a*c")
		zz.Assert(ok && len(g) == 1 && g[0] == lower, "'*' did not capture a non-ASCII character whole")
	case 3: // a pattern without wildcards of the same character count but different byte length
		ok, _ := matchWithGroups(ch+"x", "?x")
		zz.Assert(ok, "'?x' did not match a non-ASCII character followed by x")
		ok, _ = matchWithGroups("\u212a.b", "k.b") // U+212A KELVIN SIGN lower-cases to k
		zz.Assert(ok, "the Kelvin sign did not match k case-insensitively")
	}
	zz.Reach("latin1")
}

// First matching route in configuration order wins; a host matching no route yields no route.
func VerifHarness_FirstRouteWins() {
	zz.MaxLen(3)
	zz.Unwind(400)
	routes := []config.Route{
		{Host: []string{"a.b", "x*"}, Backend: []string{"one:1"}},
		{Host: []string{"*.b"}, Backend: []string{"two-$1:2"}},
		{Host: []string{"?"}, Backend: []string{"three-$1:3"}},
	}
	host := zzHost(3)
	gotHost, route, groups := FindRouteWithGroups(host, routes...)
	lower := zzLowerStr(host)
	wantIdx, wantPat := -1, ""
	var wantGroups []string
	for i := range routes {
		for _, p := range routes[i].Host {
			if wantIdx < 0 {
				if ok, g := zzGlob(p, lower, nil); ok {
					wantIdx, wantPat, wantGroups = i, p, g
				}
			}
		}
	}
	if wantIdx < 0 {
		zz.Assert(route == nil && gotHost == "", "a host that matches no route was routed")
		zz.Reach("no-route")
		return
	}
	zz.Assert(route == &routes[wantIdx] && gotHost == wantPat, "the connection was not routed to the first matching route in configuration order")
	zz.Assert(len(groups) == len(wantGroups), "the captured wildcard texts of the chosen route are wrong")
	for i := range wantGroups {
		zz.Assert(groups[i] == wantGroups[i], "the captured wildcard texts of the chosen route are wrong")
	}
	// substitution into the backend address
	addr := substituteBackendParams(route.Backend[0], groups)
	want := route.Backend[0]
	switch wantIdx {
	case 1:
		want = "two-" + wantGroups[0] + ":2"
	case 2:
		want = "three-" + wantGroups[0] + ":3"
	}
	zz.Assert(addr == want, "the text a wildcard matched was not substituted for its $n in the backend address")
	zz.Reach("routed")
}

// $1 and $2 are replaced by the first and second wildcard text, each once and not re-expanded.
func VerifHarness_Substitution() {
	zz.MaxLen(2)
	g1, g2 := zzHost(2), zzHost(2)
	got := substituteBackendParams("$1-$2.$1:25565", []string{g1, g2})
	zz.Assert(got == g1+"-"+g2+"."+g1+":25565", "wildcard texts were not substituted literally for $1 and $2")
	zz.Reach("substituted")
}

// The cleaned host: everything from the first NUL (Forge marker) and from the first "///" (TCPShield
// real-IP marker) is dropped, then surrounding dots are removed.
func VerifHarness_ClearVirtualHost() {
	max := 5
	if zz.Thorough() {
		max = 6
	}
	zz.MaxLen(max)
	zz.Unwind(200)
	raw := zz.String(zz.Choose(max + 1))
	for i := 0; i < len(raw); i++ {
		c := raw[i]
		zz.Assume(c == 0 || c == '/' || c == '.' || c == 'a' || c == 'B')
	}
	want := raw
	for i := 0; i < len(want); i++ {
		if want[i] == 0 {
			want = want[:i]
			break
		}
	}
	for i := 0; i+3 <= len(want); i++ {
		if want[i:i+3] == "///" {
			want = want[:i]
			break
		}
	}
	for len(want) > 0 && want[0] == '.' {
		want = want[1:]
	}
	for len(want) > 0 && want[len(want)-1] == '.' {
		want = want[:len(want)-1]
	}
	zz.Assert(ClearVirtualHost(raw) == want, "the cleaned virtual host differs from 'cut at NUL, cut at ///, trim dots'")
	zz.Reach("cleaned")
}

func VerifMutant_Glob() {
	zz.MaxLen(2)
	zz.Unwind(400)
	host := zzHost(2)
	ok, _ := matchWithGroups(host, "a?")
	zz.Assert(!ok, "control: 'a?' matches some two-character host")
}
