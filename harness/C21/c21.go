package proxy

import (
	"time"

	"go.minekube.com/gate/pkg/edition/java/proto/packet/chat"
	"go.minekube.com/gate/pkg/edition/java/proto/state"
	"go.minekube.com/gate/pkg/gate/proto"
	"go.minekube.com/gate/pkg/internal/future"
	zz "go.minekube.com/gate/pkg/internal/zzverif"
)

// ---- acknowledgement conservation: one inductive step on ChatState ----
//
// Ghost state: clientAcked = everything the client acknowledged so far, backendAcked = everything the
// backend was told (explicit ChatAcknowledgement offsets + offsets carried by forwarded packets).
// Invariant I: 0 <= held < 40 and backendAcked + held == clientAcked, where held is the state's
// delayed count. From any state satisfying I, after any one operation with any non-negative offset:
// I holds again (so the backend never runs ahead, and lags by fewer than 40), the lag is 0 right
// after a packet that carries a last-seen update, and an unsigned command changes nothing.
func VerifHarness_AckConservation() {
	cs := &ChatState{}
	held := zz.Int32()
	zz.Assume(held >= 0 && held < 40)
	cs.delayedAckCount.Store(held)
	clientAcked := zz.Int64()
	zz.Assume(clientAcked >= int64(held) && clientAcked < 1<<40)
	backendAcked := clientAcked - int64(held)

	off32 := zz.Int32() // a VarInt offset from the client
	zz.Assume(off32 >= 0)
	off := int(off32)
	switch zz.Choose(3) {
	case 0: // explicit acknowledgement packet
		fwd := cs.AccumulateAckCount(off)
		clientAcked += int64(off)
		zz.Assert(fwd >= 0, "a negative acknowledgement count would be forwarded")
		backendAcked += int64(fwd)
		zz.Reach("ack")
	case 1: // chat message or signed command: carries a last-seen update
		ts := time.Unix(1, 0)
		out := cs.UpdateFromMessage(&ts, &chat.LastSeenMessages{Offset: off})
		clientAcked += int64(off)
		zz.Assert(out != nil, "a packet with a last-seen update lost it")
		backendAcked += int64(out.Offset)
		zz.Assert(backendAcked == clientAcked, "the backend did not catch up completely with a packet that carries a last-seen update")
		zz.Reach("last-seen")
	case 2: // unsigned command: no last-seen update
		ts := time.Unix(1, 0)
		before := cs.delayedAckCount.Load()
		out := cs.UpdateFromMessage(&ts, nil)
		zz.Assert(out == nil, "an unsigned command produced a last-seen update")
		zz.Assert(cs.delayedAckCount.Load() == before, "an unsigned command flushed or changed the held acknowledgements")
		zz.Reach("unsigned")
	}
	now := int64(cs.delayedAckCount.Load())
	zz.Assert(backendAcked <= clientAcked, "the backend was told more acknowledgements than the client sent")
	zz.Assert(clientAcked-backendAcked < 40, "the backend lags the client's acknowledgements by 40 or more")
	zz.Assert(now >= 0 && now < 40 && backendAcked+now == clientAcked, "held acknowledgements are not conserved (held + forwarded != acknowledged)")
}

// Base case: a fresh state holds nothing.
func VerifHarness_AckBase() {
	cs := &ChatState{}
	zz.Assert(cs.delayedAckCount.Load() == 0, "fresh chat state holds acknowledgements")
	zz.Reach("base")
}

// ---- order: the backend sees packets in the order the client sent them ----

type zzChatBackend struct {
	zzConn
	order []int
	acked int // acknowledgements the backend has been told about
}

type zzTagged struct {
	chat.ChatAcknowledgement
	tag    int
	offset int // acknowledgement offset carried by this packet's last-seen update (0 if none)
}

func (b *zzChatBackend) WritePacket(p proto.Packet) error {
	switch x := p.(type) {
	case *zzTagged:
		b.order = append(b.order, x.tag)
		b.acked += x.offset
	case *chat.ChatAcknowledgement:
		b.order = append(b.order, 1000+x.Offset)
		b.acked += x.Offset
	}
	return nil
}

// zzForwarded builds the packet the command/chat handlers forward: it carries the fixed last-seen
// update the queue handed to them.
func zzForwarded(tag int, ls *chat.LastSeenMessages) *zzTagged {
	t := &zzTagged{tag: tag}
	if ls != nil {
		t.offset = ls.Offset
	}
	return t
}

func zzChatFixture() (*chatQueue, *zzChatBackend, *connectedPlayer) {
	backend := &zzChatBackend{}
	backend.zzConn = *newZZConn(767, state.Play)
	pl := &connectedPlayer{connectedServer_: &serverConnection{connection: backend}}
	pl.chatQueue = newChatQueue(pl)
	return pl.chatQueue, backend, pl
}

// While an earlier command is still being handled the client acknowledges a few messages (held back)
// and then sends a chat message with a last-seen update: once everything has been forwarded the
// backend has been told exactly what the client acknowledged (the held acknowledgements ride on the
// chat packet), whatever the completion timing.
func VerifHarness_HeldAcksCatchUp() {
	zz.MaxPreempt(2)
	cq, backend, _ := zzChatFixture()
	o1, a, o2 := zz.Int32(), zz.Int32(), zz.Int32()
	zz.Assume(o1 >= 0 && o1 < 1000 && a >= 0 && a < 20 && o2 >= 0 && o2 < 1000)
	ts := time.Unix(1, 0)
	slow := future.New[proto.Packet]()
	var first *chat.LastSeenMessages
	cq.QueuePacket(func(ls *chat.LastSeenMessages) *future.Future[proto.Packet] { first = ls; return slow }, ts, &chat.LastSeenMessages{Offset: int(o1)})
	cq.HandleAcknowledgement(int(a))
	cq.QueuePacket(func(ls *chat.LastSeenMessages) *future.Future[proto.Packet] {
		return future.New[proto.Packet]().Complete(zzForwarded(2, ls))
	}, ts, &chat.LastSeenMessages{Offset: int(o2)})
	zz.Go(func() { slow.Complete(zzForwarded(1, first)) })
	zz.WaitAll()
	zz.Assert(len(backend.order) >= 2 && backend.order[0] == 1 && backend.order[len(backend.order)-1] == 2, "the backend did not receive the packets in the client's order")
	zz.Assert(backend.acked == int(o1)+int(a)+int(o2), "after a packet with a last-seen update the backend has not been told exactly what the client acknowledged")
	zz.Reach("held-acks-catch-up")
}

// A command whose handling finishes late must not be overtaken by the chat message sent after it -
// with or without a last-seen update on the command (unsigned 1.20.5+ commands carry none).
func VerifHarness_CommandThenChat() {
	zz.MaxPreempt(2)
	cq, backend, pl := zzChatFixture()
	h := &chatHandler{eventMgr: &zzEvents{}, player: pl}
	ts := time.Unix(1, 0)
	var ls *chat.LastSeenMessages
	if zz.Bool() {
		ls = &chat.LastSeenMessages{Offset: 1}
	}
	forwarded := zz.Bool() // denied or proxy-consumed commands produce no packet
	h.queueCommandResult("cmd", ts, ls, func(e *CommandExecuteEvent, fixed *chat.LastSeenMessages) proto.Packet {
		if !forwarded {
			return nil
		}
		return zzForwarded(1, fixed)
	})
	cq.QueuePacket(func(fixed *chat.LastSeenMessages) *future.Future[proto.Packet] {
		return future.New[proto.Packet]().Complete(zzForwarded(2, fixed))
	}, ts, &chat.LastSeenMessages{Offset: 1})
	zz.WaitAll()
	if forwarded {
		zz.Assert(len(backend.order) == 2 && backend.order[0] == 1 && backend.order[1] == 2, "a chat message overtook the command the client sent before it")
		zz.Reach("command-forwarded")
	} else {
		zz.Assert(len(backend.order) == 1 && backend.order[0] == 2, "a consumed command produced a packet, or the chat after it was lost")
		zz.Reach("command-consumed")
	}
}

// Three client packets are queued in client order: a chat/command whose (asynchronous) processing
// completes on another goroutine at an arbitrary time, an acknowledgement that is large enough to be
// forwarded, and a second command whose processing completes immediately. Whatever the completion
// order and schedule, the backend receives them in queue order.
func VerifHarness_ChatQueueOrder() {
	zz.MaxPreempt(2)
	backend := &zzChatBackend{}
	backend.zzConn = *newZZConn(767, state.Play)
	pl := &connectedPlayer{connectedServer_: &serverConnection{connection: backend}}
	cq := newChatQueue(pl)
	slow := future.New[proto.Packet]()
	ts := time.Unix(1, 0)
	cq.QueuePacket(func(*chat.LastSeenMessages) *future.Future[proto.Packet] { return slow }, ts, &chat.LastSeenMessages{})
	cq.HandleAcknowledgement(45) // 45 >= 40: forwarded as 25, 20 stay held
	cq.QueuePacket(func(*chat.LastSeenMessages) *future.Future[proto.Packet] {
		return future.New[proto.Packet]().Complete(&zzTagged{tag: 3})
	}, ts, nil)
	zz.Assert(len(backend.order) == 0, "a later packet overtook an earlier one whose processing has not finished")
	zz.Go(func() { slow.Complete(&zzTagged{tag: 1}) })
	zz.WaitAll()
	zz.Assert(len(backend.order) == 3, "not every queued packet reached the backend exactly once")
	zz.Assert(backend.order[0] == 1 && backend.order[1] == 1025 && backend.order[2] == 3, "the backend did not receive the packets in the client's order")
	zz.Reach("order")
}

// The acknowledgements the backend has been told about never run ahead of the client: an acknowledgement
// that arrives after a chat message is not counted into that message, even when the message is still
// waiting behind an earlier packet whose handling has not finished.
func VerifHarness_AcksNeverRunAhead() {
	zz.MaxPreempt(2)
	cq, backend, _ := zzChatFixture()
	o0, o1, a, o3 := zz.Int32(), zz.Int32(), zz.Int32(), zz.Int32()
	zz.Assume(o0 >= 0 && o0 < 1000 && o1 >= 0 && o1 < 1000 && a >= 1 && a < 20 && o3 >= 0 && o3 < 1000)
	ts := time.Unix(1, 0)
	slow := future.New[proto.Packet]()
	var first *chat.LastSeenMessages
	carried := map[int]int{}
	cq.QueuePacket(func(ls *chat.LastSeenMessages) *future.Future[proto.Packet] { first = ls; return slow }, ts, &chat.LastSeenMessages{Offset: int(o0)})
	cq.QueuePacket(func(ls *chat.LastSeenMessages) *future.Future[proto.Packet] {
		carried[2] = ls.Offset
		return future.New[proto.Packet]().Complete(zzForwarded(2, ls))
	}, ts, &chat.LastSeenMessages{Offset: int(o1)})
	cq.HandleAcknowledgement(int(a)) // sent by the client after message 2
	zz.Go(func() { slow.Complete(zzForwarded(1, first)) })
	zz.WaitAll()
	cq.QueuePacket(func(ls *chat.LastSeenMessages) *future.Future[proto.Packet] {
		carried[3] = ls.Offset
		return future.New[proto.Packet]().Complete(zzForwarded(3, ls))
	}, ts, &chat.LastSeenMessages{Offset: int(o3)})
	zz.WaitAll()
	zz.Assert(len(backend.order) == 3 && backend.order[0] == 1 && backend.order[1] == 2 && backend.order[2] == 3, "the backend did not receive the packets in the client's order")
	zz.Assert(carried[2] == int(o1), "a message carried acknowledgements the client only sent after it (the backend was told more than the client had acknowledged at that point)")
	zz.Assert(carried[3] == int(a)+int(o3) && backend.acked == int(o0)+int(o1)+int(a)+int(o3), "the held acknowledgements did not ride on the next message")
	zz.Reach("acks-in-order")
}

// A session command the event denies (or the proxy runs itself) is not forwarded, but the last-seen
// update it carried and the acknowledgements held back before it are: the backend is told exactly
// what the client acknowledged.
func VerifHarness_ConsumedCommandKeepsAcks() {
	zz.MaxPreempt(1)
	protocol := proto.Protocol(761) // 1.19.3
	if zz.Bool() {
		protocol = 766 // 1.20.5: a command with signable arguments is still a session command
	}
	w := zzCmdFixture(protocol)
	held, off := zz.Int32(), zz.Int32()
	zz.Assume(held >= 0 && held < 20 && off >= 0 && off < 100)
	w.h.player.chatQueue.HandleAcknowledgement(int(held)) // held back: fewer than 20
	p := &chat.SessionPlayerCommand{Command: zzTyped, Timestamp: time.Unix(5, 0)}
	p.LastSeenMessages.Offset = int(off)
	_ = w.h.handleSessionCommand(p, false)
	zz.WaitAll()
	told := 0
	for _, o := range w.backend.log {
		switch x := o.packet.(type) {
		case *chat.ChatAcknowledgement:
			told += x.Offset
		case *chat.SessionPlayerCommand:
			told += x.LastSeenMessages.Offset
		case *chat.UnsignedPlayerCommand:
			told += x.LastSeenMessages.Offset
		}
	}
	rebuiltUnsigned := protocol >= 766 && w.outcome.allowed && w.outcome.modify && (w.outcome.forward || !w.proxyHas)
	if rebuiltUnsigned {
		// recorded as a known finding: see known_findings.json
		zz.Assert(told == int(held)+int(off), "a 1.20.5+ session command that is rewritten and forwarded is rebuilt as an unsigned command, which cannot carry the last-seen update: the acknowledgements are lost")
	} else {
		zz.Assert(told == int(held)+int(off), "after a session command (forwarded, denied or run by the proxy) the backend has not been told exactly what the client acknowledged")
	}
	if !w.outcome.allowed {
		zz.Reach("denied-keeps-acks")
	}
}

func VerifMutant_AckConservation() {
	cs := &ChatState{}
	cs.delayedAckCount.Store(20)
	off := zz.Int32()
	zz.Assume(off >= 0 && off < 100)
	fwd := cs.AccumulateAckCount(int(off))
	zz.Assert(fwd == 0, "control: 20 held + 20 or more acknowledged must forward something")
}
