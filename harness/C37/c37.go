package config

import (
	"errors"

	liteconfig "go.minekube.com/gate/pkg/edition/java/lite/config"
	zz "go.minekube.com/gate/pkg/internal/zzverif"
)

var errZZ37 = errors.New("validation error")

// Message formatting is not the subject: every error is the same value, only its presence counts.
func zzStubErrorf() {
	zz.Replace("fmt.Errorf", func(format string, a ...any) error { return errZZ37 })
}

// zzBase is the default configuration (which must validate without errors) with maps copied so that a
// harness can edit it.
func zzBase() Config {
	c := DefaultConfig
	c.Servers = map[string]string{"lobby": "localhost:25566", "game": "10.0.0.2:25567"}
	c.Try = []string{"lobby"}
	c.ForcedHosts = map[string][]string{}
	return c
}

func zzRejected(c *Config) bool {
	_, errs := c.Validate()
	return len(errs) > 0
}

// Numeric constraints and the forwarding mode, all varied at once: Validate reports an error exactly
// when compression level is outside -1..9, the threshold is below -1, an enabled quota has ops <= 0,
// burst < 1 or max entries < 1, or the forwarding mode is not one of the four documented ones.
func VerifHarness_NumericAndModeConstraints() {
	zzStubErrorf()
	c := zzBase()
	zz.Assert(!zzRejected(&c), "the default configuration does not validate")
	c.Compression.Level = zz.Int()
	c.Compression.Threshold = zz.Int()
	ops := []float32{-1, 0, 0.001, 5}
	q, other := &c.Quota.Connections, &c.Quota.Logins // one quota is varied fully, the other is only switched on or off
	if zz.Bool() {
		q, other = other, q
	}
	other.Enabled = zz.Bool()
	q.Enabled = zz.Bool()
	q.OPS = ops[zz.Choose(len(ops))]
	q.Burst = zz.Int()
	q.MaxEntries = zz.Int()
	modes := []ForwardingMode{"none", "legacy", "velocity", "bungeeguard", "", "Velocity", "modern", "bungee"}
	c.Forwarding.Mode = modes[zz.Choose(len(modes))]
	want := c.Compression.Level < -1 || c.Compression.Level > 9 || c.Compression.Threshold < -1
	for _, q := range []QuotaSettings{c.Quota.Connections, c.Quota.Logins} {
		if q.Enabled && (q.OPS <= 0 || q.Burst < 1 || q.MaxEntries < 1) {
			want = true
		}
	}
	switch c.Forwarding.Mode {
	case "none", "legacy", "velocity", "bungeeguard":
	default:
		want = true
	}
	got := zzRejected(&c)
	zz.Assert(got == want, "validation does not report an error exactly when compression level (-1..9), threshold (>= -1), enabled quota parameters or the forwarding mode break their documented constraint")
	if got {
		zz.Reach("rejected")
	} else {
		zz.Reach("accepted")
	}
}

func zzIsAlnum(b byte) bool {
	return b >= 'a' && b <= 'z' || b >= 'A' && b <= 'Z' || b >= '0' && b <= '9'
}

// zzValidName is the documented server-name rule: 1..63 characters, alphanumerics, '-', '_' or '.',
// starting and ending with an alphanumeric.
func zzValidName(s string) bool {
	if len(s) == 0 || len(s) > 63 {
		return false
	}
	for i := 0; i < len(s); i++ {
		b := s[i]
		if !zzIsAlnum(b) && b != '-' && b != '_' && b != '.' {
			return false
		}
	}
	return zzIsAlnum(s[0]) && zzIsAlnum(s[len(s)-1])
}

// Server names: every byte string of up to 3 bytes, and long ones around the 63 limit.
func VerifHarness_ServerNames() {
	zz.MaxLen(3)
	zzStubErrorf()
	c := zzBase()
	var name string
	switch zz.Choose(3) {
	case 0:
		name = zz.String(zz.Choose(4))
	case 1:
		name = "a23456789012345678901234567890123456789012345678901234567890123" // 63
	case 2:
		name = "a234567890123456789012345678901234567890123456789012345678901234" // 64
	}
	c.Servers = map[string]string{"lobby": "localhost:25566", name: "localhost:25567"}
	c.Try = []string{name}
	got := zzRejected(&c)
	zz.Assert(got == !zzValidName(name), "validation does not accept exactly the documented server names (1-63 characters, alphanumerics and - _ . with alphanumeric ends)")
	if got {
		zz.Reach("bad-name")
	} else {
		zz.Reach("good-name")
	}
}

// Server addresses and the references from the try list and forced hosts.
func VerifHarness_ServerAddressesAndReferences() {
	zzStubErrorf()
	c := zzBase()
	addrs := []string{"localhost:25565", "10.0.0.1:1", "[::1]:25565", "localhost", "", "a:b:c", "[::1]", ":25565"}
	addrOK := []bool{true, true, true, false, false, false, false, true}
	ai := zz.Choose(len(addrs))
	c.Servers = map[string]string{"lobby": "localhost:25566", "game": addrs[ai]}
	refs := []string{"lobby", "game", "Lobby", "nowhere", ""}
	ti, fi := zz.Choose(len(refs)), zz.Choose(len(refs))
	c.Try = []string{"lobby", refs[ti]}
	c.ForcedHosts = map[string][]string{"play.example.com": {"lobby", refs[fi]}}
	want := !addrOK[ai] || ti >= 2 || fi >= 2
	got := zzRejected(&c)
	zz.Assert(got == want, "validation does not report an error exactly when a server address is malformed or a try / forced-host entry names an unregistered server")
	if !got {
		zz.Reach("servers-accepted")
	}
}

// Bind address, trusted proxy list, Via settings.
func VerifHarness_BindAndTrustedProxies() {
	zzStubErrorf()
	c := zzBase()
	binds := []string{"0.0.0.0:25565", ":25565", "[::]:25565", "localhost:0", "", "   ", "0.0.0.0", "1.2.3.4:5:6", "[::1]"}
	bindOK := []bool{true, true, true, true, false, false, false, false, false}
	bi := zz.Choose(len(binds))
	c.Bind = binds[bi]
	nets := []string{"10.0.0.0/8", "192.168.1.1", " 127.0.0.1 ", "::1", "fd00::/8", "0.0.0.0/0", "300.1.1.1", "10.0.0.0/33", "example.com", "::ffff:10.0.0.1", ""}
	netOK := []bool{true, true, true, true, true, true, false, false, false, false, false}
	listOK := true
	c.ProxyProtocolTrustedProxies = nil
	if zz.Bool() { // a list of one arbitrary entry, optionally after a valid one
		if zz.Bool() {
			c.ProxyProtocolTrustedProxies = append(c.ProxyProtocolTrustedProxies, "172.16.0.0/12")
		}
		k := zz.Choose(len(nets))
		c.ProxyProtocolTrustedProxies = append(c.ProxyProtocolTrustedProxies, nets[k])
		listOK = netOK[k]
	}
	c.ProxyProtocol = zz.Bool()
	viaModes := []string{"", "embedded", "subprocess", "docker"}
	viaBinds := []string{"", "127.0.0.1:25570", "nope"}
	vm, vb := 0, 0
	c.Via.Enabled = zz.Bool()
	if zz.Bool() {
		vm = zz.Choose(len(viaModes))
		vb = zz.Choose(len(viaBinds))
	}
	c.Via.Mode = viaModes[vm]
	c.Via.Bind = viaBinds[vb]
	want := !bindOK[bi] || !listOK || (c.Via.Enabled && (vm == 3 || vb == 2))
	got := zzRejected(&c)
	zz.Assert(got == want, "validation does not report an error exactly when the bind address, the trusted proxy list or the Via settings break their documented constraint")
	if !got {
		zz.Reach("bind-accepted")
	}
}

// Lite mode: routes need hosts and backends, a known strategy (or none) and parsable backend addresses
// (addresses with $n parameters are checked after substitution, not here).
func VerifHarness_LiteRoutes() {
	zzStubErrorf()
	c := zzBase()
	c.Lite.Enabled = true
	nRoutes := zz.Choose(3)
	want := nRoutes == 0
	backends := []string{"a:25565", "a", "$1.x:25565", "[::1]:25565", "a:b", "a:99999999999999999999"}
	backendOK := []bool{true, true, true, true, false, false}
	strategies := []liteconfig.Strategy{"", "sequential", "random", "round-robin", "least-connections", "lowest-latency", "fastest", "Random"}
	c.Lite.Routes = nil
	for i := 0; i < nRoutes; i++ {
		var r liteconfig.Route
		if i == 1 { // the second route is one of three presets
			switch zz.Choose(3) {
			case 0:
				r = liteconfig.Route{Host: []string{"b.example.com"}, Backend: []string{"b:25565"}, Strategy: "random"}
			case 1:
				r = liteconfig.Route{Backend: []string{"b:25565"}}
				want = true
			case 2:
				r = liteconfig.Route{Host: []string{"b.example.com"}, Backend: []string{"b:c"}}
				want = true
			}
			c.Lite.Routes = append(c.Lite.Routes, r)
			continue
		}
		hasHost := zz.Bool()
		if hasHost {
			r.Host = []string{"*.example.com"}
		}
		nb := zz.Choose(3)
		for j := 0; j < nb; j++ {
			k := zz.Choose(len(backends))
			r.Backend = append(r.Backend, backends[k])
			if hasHost && !backendOK[k] {
				want = true
			}
		}
		si := zz.Choose(len(strategies))
		r.Strategy = strategies[si]
		if !hasHost || nb == 0 || si >= 6 {
			want = true
		}
		c.Lite.Routes = append(c.Lite.Routes, r)
	}
	got := zzRejected(&c)
	zz.Assert(got == want, "validation does not report an error exactly when a Lite route lacks hosts or backends, names an unknown strategy or has an unparsable backend address")
	if !got {
		zz.Reach("lite-accepted")
	}
}

func VerifMutant_Validate() {
	zzStubErrorf()
	c := zzBase()
	c.Compression.Level = 10
	zz.Assert(!zzRejected(&c), "control: compression level 10 is rejected")
}
