package proxy

import (
	"bytes"
	"net"

	"github.com/go-logr/logr"
	"go.minekube.com/gate/pkg/edition/java/config"
	"go.minekube.com/gate/pkg/edition/java/profile"
	"go.minekube.com/gate/pkg/edition/java/proto/packet/plugin"
	"go.minekube.com/gate/pkg/edition/java/proto/state"
	zz "go.minekube.com/gate/pkg/internal/zzverif"
	"go.minekube.com/gate/pkg/util/uuid"
)

func zzBungeeUTF(b *bytes.Buffer, s string) {
	b.WriteByte(byte(len(s) >> 8))
	b.WriteByte(byte(len(s)))
	b.WriteString(s)
}

func zzBungeeReq(sub string, args ...string) *plugin.Message {
	var b bytes.Buffer
	zzBungeeUTF(&b, sub)
	for _, a := range args {
		zzBungeeUTF(&b, a)
	}
	return &plugin.Message{Channel: "bungeecord:main", Data: b.Bytes()}
}

func zzPluginWrites(c *zzConn) [][]byte {
	var out [][]byte
	for _, o := range c.log {
		if pm, ok := o.packet.(*plugin.Message); ok {
			out = append(out, pm.Data)
		}
	}
	return out
}

// The real proxy-side adapter under a history of requests and server changes: the requesting player
// moves between backend connections (lobby over a first connection, game, lobby again over a new
// connection, a connection that is gone) between requests; every response goes to the connection the
// player has to its server at the time of the request, names that server, and player-targeted
// requests resolve the other player through the real registries.
func VerifHarness_AdapterFollowsCurrentConnection() {
	cfg := config.DefaultConfig
	px := zzProxy(&cfg, &zzEvents{})
	lobby := newRegisteredServer(NewServerInfo("lobby", &net.TCPAddr{IP: net.IPv4(10, 0, 0, 2), Port: 25566}))
	game := newRegisteredServer(NewServerInfo("game", &net.TCPAddr{IP: net.IPv4(10, 0, 0, 3), Port: 25567}))
	px.servers["lobby"], px.servers["game"] = lobby, game
	mk := func(name string, b byte) *connectedPlayer {
		p := &connectedPlayer{MinecraftConn: newZZConn(767, state.Play), log: logr.Discard(), profile: &profile.GameProfile{ID: uuid.UUID{0: b}, Name: name}}
		px.playerNames[name] = p
		px.playerIDs[p.profile.ID] = p
		return p
	}
	alice, bob := mk("alice", 1), mk("bob", 2)
	conns := []*zzConn{newZZConn(767, state.Play), newZZConn(767, state.Play), newZZConn(767, state.Play), nil}
	names := []string{"lobby", "game", "lobby", "lobby"}
	places := []*serverConnection{
		{server: lobby, player: alice, log: logr.Discard(), connection: conns[0]},
		{server: game, player: alice, log: logr.Discard(), connection: conns[1]},
		{server: lobby, player: alice, log: logr.Discard(), connection: conns[2]},
		{server: lobby, player: alice, log: logr.Discard()}, // the backend connection is gone
	}
	bobConn := newZZConn(340, state.Play)
	bob.connectedServer_ = &serverConnection{server: game, player: bob, log: logr.Discard(), connection: bobConn}
	r := newBungeeCordMessageResponder(true, alice, px)
	expected := make([]int, len(conns)) // responses each of alice's connections must have received so far
	bobExpected := 0
	for step := 0; step < 3; step++ {
		at := zz.Choose(len(places))
		alice.mu.Lock()
		alice.connectedServer_ = places[at]
		alice.mu.Unlock()
		switch zz.Choose(3) {
		case 0:
			zz.Assert(r.Process(zzBungeeReq("GetServer")), "not recognised")
			if conns[at] != nil {
				expected[at]++
				w := zzPluginWrites(conns[at])
				var want bytes.Buffer
				zzBungeeUTF(&want, "GetServer")
				zzBungeeUTF(&want, names[at])
				zz.Assert(len(w) == expected[at] && bytes.Equal(w[len(w)-1], want.Bytes()), "GetServer was not answered on the player's current server connection with that server's name")
			}
			zz.Reach("get-server")
		case 1:
			zz.Assert(r.Process(zzBungeeReq("GetPlayerServer", "bob")), "not recognised")
			if conns[at] != nil {
				expected[at]++
				w := zzPluginWrites(conns[at])
				var want bytes.Buffer
				zzBungeeUTF(&want, "GetPlayerServer")
				zzBungeeUTF(&want, "bob")
				zzBungeeUTF(&want, "game")
				zz.Assert(len(w) == expected[at] && bytes.Equal(w[len(w)-1], want.Bytes()), "GetPlayerServer did not report the named player's server on the requester's current connection")
			}
			zz.Reach("get-player-server")
		case 2:
			var b bytes.Buffer
			zzBungeeUTF(&b, "ForwardToPlayer")
			zzBungeeUTF(&b, "bob")
			zzBungeeUTF(&b, "ch")
			b.Write([]byte{0, 1, 0x55})
			zz.Assert(r.Process(&plugin.Message{Channel: "BungeeCord", Data: b.Bytes()}), "not recognised")
			bobExpected++
			w := zzPluginWrites(bobConn)
			zz.Assert(len(w) == bobExpected && bytes.Equal(w[len(w)-1], []byte{0, 2, 'c', 'h', 0, 1, 0x55}), "ForwardToPlayer did not deliver the payload to the named player's server connection")
			zz.Reach("forward-to-player")
		}
		for i, c := range conns {
			if c != nil {
				zz.Assert(len(zzPluginWrites(c)) == expected[i], "a response was written to a server connection the player is not on (a stale connection), or was lost")
			}
		}
		zz.Assert(len(zzPluginWrites(bobConn)) == bobExpected, "another player's server connection received a response that is not for it")
	}
	zz.Reach("history")
}
