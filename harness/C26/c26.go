package bungeecord

import (
	"bytes"
	"errors"
	"io"
	"net"

	"go.minekube.com/common/minecraft/component"
	"go.minekube.com/common/minecraft/component/codec"
	"go.minekube.com/gate/pkg/command"
	"go.minekube.com/gate/pkg/edition/java/proto/packet/plugin"
	"go.minekube.com/gate/pkg/edition/java/proxy/message"
	"go.minekube.com/gate/pkg/gate/proto"
	zz "go.minekube.com/gate/pkg/internal/zzverif"
	"go.minekube.com/gate/pkg/util/netutil"
	"go.minekube.com/gate/pkg/util/uuid"
)

// ---- a recording proxy state ----

type zzPlayer struct {
	name   string
	id     uuid.UUID
	addr   net.Addr
	proto  proto.Protocol
	server *zzServer // current server, may be nil
	conn   *zzConn   // connection to the current server
	kicked []component.Component
	msgs   []component.Component
}

func (p *zzPlayer) ID() uuid.UUID                    { return p.id }
func (p *zzPlayer) Username() string                 { return p.name }
func (p *zzPlayer) RemoteAddr() net.Addr             { return p.addr }
func (p *zzPlayer) Disconnect(r component.Component) { p.kicked = append(p.kicked, r) }
func (p *zzPlayer) Protocol() proto.Protocol         { return p.proto }
func (p *zzPlayer) SendMessage(c component.Component, _ ...command.MessageOption) error {
	p.msgs = append(p.msgs, c)
	return nil
}

type zzPM struct {
	channel string
	data    []byte
}

type zzServer struct {
	name      string
	addr      net.Addr
	players   []*zzPlayer
	forwarded []zzPM
	connects  []Player
	chat      []component.Component
}

func (s *zzServer) Name() string     { return s.name }
func (s *zzServer) PlayerCount() int { return len(s.players) }
func (s *zzServer) BroadcastPluginMessage(id message.ChannelIdentifier, b []byte) {
	s.forwarded = append(s.forwarded, zzPM{id.ID(), append([]byte(nil), b...)})
}
func (s *zzServer) Connect(p Player) { s.connects = append(s.connects, p) }
func (s *zzServer) Players() []Player {
	var out []Player
	for _, p := range s.players {
		out = append(out, p)
	}
	return out
}
func (s *zzServer) BroadcastMessage(c component.Component) { s.chat = append(s.chat, c) }
func (s *zzServer) Addr() net.Addr                         { return s.addr }

// zzConn is a player's connection to its current server.
type zzConn struct {
	name    string
	proto   proto.Protocol
	written []*plugin.Message
}

func (c *zzConn) Name() string             { return c.name }
func (c *zzConn) Protocol() proto.Protocol { return c.proto }
func (c *zzConn) WritePacket(p proto.Packet) error {
	m, ok := p.(*plugin.Message)
	zz.Assert(ok, "something other than a plugin message was written to the server connection")
	c.written = append(c.written, m)
	return nil
}
func (c *zzConn) WritePayload([]byte) error       { return errors.New("unexpected") }
func (c *zzConn) Write(b []byte) (int, error)     { return 0, errors.New("unexpected") }
func (c *zzConn) BufferPacket(proto.Packet) error { return errors.New("unexpected") }
func (c *zzConn) BufferPayload([]byte) error      { return errors.New("unexpected") }
func (c *zzConn) Flush() error                    { return nil }

type zzState struct {
	me        *zzPlayer
	players   []*zzPlayer
	servers   []*zzServer
	broadcast []component.Component
}

func (s *zzState) PlayerByName(n string) Player {
	for _, p := range s.players {
		if p.name == n {
			return p
		}
	}
	return nil
}
func (s *zzState) PlayerCount() int { return len(s.players) }
func (s *zzState) Players() []Player {
	var out []Player
	for _, p := range s.players {
		out = append(out, p)
	}
	return out
}
func (s *zzState) BroadcastMessage(c component.Component) { s.broadcast = append(s.broadcast, c) }
func (s *zzState) Server(n string) Server {
	for _, sv := range s.servers {
		if sv.name == n {
			return sv
		}
	}
	return nil
}
func (s *zzState) Servers() []Server {
	var out []Server
	for _, sv := range s.servers {
		out = append(out, sv)
	}
	return out
}
func (s *zzState) ConnectedServer() ServerConnection {
	if s.me.conn == nil {
		return nil
	}
	return s.me.conn
}

// ConnectedServerOf is the optional provider method giving any player's current server connection.
func (s *zzState) ConnectedServerOf(p Player) ServerConnection {
	zp, ok := p.(*zzPlayer)
	if !ok || zp.conn == nil {
		return nil
	}
	return zp.conn
}

// zzWorld builds a proxy with three players and three servers; who is where is symbolic: the
// requesting player "alice" and "bob" are each on lobby, on game, or (alice only) not connected;
// "carol" is on game; server "empty" has nobody.
func zzWorld() *zzState {
	lobby := &zzServer{name: "lobby", addr: netutil.NewAddr("10.0.0.1:25566", "tcp")}
	game := &zzServer{name: "game", addr: netutil.NewAddr("10.0.0.2:40000", "tcp")}
	empty := &zzServer{name: "empty", addr: netutil.NewAddr("10.0.0.3:25565", "tcp")}
	alice := &zzPlayer{name: "alice", addr: netutil.NewAddr("192.168.1.10:50123", "tcp"), proto: 767}
	bob := &zzPlayer{name: "bob", addr: netutil.NewAddr("192.168.1.11:1024", "tcp"), proto: 340}
	carol := &zzPlayer{name: "carol", addr: netutil.NewAddr("192.168.1.12:65535", "tcp"), proto: 47}
	alice.id[0], bob.id[0], carol.id[0] = 0xa1, 0xb0, 0xca
	alice.id[15], bob.id[15], carol.id[15] = 1, 2, 3
	place := func(p *zzPlayer, s *zzServer) {
		p.server = s
		p.conn = &zzConn{name: s.name, proto: p.proto}
		s.players = append(s.players, p)
	}
	switch zz.Choose(3) {
	case 0:
		place(alice, lobby)
	case 1:
		place(alice, game)
	}
	if zz.Bool() {
		place(bob, lobby)
	} else {
		place(bob, game)
	}
	place(carol, game)
	return &zzState{me: alice, players: []*zzPlayer{alice, bob, carol}, servers: []*zzServer{lobby, game, empty}}
}

// ---- reference writer/reader of the DataOutput layouts BungeeCord uses ----

func zzUTF(b *bytes.Buffer, s string) {
	b.WriteByte(byte(len(s) >> 8))
	b.WriteByte(byte(len(s)))
	b.WriteString(s)
}
func zzI32(b *bytes.Buffer, v int32) {
	b.Write([]byte{byte(v >> 24), byte(v >> 16), byte(v >> 8), byte(v)})
}
func zzI16(b *bytes.Buffer, v int16) { b.Write([]byte{byte(v >> 8), byte(v)}) }

func zzChannelFor(p proto.Protocol) string {
	if p >= 393 {
		return "bungeecord:main"
	}
	return "BungeeCord"
}

func zzRequest(sub string, args func(b *bytes.Buffer)) *plugin.Message {
	var b bytes.Buffer
	zzUTF(&b, sub)
	if args != nil {
		args(&b)
	}
	ch := "BungeeCord"
	if zz.Bool() {
		ch = "bungeecord:main"
	}
	return &plugin.Message{Channel: ch, Data: b.Bytes()}
}

// total writes to every server connection and every side effect, to assert "nothing else happened".
func (s *zzState) counts() (responses, forwards, connects, kicks, chats int) {
	for _, p := range s.players {
		if p.conn != nil {
			responses += len(p.conn.written)
		}
		kicks += len(p.kicked)
		chats += len(p.msgs)
	}
	for _, sv := range s.servers {
		forwards += len(sv.forwarded)
		connects += len(sv.connects)
		chats += len(sv.chat)
	}
	chats += len(s.broadcast)
	return
}

func (s *zzState) assertQuiet(what string) {
	r, f, c, k, ch := s.counts()
	zz.Assert(r == 0 && f == 0 && c == 0 && k == 0 && ch == 0, what)
}

// names a request may carry: the three players / servers, and one nobody knows
func zzPlayerName() string { return []string{"alice", "bob", "carol", "nobody"}[zz.Choose(4)] }
func zzServerName() string { return []string{"lobby", "game", "empty", "nowhere"}[zz.Choose(4)] }

func zzStubCodecs() {
	// parsing legacy and JSON chat text is not the subject: both decoders yield a text component
	// holding the raw input, or fail
	zz.Replace("(*go.minekube.com/common/minecraft/component/codec/legacy.Legacy).Unmarshal", func(l any, data []byte) (component.Component, error) {
		if len(data) > 0 && data[0] == '!' {
			return nil, errors.New("bad text")
		}
		return &component.Text{Content: string(data)}, nil
	})
	zz.Replace("go.minekube.com/gate/pkg/edition/java/proto/util.DefaultJsonCodec", func() codec.Codec { return zzJSON{} })
	zz.Replace("go.minekube.com/gate/pkg/edition/java/proto/util.JsonCodec", func(proto.Protocol) codec.Codec { return zzJSON{} })
}

type zzJSON struct{}

func (zzJSON) Marshal(io.Writer, component.Component) error { return nil }
func (zzJSON) Unmarshal(data []byte) (component.Component, error) {
	if len(data) > 0 && data[0] == '!' {
		return nil, errors.New("bad json")
	}
	return &component.Text{Content: string(data)}, nil
}

// ---- harnesses ----

// Query sub-channels: the response goes to the requesting player's server connection, on the
// channel name of that connection's protocol, in BungeeCord's layout; unknown players/servers and a
// requester without a server produce no response; nothing else happens.
func VerifHarness_Queries() {
	w := zzWorld()
	r := NewMessageResponder(w.me, w)
	var want bytes.Buffer
	expect := true
	var req *plugin.Message
	switch zz.Choose(10) {
	case 0:
		req = zzRequest("IP", nil)
		zzUTF(&want, "IP")
		zzUTF(&want, "192.168.1.10")
		zzI32(&want, 50123)
	case 1:
		n := zzPlayerName()
		req = zzRequest("IPOther", func(b *bytes.Buffer) { zzUTF(b, n) })
		if p, _ := w.PlayerByName(n).(*zzPlayer); p != nil {
			host, port := netutil.HostPort(p.addr)
			zzUTF(&want, "IPOther")
			zzUTF(&want, n)
			zzUTF(&want, host)
			zzI32(&want, int32(port))
		} else {
			expect = false
		}
	case 2:
		req = zzRequest("UUID", nil)
		zzUTF(&want, "UUID")
		zzUTF(&want, "a1000000000000000000000000000001")
	case 3:
		n := zzPlayerName()
		req = zzRequest("UUIDOther", func(b *bytes.Buffer) { zzUTF(b, n) })
		if p, _ := w.PlayerByName(n).(*zzPlayer); p != nil {
			zzUTF(&want, "UUIDOther")
			zzUTF(&want, n)
			zzUTF(&want, p.id.Undashed())
		} else {
			expect = false
		}
	case 4:
		n := zzServerName()
		if zz.Bool() {
			n = "ALL"
		}
		req = zzRequest("PlayerCount", func(b *bytes.Buffer) { zzUTF(b, n) })
		zzUTF(&want, "PlayerCount")
		zzUTF(&want, n)
		if n == "ALL" {
			zzI32(&want, 3)
		} else if s, _ := w.Server(n).(*zzServer); s != nil {
			zzI32(&want, int32(len(s.players)))
		} else {
			expect = false
		}
	case 5:
		n := zzServerName()
		if zz.Bool() {
			n = "ALL"
		}
		req = zzRequest("PlayerList", func(b *bytes.Buffer) { zzUTF(b, n) })
		zzUTF(&want, "PlayerList")
		zzUTF(&want, n)
		var ps []*zzPlayer
		if n == "ALL" {
			ps = w.players
		} else if s, _ := w.Server(n).(*zzServer); s != nil {
			ps = s.players
		} else {
			expect = false
		}
		list := ""
		for i, p := range ps {
			if i > 0 {
				list += ", "
			}
			list += p.name
		}
		zzUTF(&want, list)
	case 6:
		req = zzRequest("GetServers", nil)
		zzUTF(&want, "GetServers")
		zzUTF(&want, "lobby, game, empty")
	case 7:
		req = zzRequest("GetServer", nil)
		zzUTF(&want, "GetServer")
		if w.me.server != nil {
			zzUTF(&want, w.me.server.name)
		}
	case 8:
		n := zzServerName()
		req = zzRequest("ServerIP", func(b *bytes.Buffer) { zzUTF(b, n) })
		if s, _ := w.Server(n).(*zzServer); s != nil {
			host, port := netutil.HostPort(s.addr)
			zzUTF(&want, "ServerIP")
			zzUTF(&want, n)
			zzUTF(&want, host)
			zzI16(&want, int16(port)) // an unsigned short on the wire
		} else {
			expect = false
		}
	case 9:
		n := zzPlayerName()
		req = zzRequest("GetPlayerServer", func(b *bytes.Buffer) { zzUTF(b, n) })
		if p, _ := w.PlayerByName(n).(*zzPlayer); p != nil && p.server != nil {
			zzUTF(&want, "GetPlayerServer")
			zzUTF(&want, n)
			zzUTF(&want, p.server.name) // the server of the player asked about
		} else {
			expect = false
		}
	}
	zz.Assert(r.Process(req), "a BungeeCord channel message was not recognised")
	if !expect || w.me.conn == nil {
		w.assertQuiet("a request about an unknown player/server, or from a player without a server, produced a response or a side effect")
		zz.Reach("no-response")
		return
	}
	resp, fwd, con, kick, chat := w.counts()
	zz.Assert(resp == 1 && len(w.me.conn.written) == 1, "the response did not go (exactly once) to the requesting player's server connection")
	zz.Assert(fwd == 0 && con == 0 && kick == 0 && chat == 0, "a query had a side effect")
	got := w.me.conn.written[0]
	zz.Assert(got.Channel == zzChannelFor(w.me.conn.proto), "the response is not on the BungeeCord channel name of the server connection's protocol")
	zz.Assert(bytes.Equal(got.Data, want.Bytes()), "the response does not have BungeeCord's binary layout for this sub-channel")
	zz.Reach("response")
}

// zzForwardArgs writes channel, declared length and body; the declared length is symbolic (also
// negative or different from the body length) unless wellFormed.
func zzForwardArgs(b *bytes.Buffer) (payload []byte, wellFormed bool) {
	ch := "c" + zz.String(zz.Choose(3))
	body := zz.Bytes(zz.Choose(4))
	declared := int16(len(body))
	wellFormed = true
	if zz.Bool() {
		declared = zz.Int16()
		wellFormed = int(declared) == len(body)
	}
	var p bytes.Buffer
	zzUTF(&p, ch)
	zzI16(&p, declared)
	p.Write(body)
	b.Write(p.Bytes())
	return p.Bytes(), wellFormed
}

// Forward: every target server (all but the requester's current one for ALL/ONLINE, the named one
// otherwise) receives, exactly once and on the legacy BungeeCord channel, the payload unchanged:
// UTF channel name (length-prefixed), short length, body. Ill-formed requests never crash.
func VerifHarness_Forward() {
	zz.MaxLen(3)
	w := zzWorld()
	r := NewMessageResponder(w.me, w)
	target := []string{"ALL", "ONLINE", "lobby", "game", "empty", "nowhere"}[zz.Choose(6)]
	var payload []byte
	var ok bool
	req := zzRequest("Forward", func(b *bytes.Buffer) {
		zzUTF(b, target)
		payload, ok = zzForwardArgs(b)
	})
	zz.Assert(r.Process(req), "a BungeeCord channel message was not recognised")
	resp, _, con, kick, chat := w.counts()
	zz.Assert(resp == 0 && con == 0 && kick == 0 && chat == 0, "Forward had a side effect other than forwarding")
	if !ok {
		zz.Reach("forward-ill-formed")
		return
	}
	for _, s := range w.servers {
		wanted := s.name == target
		if target == "ALL" || target == "ONLINE" {
			wanted = s != w.me.server
		}
		if !wanted {
			zz.Assert(len(s.forwarded) == 0, "a server that is not a target of the Forward request received the payload")
			continue
		}
		zz.Assert(len(s.forwarded) == 1, "a target server did not receive the forwarded payload exactly once")
		zz.Assert(s.forwarded[0].channel == "BungeeCord", "the payload was not forwarded on the BungeeCord channel")
		zz.Assert(bytes.Equal(s.forwarded[0].data, payload), "the forwarded payload is not the request's payload unchanged (UTF channel name, short length, body)")
	}
	zz.Reach("forward")
}

// ForwardToPlayer: the payload goes, unchanged, to the named player's server connection.
func VerifHarness_ForwardToPlayer() {
	zz.MaxLen(3)
	w := zzWorld()
	r := NewMessageResponder(w.me, w)
	n := zzPlayerName()
	var payload []byte
	var ok bool
	req := zzRequest("ForwardToPlayer", func(b *bytes.Buffer) {
		zzUTF(b, n)
		payload, ok = zzForwardArgs(b)
	})
	zz.Assert(r.Process(req), "a BungeeCord channel message was not recognised")
	resp, fwd, con, kick, chat := w.counts()
	zz.Assert(fwd == 0 && con == 0 && kick == 0 && chat == 0, "ForwardToPlayer had a side effect other than forwarding")
	target, _ := w.PlayerByName(n).(*zzPlayer)
	if target == nil || target.conn == nil {
		zz.Assert(resp == 0, "a payload for an unknown player (or one without a server) was delivered somewhere")
		zz.Reach("forward-to-nobody")
		return
	}
	if !ok {
		zz.Reach("forward-to-player-ill-formed")
		return
	}
	zz.Assert(resp == 1 && len(target.conn.written) == 1, "the payload did not go (exactly once) to the named player's server connection")
	got := target.conn.written[0]
	zz.Assert(got.Channel == zzChannelFor(target.conn.proto), "the payload is not on the BungeeCord channel name of that connection's protocol")
	zz.Assert(bytes.Equal(got.Data, payload), "the forwarded payload is not the request's payload unchanged (UTF channel name, short length, body)")
	zz.Reach("forward-to-player")
}

// Connect, ConnectOther, KickPlayer(Raw), Message(Raw): act on the named player / server and on
// nothing else; unknown names do nothing.
func VerifHarness_Actions() {
	zz.MaxLen(3)
	zzStubCodecs()
	w := zzWorld()
	r := NewMessageResponder(w.me, w)
	text := zz.String(zz.Choose(3))
	switch zz.Choose(6) {
	case 0:
		sn := zzServerName()
		zz.Assert(r.Process(zzRequest("Connect", func(b *bytes.Buffer) { zzUTF(b, sn) })), "not recognised")
		resp, fwd, con, kick, chat := w.counts()
		zz.Assert(resp == 0 && fwd == 0 && kick == 0 && chat == 0, "Connect had another side effect")
		if s, _ := w.Server(sn).(*zzServer); s != nil {
			zz.Assert(con == 1 && len(s.connects) == 1 && s.connects[0] == Player(w.me), "Connect did not send the requesting player to the named server")
			zz.Reach("connect")
		} else {
			zz.Assert(con == 0, "Connect to an unknown server connected someone")
		}
	case 1:
		pn, sn := zzPlayerName(), zzServerName()
		zz.Assert(r.Process(zzRequest("ConnectOther", func(b *bytes.Buffer) { zzUTF(b, pn); zzUTF(b, sn) })), "not recognised")
		resp, fwd, con, kick, chat := w.counts()
		zz.Assert(resp == 0 && fwd == 0 && kick == 0 && chat == 0, "ConnectOther had another side effect")
		p, _ := w.PlayerByName(pn).(*zzPlayer)
		s, _ := w.Server(sn).(*zzServer)
		if p != nil && s != nil {
			zz.Assert(con == 1 && len(s.connects) == 1 && s.connects[0] == Player(p), "ConnectOther did not send the named player to the named server")
			zz.Reach("connect-other")
		} else {
			zz.Assert(con == 0, "ConnectOther with an unknown player or server connected someone")
		}
	case 2, 3:
		sub := "KickPlayer"
		if zz.Bool() {
			sub = "KickPlayerRaw"
		}
		pn := zzPlayerName()
		zz.Assert(r.Process(zzRequest(sub, func(b *bytes.Buffer) { zzUTF(b, pn); zzUTF(b, text) })), "not recognised")
		resp, fwd, con, kick, chat := w.counts()
		zz.Assert(resp == 0 && fwd == 0 && con == 0 && chat == 0, "KickPlayer had another side effect")
		if p, _ := w.PlayerByName(pn).(*zzPlayer); p != nil {
			zz.Assert(kick == 1 && len(p.kicked) == 1, "KickPlayer did not disconnect exactly the named player")
			if t, _ := p.kicked[0].(*component.Text); t != nil && t.Content != "" {
				zz.Assert(t.Content == text, "the kick reason is not the request's text")
			}
			zz.Reach("kick")
		} else {
			zz.Assert(kick == 0, "KickPlayer for an unknown player disconnected someone")
		}
	case 4, 5:
		sub := "Message"
		if zz.Bool() {
			sub = "MessageRaw"
		}
		pn := zzPlayerName()
		if zz.Bool() {
			pn = "ALL"
		}
		zz.Assert(r.Process(zzRequest(sub, func(b *bytes.Buffer) { zzUTF(b, pn); zzUTF(b, text) })), "not recognised")
		resp, fwd, con, kick, chat := w.counts()
		zz.Assert(resp == 0 && fwd == 0 && con == 0 && kick == 0, "Message had another side effect")
		bad := len(text) > 0 && text[0] == '!'
		if bad {
			zz.Assert(chat == 0, "an undecodable message was delivered")
		} else if pn == "ALL" {
			zz.Assert(chat == 1 && len(w.broadcast) == 1, "Message ALL was not broadcast once to everybody")
			zz.Reach("message-all")
		} else if p, _ := w.PlayerByName(pn).(*zzPlayer); p != nil {
			zz.Assert(chat == 1 && len(p.msgs) == 1, "Message did not reach exactly the named player")
			zz.Reach("message-player")
		} else {
			zz.Assert(chat == 0, "Message for an unknown player was delivered to someone")
			zz.Reach("message-nobody")
		}
	}
}

// Any bytes after any sub-channel name (and any first string at all): Process returns, no panic, and a
// request that is cut short has no effect.
func VerifHarness_ArbitraryArguments() {
	zz.MaxLen(6)
	zzStubCodecs()
	w := zzWorld()
	r := NewMessageResponder(w.me, w)
	subs := []string{"ForwardToPlayer", "Forward", "Connect", "ConnectOther", "IP", "IPOther", "UUID", "UUIDOther", "PlayerCount", "PlayerList",
		"GetServers", "GetServer", "Message", "MessageRaw", "ServerIP", "KickPlayer", "KickPlayerRaw", "GetPlayerServer", "Nonsense"}
	var b bytes.Buffer
	zzUTF(&b, subs[zz.Choose(len(subs))])
	b.Write(zz.Bytes(zz.Choose(7)))
	zz.Assert(r.Process(&plugin.Message{Channel: "BungeeCord", Data: b.Bytes()}), "a BungeeCord channel message was not recognised")
	zz.Reach("arbitrary")
	// messages on other channels are not consumed
	zz.Assert(!r.Process(&plugin.Message{Channel: "minecraft:brand", Data: b.Bytes()}), "a message on another channel was consumed as a BungeeCord request")
}

func VerifMutant_Bungee() {
	w := zzWorld()
	r := NewMessageResponder(w.me, w)
	r.Process(zzRequest("GetServers", nil))
	resp, _, _, _, _ := w.counts()
	zz.Assert(resp == 0 || w.me.conn == nil, "control: GetServers is answered")
}
