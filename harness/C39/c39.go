package floodgate

import (
	"bytes"
	"crypto/cipher"
	"errors"

	zz "go.minekube.com/gate/pkg/internal/zzverif"
)

// ---- ideal AEAD: Open succeeds exactly on what Seal produced under the same key and nonce ----
// (authenticity and correctness of AES-GCM as an axiom; real AES-GCM is outside the claim)

type zzSealed struct{ key, nonce, pt, ct []byte }

var zzSealLog []zzSealed
var zzCtCounter byte

type zzKeyBlock struct{ key []byte }

func (b *zzKeyBlock) BlockSize() int          { return 16 }
func (b *zzKeyBlock) Encrypt(dst, src []byte) { panic("the AES block function is not used directly") }
func (b *zzKeyBlock) Decrypt(dst, src []byte) { panic("the AES block function is not used directly") }

type zzAEAD struct{ key []byte }

func (a *zzAEAD) NonceSize() int { return 12 }
func (a *zzAEAD) Overhead() int  { return 16 }
func (a *zzAEAD) Seal(dst, nonce, plaintext, ad []byte) []byte {
	if len(nonce) != 12 {
		panic("crypto/cipher: incorrect nonce length given to GCM")
	}
	// an arbitrary ciphertext
	ct := make([]byte, len(plaintext)+16)
	for i := range ct {
		zzCtCounter++
		ct[i] = zzCtCounter
	}
	ct[0] = zz.Byte() // one arbitrary byte, the rest distinct concrete filler
	zzSealLog = append(zzSealLog, zzSealed{key: append([]byte{}, a.key...), nonce: append([]byte{}, nonce...), pt: append([]byte{}, plaintext...), ct: append([]byte{}, ct...)})
	return append(dst, ct...)
}
func (a *zzAEAD) Open(dst, nonce, ciphertext, ad []byte) ([]byte, error) {
	if len(nonce) != 12 {
		panic("crypto/cipher: incorrect nonce length given to GCM")
	}
	if len(ciphertext) < 16 {
		return nil, errors.New("cipher: message authentication failed")
	}
	for _, s := range zzSealLog {
		if bytes.Equal(s.key, a.key) && bytes.Equal(s.nonce, nonce) && bytes.Equal(s.ct, ciphertext) {
			return append(dst, s.pt...), nil
		}
	}
	return nil, errors.New("cipher: message authentication failed")
}

func zzInstallAEAD() {
	zzSealLog = nil
	zzCtCounter = 0x40
	zz.Replace("crypto/aes.NewCipher", func(key []byte) (cipher.Block, error) {
		if len(key) != 16 && len(key) != 24 && len(key) != 32 {
			return nil, errors.New("crypto/aes: invalid key size")
		}
		return &zzKeyBlock{key: append([]byte{}, key...)}, nil
	})
	zz.Replace("crypto/cipher.NewGCM", func(b cipher.Block) (cipher.AEAD, error) {
		return &zzAEAD{key: b.(*zzKeyBlock).key}, nil
	})
	// the proxy's random IV: one arbitrary byte, the rest fixed (keeps the Base64 terms small)
	zz.Replace("crypto/rand.Read", func(b []byte) (int, error) {
		for i := range b {
			b[i] = byte(0x11 * (i + 1))
		}
		if len(b) > 0 {
			b[0] = zz.Byte()
		}
		return len(b), nil
	})
}

// ---- reference Base64 (RFC 4648, standard alphabet, padding), independent of encoding/base64 ----

const zzB64 = "ABCDEFGHIJKLMNOPQRSTUVWXYZabcdefghijklmnopqrstuvwxyz0123456789+/"

func zzB64Encode(in []byte) string {
	var out []byte
	for i := 0; i < len(in); i += 3 {
		var b [3]byte
		n := copy(b[:], in[i:])
		v := uint32(b[0])<<16 | uint32(b[1])<<8 | uint32(b[2])
		out = append(out, zzB64[v>>18&63], zzB64[v>>12&63])
		if n > 1 {
			out = append(out, zzB64[v>>6&63])
		} else {
			out = append(out, '=')
		}
		if n > 2 {
			out = append(out, zzB64[v&63])
		} else {
			out = append(out, '=')
		}
	}
	return string(out)
}

func zzB64Val(c byte) (byte, bool) {
	switch {
	case c >= 'A' && c <= 'Z':
		return c - 'A', true
	case c >= 'a' && c <= 'z':
		return c - 'a' + 26, true
	case c >= '0' && c <= '9':
		return c - '0' + 52, true
	case c == '+':
		return 62, true
	case c == '/':
		return 63, true
	}
	return 0, false
}

func zzB64Decode(s string) ([]byte, bool) {
	if len(s)%4 != 0 {
		return nil, false
	}
	var out []byte
	for i := 0; i < len(s); i += 4 {
		pad := 0
		var v uint32
		for k := 0; k < 4; k++ {
			c := s[i+k]
			if c == '=' && i+4 == len(s) && k >= 2 {
				pad++
				v <<= 6
				continue
			}
			if pad > 0 {
				return nil, false
			}
			x, ok := zzB64Val(c)
			if !ok {
				return nil, false
			}
			v = v<<6 | uint32(x)
		}
		out = append(out, byte(v>>16))
		if pad < 2 {
			out = append(out, byte(v>>8))
		}
		if pad < 1 {
			out = append(out, byte(v))
		}
	}
	return out, true
}

// ---- symbolic identity record ----

func zzField(max int) string {
	s := zz.String(zz.Choose(max + 1))
	for i := 0; i < len(s); i++ {
		zz.Assume(s[i] != 0) // fields are NUL-separated
	}
	return s
}

func zzRecord() *BedrockData {
	d := &BedrockData{
		Version:      "1",
		Username:     "S" + zzField(1),
		Xuid:         2535400000000012,
		DeviceOS:     DeviceOSFromID(7),
		Language:     "en",
		UIProfile:    1,
		InputMode:    2,
		IP:           "1.2.3.4",
		LinkedPlayer: "",
		Proxy:        zz.Bool(),
		SubscribeID:  "",
		VerifyCode:   zzField(1),
	}
	return d
}

func zzJoin(d *BedrockData) string {
	proxy := "0"
	if d.Proxy {
		proxy = "1"
	}
	return d.Version + "\x00" + d.Username + "\x00" + "2535400000000012" + "\x00" + "7" + "\x00" + d.Language + "\x00" + "1" + "\x00" + "2" + "\x00" + d.IP + "\x00" + d.LinkedPlayer + "\x00" + proxy + "\x00" + d.SubscribeID + "\x00" + d.VerifyCode
}

func zzSameRecord(a, b *BedrockData) bool {
	return a.Version == b.Version && a.Username == b.Username && a.Xuid == b.Xuid && a.DeviceOS.ID == b.DeviceOS.ID &&
		a.Language == b.Language && a.UIProfile == b.UIProfile && a.InputMode == b.InputMode && a.IP == b.IP &&
		a.LinkedPlayer == b.LinkedPlayer && a.Proxy == b.Proxy && a.SubscribeID == b.SubscribeID && a.VerifyCode == b.VerifyCode
}

func zzKey() []byte {
	n := 16
	switch zz.Choose(5) {
	case 1:
		n = 24
	case 2:
		n = 32
	case 3:
		// key material that happens to be text (e.g. a key file written as hex or a passphrase): Floodgate
		// uses the raw bytes whatever they look like
		return []byte("0123456789abcdef0123456789abcdef")
	case 4:
		return []byte("QUJDREVGR0hJSktMTU5PUA==") // 24 raw bytes that are also valid Base64 of 16 bytes
	}
	k := make([]byte, n)
	k[0] = zz.Byte()
	return k
}

// zzFloodgateEncode is Floodgate's own encoder (format documented in cipher.go): header, Base64 IV,
// '!', Base64 ciphertext, appended to the original host name after a NUL.
func zzFloodgateEncode(key []byte, host string, d *BedrockData, iv []byte) string {
	a := &zzAEAD{key: key}
	ct := a.Seal(nil, iv, []byte(zzJoin(d)), nil)
	return host + "\x00" + "^Floodgate^" + string([]byte{0x3e}) + zzB64Encode(iv) + "!" + zzB64Encode(ct)
}

func zzIV() []byte {
	iv := []byte{1, 2, 3, 4, 5, 6, 7, 8, 9, 10, 11, 12}
	iv[0] = zz.Byte()
	return iv
}

// (a) Data produced by Floodgate's encoder under the shared key decodes to the same fields and host.
func VerifHarness_DecodeFloodgate() {
	zz.MaxLen(128)
	zz.Unwind(400)
	zzInstallAEAD()
	key := zzKey()
	fg, err := NewFloodgate(key)
	zz.Assert(err == nil, "a 16/24/32-byte key was rejected")
	d := zzRecord()
	host := zzFloodgateEncode(key, "play.example", d, zzIV())
	if zz.Bool() {
		host += ":19132"
	}
	orig, got, err := fg.ReadHostname(host)
	zz.Assert(err == nil && got != nil, "identity data produced by Floodgate's encoder under the shared key was rejected")
	zz.Assert(orig == "play.example", "the original host name was not recovered")
	zz.Assert(zzSameRecord(got, d), "the decoded identity fields differ from what Floodgate encoded")
	zz.Reach("decoded")
}

// (b) Data the proxy encodes is decoded by Floodgate's decoder (reference: header check, Base64,
// AEAD open, 12 NUL-separated fields) to the same fields.
func VerifHarness_EncodeForFloodgate() {
	zz.MaxLen(128)
	zz.Unwind(400)
	zzInstallAEAD()
	key := zzKey()
	fg, _ := NewFloodgate(key)
	d := zzRecord()
	host, err := fg.WriteHostname("play.example", d)
	zz.Assert(err == nil, "encoding a valid identity record failed")
	// Floodgate's decoder
	const prefix = "play.example\x00^Floodgate^\x3e"
	zz.Assert(len(host) > len(prefix) && host[:len(prefix)] == prefix, "the encoded host name does not start with the original host, a NUL and the Floodgate header")
	rest := host[len(prefix):]
	bang := -1
	for i := 0; i < len(rest); i++ {
		if rest[i] == '!' && bang < 0 {
			bang = i
		}
	}
	zz.Assert(bang > 0, "the encoded data has no IV/ciphertext splitter")
	iv, ok1 := zzB64Decode(rest[:bang])
	ct, ok2 := zzB64Decode(rest[bang+1:])
	zz.Assert(ok1 && ok2 && len(iv) == 12, "the IV or ciphertext is not valid Base64 / the IV is not 12 bytes")
	pt, err := (&zzAEAD{key: key}).Open(nil, iv, ct, nil)
	zz.Assert(err == nil, "Floodgate could not authenticate data the proxy encoded")
	zz.Assert(string(pt) == zzJoin(d), "the 12-field record the proxy encoded differs from the identity data")
	zz.Reach("encoded")
}

// (c) Any single-byte alteration of the encoded data, or another key, is rejected (or decodes to
// exactly the same fields when the altered text is another spelling of the same bytes) - never a crash.
func VerifHarness_TamperedRejected() {
	zz.MaxLen(128)
	zz.Unwind(400)
	zzInstallAEAD()
	key := zzKey()
	fg, _ := NewFloodgate(key)
	d := zzRecord()
	host := zzFloodgateEncode(key, "h", d, zzIV())
	data := []byte(host)
	if zz.Bool() {
		// another key
		other := append([]byte{}, key...)
		other[0] ^= 1 + zz.Byte()&0x7e
		fg2, _ := NewFloodgate(other)
		_, got, err := fg2.ReadHostname(host)
		zz.Assert(err != nil && got == nil, "identity data sealed under another key was accepted")
		zz.Reach("other-key")
		return
	}
	// anywhere after "h\x00": every position (thorough) / every 7th position plus the structural ones (quick)
	pos := 2 + zz.Choose(len(data)-2)
	if !zz.Thorough() {
		structural := pos == 2 || pos == 12 || pos == 13 || pos == 14 || pos == 29 || pos == 30 || pos == 31 || pos == len(data)-1 || pos == len(data)-2
		zz.Assume(structural || pos%7 == 0)
	}
	nb := zz.Byte()
	zz.Assume(nb != data[pos])
	data[pos] = nb
	_, got, err := fg.ReadHostname(string(data))
	if err == nil {
		zz.Assert(got != nil && zzSameRecord(got, d), "altered identity data was accepted with different fields")
		zz.Reach("alias-accepted")
	} else {
		zz.Reach("tamper-rejected")
	}
}

// (d) Structurally damaged data: truncated at any point, or with an IV that is not 12 bytes.
func VerifHarness_MalformedRejected() {
	zz.MaxLen(128)
	zz.Unwind(400)
	zzInstallAEAD()
	key := zzKey()
	fg, _ := NewFloodgate(key)
	d := zzRecord()
	iv := zzIV()
	if zz.Bool() {
		host := zzFloodgateEncode(key, "h", d, iv)
		cut := 2 + zz.Choose(len(host)-2)
		if !zz.Thorough() {
			zz.Assume(cut%5 == 0 || cut < 16 || cut > len(host)-3)
		}
		_, got, err := fg.ReadHostname(host[:cut])
		zz.Assert(err != nil && got == nil, "truncated identity data was accepted")
		zz.Reach("truncated")
		return
	}
	// a well-formed header and Base64 text whose IV has the wrong length
	n := 9 + 3*zz.Choose(3) // 9, 12 or 15 bytes
	short := make([]byte, n)
	short[0] = zz.Byte()
	host := "h\x00^Floodgate^\x3e" + zzB64Encode(short) + "!" + zzB64Encode(make([]byte, 32))
	_, got, err := fg.ReadHostname(host)
	zz.Assert(err != nil && got == nil, "identity data that was never sealed was accepted")
	zz.Reach("bad-iv")
}

func VerifMutant_Floodgate() {
	zz.MaxLen(1)
	zzInstallAEAD()
	key := make([]byte, 16)
	fg, _ := NewFloodgate(key)
	d := zzRecord()
	host := zzFloodgateEncode(key, "h", d, zzIV())
	_, got, _ := fg.ReadHostname(host)
	zz.Assert(got == nil, "control: valid data must decode")
}
