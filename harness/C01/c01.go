package codec

import (
	"bytes"
	"compress/zlib"
	"crypto/cipher"
	"errors"
	"io"

	"github.com/go-logr/logr"
	"go.minekube.com/gate/pkg/gate/proto"
	zz "go.minekube.com/gate/pkg/internal/zzverif"
)

// zzChunkReader serves a byte stream in reads of arbitrary size: every Read returns a symbolic
// count between 1 and min(len(p), remaining). This drives the real fullReader / io.ReadFull loops.
type zzChunkReader struct {
	data  []byte
	pos   int
	reads int
}

func (c *zzChunkReader) Read(p []byte) (int, error) {
	if len(p) == 0 {
		return 0, nil
	}
	rem := len(c.data) - c.pos
	if rem == 0 {
		return 0, io.EOF
	}
	max := len(p)
	if rem < max {
		max = rem
	}
	n := 1 + zz.Choose(max)
	copy(p, c.data[c.pos:c.pos+n])
	c.pos += n
	c.reads++
	return n, nil
}

// ---- reversible model of zlib: Z(x) = 0x78 || x || xorsum(x) ----
// The framing code only needs compress/decompress to be inverse and to detect a damaged trailer; real
// DEFLATE is outside the claim.

type zzZState struct {
	w   io.Writer
	sum byte
}

var zzZ = map[*zlib.Writer]*zzZState{}

func zzInstallZlibModel() {
	zz.ReplaceSym("compress/zlib.NewWriterLevel", func(w io.Writer, level int) (*zlib.Writer, error) {
		if level < -2 || level > 9 {
			return nil, errors.New("zlib: invalid compression level")
		}
		z := &zlib.Writer{}
		zzZ[z] = &zzZState{w: w}
		return z, nil
	})
	zz.ReplaceSym("(*compress/zlib.Writer).Reset", func(z *zlib.Writer, w io.Writer) {
		zzZ[z] = &zzZState{w: w}
		_, _ = w.Write([]byte{0x78})
	})
	zz.ReplaceSym("(*compress/zlib.Writer).Write", func(z *zlib.Writer, p []byte) (int, error) {
		st := zzZ[z]
		for _, b := range p {
			st.sum ^= b
		}
		return st.w.Write(p)
	})
	zz.ReplaceSym("(*compress/zlib.Writer).Close", func(z *zlib.Writer) error {
		st := zzZ[z]
		_, err := st.w.Write([]byte{st.sum})
		return err
	})
	zz.ReplaceSym("compress/zlib.NewReader", func(r io.Reader) (io.ReadCloser, error) {
		zr := &zzZReader{}
		return zr, zr.Reset(r, nil)
	})
}

type zzZReader struct {
	body []byte
	pos  int
	bad  bool
}

func (z *zzZReader) Reset(r io.Reader, dict []byte) error {
	all, _ := io.ReadAll(r)
	z.pos, z.bad = 0, false
	if len(all) < 2 || all[0] != 0x78 {
		z.bad = true
		z.body = nil
		return nil
	}
	z.body = all[1 : len(all)-1]
	var sum byte
	for _, b := range z.body {
		sum ^= b
	}
	if sum != all[len(all)-1] {
		z.bad = true
	}
	return nil
}
func (z *zzZReader) Read(p []byte) (int, error) {
	if z.bad {
		return 0, errors.New("zlib: invalid checksum")
	}
	if z.pos >= len(z.body) {
		return 0, io.EOF
	}
	n := copy(p, z.body[z.pos:])
	z.pos += n
	return n, nil
}
func (z *zzZReader) Close() error { return nil }

// ---- AES as an uninterpreted block function: CFB8 and the stream wrappers run for real ----

type zzBlock struct{ key []byte }

func (b *zzBlock) BlockSize() int { return 16 }
func (b *zzBlock) Encrypt(dst, src []byte) {
	in := append(append([]byte{}, b.key...), src[:16]...)
	copy(dst, zz.UFBytes("aes", in, 16))
}
func (b *zzBlock) Decrypt(dst, src []byte) { panic("CFB8 never uses the block decryption") }

func zzInstallAESModel() {
	zz.Replace("crypto/aes.NewCipher", func(key []byte) (cipher.Block, error) {
		if len(key) != 16 && len(key) != 24 && len(key) != 32 {
			return nil, errors.New("crypto/aes: invalid key size")
		}
		return &zzBlock{key: append([]byte{}, key...)}, nil
	})
}

func zzPayload(max int) []byte {
	p := zz.Bytes(1 + zz.Choose(max))
	return p
}

// zzRoundTrip writes the payloads with a real Encoder and reads them back with a real Decoder through
// the chunking reader; threshold < 0 disables compression; secret nil disables encryption.
func zzRoundTrip(payloads [][]byte, threshold, level int, secret []byte) {
	var wire bytes.Buffer
	var w io.Writer = &wire
	enc := NewEncoder(w, proto.ClientBound, logr.Discard())
	if secret != nil {
		ew, err := NewEncryptWriter(&wire, secret)
		zz.Assert(err == nil, "encryption could not be enabled with a 16-byte secret")
		enc.SetWriter(ew)
	}
	if threshold >= 0 {
		zz.Assert(enc.SetCompression(threshold, level) == nil, "compression could not be enabled")
	}
	total := 0
	for _, p := range payloads {
		n, err := enc.Write(p)
		zz.Assert(err == nil, "writing a payload failed")
		total += n
	}
	zz.Assert(total == wire.Len(), "the writer reports a byte count different from what it wrote")
	cr := &zzChunkReader{data: wire.Bytes()}
	dec := NewDecoder(cr, proto.ClientBound, logr.Discard())
	if secret != nil {
		dr, err := NewDecryptReader(cr, secret)
		zz.Assert(err == nil, "decryption could not be enabled with a 16-byte secret")
		dec.SetReader(dr)
	}
	if threshold >= 0 {
		dec.SetCompressionThreshold(threshold)
	}
	read := 0
	for _, p := range payloads {
		got, n, err := dec.readPayload()
		zz.Assert(err == nil, "a frame written by the proxy's own writer was rejected by its reader")
		zz.Assert(bytes.Equal(got, p), "a payload read back differs from the payload written")
		_ = n
		read++
	}
	zz.Assert(cr.pos == len(cr.data), "the reader did not consume exactly the bytes the writer produced")
	_, _, err := dec.readPayload()
	zz.Assert(err != nil, "the reader produced a payload that was never written")
}

// Plain framing, arbitrary chunking: 1..2 payloads of 1..4 (quick) / 1..6 (thorough) bytes.
func VerifHarness_FramingChunked() {
	max := 4
	if zz.Thorough() {
		max = 6
	}
	zz.MaxLen(max)
	n := 1 + zz.Choose(2)
	var ps [][]byte
	for i := 0; i < n; i++ {
		ps = append(ps, zzPayload(max))
	}
	zzRoundTrip(ps, -1, 0, nil)
	zz.Reach("plain")
}

// Compression envelope for every threshold relative to the payload size and every level.
func VerifHarness_CompressionThreshold() {
	max := 3
	if zz.Thorough() {
		max = 5
	}
	zz.MaxLen(max + 8)
	zzInstallZlibModel()
	threshold := zz.Int()
	zz.Assume(threshold >= 0 && threshold <= 1<<20)
	level := zz.Int()
	zz.Assume(level >= -1 && level <= 9)
	n := 1 + zz.Choose(2)
	var ps [][]byte
	for i := 0; i < n; i++ {
		ps = append(ps, zzPayload(max))
	}
	zzRoundTrip(ps, threshold, level, nil)
	zz.Reach("compressed")
}

// AES/CFB8 under an arbitrary 16-byte secret (AES itself = uninterpreted block function).
func VerifHarness_Encrypted() {
	max := 3
	if zz.Thorough() {
		max = 5
	}
	zz.MaxLen(16)
	zzInstallAESModel()
	secret := zz.Bytes(16)
	n := 1 + zz.Choose(2)
	var ps [][]byte
	for i := 0; i < n; i++ {
		ps = append(ps, zzPayload(max))
	}
	zzRoundTrip(ps, -1, 0, secret)
	zz.Reach("encrypted")
}

// Compression and encryption together, one payload.
func VerifHarness_CompressedEncrypted() {
	zz.MaxLen(16)
	zzInstallZlibModel()
	zzInstallAESModel()
	threshold := zz.Int()
	zz.Assume(threshold >= 0 && threshold <= 1<<20)
	secret := zz.Bytes(16)
	zzRoundTrip([][]byte{zzPayload(3)}, threshold, -1, secret)
	zz.Reach("both")
}

func VerifMutant_Framing() {
	// control: a reader with a different threshold than the writer must be able to reject
	zz.MaxLen(8)
	zzInstallZlibModel()
	var wire bytes.Buffer
	enc := NewEncoder(&wire, proto.ClientBound, logr.Discard())
	_ = enc.SetCompression(10, -1)
	_, _ = enc.Write([]byte{1, 2, 3})
	dec := NewDecoder(&wire, proto.ClientBound, logr.Discard())
	dec.SetCompressionThreshold(2)
	_, _, err := dec.readPayload()
	zz.Assert(err == nil, "control: 3 uncompressed bytes exceed the reader's threshold 2")
}
