package proxy

import (
	"context"
	"net"

	"go.minekube.com/common/minecraft/component"
	"go.minekube.com/gate/pkg/edition/java/config"
	"go.minekube.com/gate/pkg/edition/java/proto/state"
	zz "go.minekube.com/gate/pkg/internal/zzverif"
	"go.minekube.com/gate/pkg/util/netutil"
)

type zzC17 struct {
	p      *Proxy
	cfg    *config.Config
	pl     *connectedPlayer
	conn   *zzConn
	reg    map[string]bool
	events []*KickedFromServerEvent
}

var zzServerNames = []string{"s1", "s2", "s3"}

// zzC17World: forced host "a.b" -> [s1, s2], try list [s2, s3]; which of s1..s3 are registered is symbolic.
func zzC17World(vhost net.Addr) *zzC17 {
	cfg := config.DefaultConfig
	cfg.ForcedHosts = map[string][]string{"a.b": {"s1", "s2"}}
	if zz.Bool() {
		// a forced host configured with an explicitly empty list: the try list applies
		cfg.ForcedHosts = map[string][]string{"a.b": {}}
	}
	cfg.Try = []string{"s2", "s3"}
	w := &zzC17{cfg: &cfg, reg: map[string]bool{}}
	ev := &zzEvents{}
	w.p = zzProxy(&cfg, ev)
	for _, n := range zzServerNames {
		if zz.Bool() {
			w.reg[n] = true
			w.p.servers[n] = newRegisteredServer(NewServerInfo(n, netutil.NewAddr(n+":1", "tcp")))
		}
	}
	w.conn = newZZConn(767, state.Play)
	w.conn.ctx, w.conn.cancel = context.WithCancel(context.Background())
	w.pl = &connectedPlayer{
		MinecraftConn:      w.conn,
		sessionHandlerDeps: &sessionHandlerDeps{proxy: w.p, registrar: w.p, eventMgr: ev, configProvider: &zzConfigProvider{cfg: &cfg}},
		virtualHost:        vhost,
	}
	return w
}

func zzLowerASCII(s string) string {
	b := []byte(s)
	for i := range b {
		if b[i] >= 'A' && b[i] <= 'Z' {
			b[i] += 32
		}
	}
	return string(b)
}

// zzCleanHost is the statement's cleaning: drop the Forge marker (from the first NUL) and the TCPShield
// marker (from the first "///"), trim dots, drop a ":port" suffix, lower-case.
func zzCleanHost(raw string) string {
	s := raw
	for i := 0; i < len(s); i++ {
		if s[i] == 0 {
			s = s[:i]
			break
		}
	}
	for i := 0; i+3 <= len(s); i++ {
		if s[i:i+3] == "///" {
			s = s[:i]
			break
		}
	}
	for len(s) > 0 && s[0] == '.' {
		s = s[1:]
	}
	for len(s) > 0 && s[len(s)-1] == '.' {
		s = s[:len(s)-1]
	}
	// host:port with exactly one colon and a numeric port
	colons, last := 0, -1
	for i := 0; i < len(s); i++ {
		if s[i] == ':' {
			colons++
			last = i
		}
	}
	if colons == 1 {
		s = s[:last]
	}
	return zzLowerASCII(s)
}

// zzChoose is the rule of the statement: the first server of the list (forced hosts for the cleaned
// virtual host, else the try list) at or after the cursor that is registered and not excluded.
func (w *zzC17) lists(host string) []string {
	if l, ok := w.cfg.ForcedHosts[host]; ok && len(l) > 0 {
		return l
	}
	return w.cfg.Try
}

func (w *zzC17) choose(list []string, cursor int, excluded ...string) (string, int) {
	for i := cursor; i < len(list); i++ {
		skip := false
		for _, e := range excluded {
			if e != "" && e == list[i] {
				skip = true
			}
		}
		if skip {
			continue
		}
		if w.reg[list[i]] {
			return list[i], i
		}
	}
	return "", len(list)
}

// The virtual host a player is matched on: every string of up to 5 (quick) / 6 (thorough) characters
// over {a, B, '.', ':', '1', NUL, '/'}.
func VerifHarness_VirtualHostCleaning() {
	max := 5
	if zz.Thorough() {
		max = 6
	}
	zz.MaxLen(max)
	zz.Unwind(300)
	raw := zz.String(zz.Choose(max + 1))
	for i := 0; i < len(raw); i++ {
		c := raw[i]
		zz.Assume(c == 'a' || c == 'B' || c == '.' || c == ':' || c == '1' || c == 0 || c == '/')
	}
	// exactly the spellings the statement names: a port is ":digits" at the end
	pl := &connectedPlayer{virtualHost: netutil.NewAddr(raw, "tcp")}
	got := pl.getVirtualHostname()
	want := zzCleanHost(raw)
	// a colon that is not followed by a numeric port is outside the statement ("host with port"): skip
	cleaned := want
	_ = cleaned
	portOK := true
	{
		s := raw
		for i := 0; i < len(s); i++ {
			if s[i] == 0 {
				s = s[:i]
				break
			}
		}
		for i := 0; i+3 <= len(s); i++ {
			if s[i:i+3] == "///" {
				s = s[:i]
				break
			}
		}
		for len(s) > 0 && s[0] == '.' {
			s = s[1:]
		}
		for len(s) > 0 && s[len(s)-1] == '.' {
			s = s[:len(s)-1]
		}
		colons, last := 0, -1
		for i := 0; i < len(s); i++ {
			if s[i] == ':' {
				colons++
				last = i
			}
		}
		if colons > 1 {
			portOK = false // IPv6-like text: not a host:port
		}
		if colons == 1 {
			port := s[last+1:]
			if len(port) == 0 {
				portOK = false
			}
			for i := 0; i < len(port); i++ {
				if port[i] != '1' {
					portOK = false
				}
			}
		}
	}
	zz.Assume(portOK)
	zz.Assert(got == want, "the virtual host used for forced-host matching is not the cleaned, lower-cased host name")
	zz.Reach("cleaned-host")
}

// Initial choice and up to three successive failures, for the forced host (in any spelling) and for an
// unknown host, with every subset of registered servers: each choice follows the rule, and when no
// server remains the player is disconnected with the reason.
func VerifHarness_ServerChoice() {
	var vhost net.Addr
	host := ""
	switch zz.Choose(4) {
	case 0:
		vhost, host = netutil.NewAddr("a.b:25565", "tcp"), "a.b"
	case 1:
		vhost, host = netutil.NewAddr("A.B.\x00FML\x00", "tcp"), "a.b"
	case 2:
		vhost, host = netutil.NewAddr("other.host", "tcp"), "other.host"
	case 3:
		vhost, host = nil, ""
	}
	w := zzC17World(vhost)
	pl := w.pl
	var results []ServerKickResult
	zz.Replace("(*go.minekube.com/gate/pkg/edition/java/proxy.connectedPlayer).handleKickEvent", func(p *connectedPlayer, e *KickedFromServerEvent, friendly component.Component, kickedFromCurrent bool) {
		w.events = append(w.events, e)
		results = append(results, e.Result())
	})
	if zz.Native() {
		zz.NativeUnsupported("the kick-event handling (which reconnects over the network) is replaced by a recorder in the symbolic run")
	}
	list := w.lists(host)
	first := pl.nextServerToTry(nil)
	want, cursor := w.choose(list, 0)
	if want == "" {
		zz.Assert(first == nil, "a server was chosen although none of the listed servers is registered")
		zz.Reach("nothing-to-join")
		return
	}
	zz.Assert(first != nil && first.ServerInfo().Name() == want, "the initial server is not the first registered server listed for the virtual host (or the try list)")
	friendly := &component.Text{Content: "kicked"}
	failed := first
	fails := 1 + zz.Choose(3)
	for k := 0; k < fails; k++ {
		pl.handleConnectionErr2(failed, nil, friendly, true)
		zz.Assert(len(results) == k+1, "a failed connection attempt produced no kick decision")
		want, cursor = w.choose(list, cursor, failed.ServerInfo().Name())
		switch r := results[k].(type) {
		case *RedirectPlayerKickResult:
			zz.Assert(want != "" && r.Server.ServerInfo().Name() == want, "after a failure the player is not sent to the next listed registered server other than the failed one")
			failed = r.Server
			zz.Reach("redirected")
		case *DisconnectPlayerKickResult:
			zz.Assert(want == "", "the player was disconnected although a listed registered server remained")
			zz.Assert(r.Reason == component.Component(friendly), "the player was not disconnected with the kick reason")
			zz.Reach("exhausted")
			return
		default:
			zz.Assert(false, "an unexpected kick decision was taken for a failed initial connection")
		}
	}
}

// A player that is on a server (and possibly has another connection in flight) is kicked from its
// current server: the fallback is the first listed registered server that is neither the current
// (failed) one nor the in-flight one.
func VerifHarness_FallbackSkipsCurrentAndInFlight() {
	w := zzC17World(netutil.NewAddr("a.b", "tcp"))
	pl := w.pl
	var results []ServerKickResult
	zz.Replace("(*go.minekube.com/gate/pkg/edition/java/proxy.connectedPlayer).handleKickEvent", func(p *connectedPlayer, e *KickedFromServerEvent, friendly component.Component, kickedFromCurrent bool) {
		results = append(results, e.Result())
	})
	if zz.Native() {
		zz.NativeUnsupported("the kick-event handling is replaced by a recorder in the symbolic run")
	}
	cur := zzServerNames[zz.Choose(3)]
	zz.Assume(w.reg[cur])
	curSrv := w.p.servers[cur]
	pl.connectedServer_ = &serverConnection{server: curSrv, player: pl}
	fly := ""
	if zz.Bool() {
		fly = zzServerNames[zz.Choose(3)]
		zz.Assume(w.reg[fly] && fly != cur)
		pl.connInFlight = &serverConnection{server: w.p.servers[fly], player: pl}
	}
	friendly := &component.Text{Content: "kicked"}
	pl.handleConnectionErr2(curSrv, nil, friendly, true)
	zz.Assert(len(results) == 1, "a kick from the current server produced no decision")
	want, _ := w.choose(w.lists("a.b"), 0, cur, fly)
	switch r := results[0].(type) {
	case *RedirectPlayerKickResult:
		zz.Assert(want != "" && r.Server.ServerInfo().Name() == want, "the fallback server is the failed, the current or the in-flight server, or not the next listed one")
		zz.Reach("fallback")
	case *DisconnectPlayerKickResult:
		zz.Assert(want == "" && r.Reason == component.Component(friendly), "the player was disconnected although a fallback server remained (or without the reason)")
		zz.Reach("no-fallback")
	default:
		zz.Assert(false, "an unexpected kick decision was taken for a kick from the current server")
	}
}

func VerifMutant_ServerChoice() {
	w := zzC17World(netutil.NewAddr("a.b", "tcp"))
	first := w.pl.nextServerToTry(nil)
	zz.Assert(first == nil || first.ServerInfo().Name() == "s2", "control: s1 comes first for the forced host when registered")
}
