package proxy

import (
	"bytes"

	"go.minekube.com/gate/pkg/edition/java/proto/packet"
	"go.minekube.com/gate/pkg/edition/java/proto/state"
	"go.minekube.com/gate/pkg/edition/java/proxy/message"
	"go.minekube.com/gate/pkg/gate/proto"
	zz "go.minekube.com/gate/pkg/internal/zzverif"
)

type zzConsumer struct {
	l       *loginInboundConn
	calls   int
	got     []byte
	gotNil  bool
	chain   *zzConsumer // when set: the callback sends one more message with this consumer
	chainID int
}

func (c *zzConsumer) OnMessageResponse(body []byte) error {
	c.calls++
	c.gotNil = body == nil
	c.got = append([]byte{}, body...)
	if c.chain != nil {
		_ = c.l.SendLoginPluginMessage(message.NewLegacyChannelIdentifier("x:y"), []byte{9}, c.chain)
	}
	return nil
}

func zzLoginConn() (*loginInboundConn, *zzConn) {
	conn := newZZConn(767, state.Login)
	return newLoginInboundConn(newInitialInbound(conn, nil, packet.LoginHandshakeIntent)), conn
}

func zzSentIDs(conn *zzConn) []int {
	var ids []int
	for _, o := range conn.log {
		if o.kind == "write-packet" || o.kind == "buffer-packet" {
			if m, ok := o.packet.(*packet.LoginPluginMessage); ok {
				ids = append(ids, m.ID)
			}
		}
	}
	return ids
}

// Event handlers send up to two login plugin messages, the pre-login event completes, then the client
// answers with up to four responses with arbitrary ids (repeated, unknown) and success flags: each
// consumer gets only its own message's answer, at most once; unknown ids are ignored; the completion
// step runs exactly once, not before every sent message has been answered.
func VerifHarness_ResponsesAndCompletion() {
	zz.MaxLen(2)
	l, conn := zzLoginConn()
	k := zz.Choose(3)
	consumers := map[int]*zzConsumer{}
	for i := 0; i < k; i++ {
		c := &zzConsumer{l: l}
		zz.Assert(l.SendLoginPluginMessage(message.NewLegacyChannelIdentifier("a:b"), []byte{byte(i + 1)}, c) == nil, "sending a login plugin message failed")
		consumers[i+1] = c
	}
	zz.Assert(len(zzSentIDs(conn)) == 0, "a login plugin message was sent before the pre-login event completed")
	completed := 0
	zz.Assert(l.loginEventFired(func() error { completed++; return nil }) == nil, "completing the pre-login event failed")
	sent := zzSentIDs(conn)
	zz.Assert(len(sent) == k, "not every queued login plugin message was sent exactly once after the pre-login event")
	for i, id := range sent {
		zz.Assert(id == i+1, "queued login plugin messages were not sent in order with their own ids")
	}
	if k == 0 {
		zz.Assert(completed == 1, "with nothing outstanding the login did not complete right after the pre-login event")
	} else {
		zz.Assert(completed == 0, "the login completed while a login plugin message was unanswered")
	}
	answered := map[int]bool{}
	maxResp := 3
	if zz.Thorough() {
		maxResp = 4
	}
	n := zz.Choose(maxResp + 1)
	for r := 0; r < n; r++ {
		id := zz.Choose(4) // 0 and 3 are ids nobody is waiting for when k < 3
		ok := zz.Bool()
		data := zz.Bytes(zz.Choose(3))
		before := map[int]int{}
		for cid, c := range consumers {
			before[cid] = c.calls
		}
		zz.Assert(l.handleLoginPluginResponse(&packet.LoginPluginResponse{ID: id, Success: ok, Data: data}) == nil, "handling a response failed")
		for cid, c := range consumers {
			if cid == id && !answered[id] {
				zz.Assert(c.calls == before[cid]+1, "the consumer registered for a message id did not get the response")
				if ok {
					zz.Assert(!c.gotNil && bytes.Equal(c.got, data), "the consumer did not get the client's response body")
				} else {
					zz.Assert(c.gotNil, "a failed response was not reported to the consumer as 'no data'")
				}
			} else {
				zz.Assert(c.calls == before[cid], "a consumer was invoked for another message's response, for a repeated response, or for an unknown id")
			}
		}
		if _, known := consumers[id]; known {
			answered[id] = true
		}
		all := len(answered) == k
		if k > 0 {
			if all {
				zz.Assert(completed == 1, "the login did not complete exactly once when the last outstanding message was answered")
			} else {
				zz.Assert(completed == 0, "the login completed while a login plugin message was unanswered")
			}
		} else {
			zz.Assert(completed == 1, "a response with an unknown id ran the completion step again")
		}
	}
	zz.Reach("responses")
}

// A consumer that sends a follow-up message from its callback: the login completes only after the
// follow-up has been answered too, once.
func VerifHarness_FollowUpFromConsumer() {
	l, conn := zzLoginConn()
	second := &zzConsumer{l: l}
	first := &zzConsumer{l: l, chain: second}
	_ = l.SendLoginPluginMessage(message.NewLegacyChannelIdentifier("a:b"), []byte{1}, first)
	completed := 0
	_ = l.loginEventFired(func() error { completed++; return nil })
	_ = l.handleLoginPluginResponse(&packet.LoginPluginResponse{ID: 1, Success: true, Data: []byte{7}})
	zz.Assert(first.calls == 1 && second.calls == 0, "the first consumer was not invoked exactly once")
	ids := zzSentIDs(conn)
	zz.Assert(len(ids) == 2 && ids[1] == 2, "the follow-up message was not sent to the client")
	zz.Assert(completed == 0, "the login completed although the follow-up message is unanswered")
	if zz.Bool() {
		_ = l.handleLoginPluginResponse(&packet.LoginPluginResponse{ID: 1, Success: true, Data: []byte{8}}) // a repeated answer
		zz.Assert(first.calls == 1 && completed == 0, "a repeated response was delivered again")
	}
	_ = l.handleLoginPluginResponse(&packet.LoginPluginResponse{ID: 2, Success: zz.Bool()})
	zz.Assert(second.calls == 1 && completed == 1, "the login did not complete exactly once after the follow-up was answered")
	zz.Reach("follow-up")
}

// Backend Forge login messages relayed through the client: each is answered to the backend exactly
// once, with the backend's own message id and the client's reply for that message.
func VerifHarness_ForgeRelay() {
	zz.MaxLen(2)
	l, client := zzLoginConn()
	_ = l.loginEventFired(func() error { return nil }) // relay happens after the pre-login phase
	l.clearOnAllMessagesHandled()
	backend := newZZConn(767, state.Login)
	relay := newModernForgeLoginRelay(l, nil, nil)
	b1, b2 := zz.Int(), zz.Int()
	zz.Assume(b1 >= 0 && b1 < 1000 && b2 >= 0 && b2 < 1000 && b1 != b2)
	zz.Assert(relay.relayToClient(backend, &packet.LoginPluginMessage{ID: b1, Channel: "fml:loginwrapper", Data: []byte{1}}) == nil, "relaying a backend login message failed")
	zz.Assert(relay.relayToClient(backend, &packet.LoginPluginMessage{ID: b2, Channel: "fml:loginwrapper", Data: nil}) == nil, "relaying a backend login message without data failed")
	ids := zzSentIDs(client)
	zz.Assert(len(ids) == 2, "the backend's login messages were not forwarded to the client")
	r1, r2 := zz.Bytes(zz.Choose(3)), zz.Bytes(zz.Choose(3))
	ok1 := zz.Bool()
	// the client answers in either order
	order := zz.Bool()
	answer := func(which int) {
		if which == 1 {
			_ = l.handleLoginPluginResponse(&packet.LoginPluginResponse{ID: ids[0], Success: ok1, Data: r1})
		} else {
			_ = l.handleLoginPluginResponse(&packet.LoginPluginResponse{ID: ids[1], Success: true, Data: r2})
		}
	}
	if order {
		answer(1)
		answer(2)
	} else {
		answer(2)
		answer(1)
	}
	answer(1) // a repeated answer changes nothing
	n1, n2 := 0, 0
	for _, o := range backend.log {
		if res, ok := o.packet.(*packet.LoginPluginResponse); ok && o.kind == "write-packet" {
			if res.ID == b1 {
				n1++
				if ok1 {
					zz.Assert(res.Success && bytes.Equal(res.Data, r1), "the backend did not get the client's reply for its message")
				} else {
					zz.Assert(!res.Success, "a reply the client refused was reported to the backend as successful")
				}
			}
			if res.ID == b2 {
				n2++
				zz.Assert(res.Success && bytes.Equal(res.Data, r2), "the backend did not get the client's reply for its message")
			}
		}
	}
	zz.Assert(n1 == 1 && n2 == 1, "a relayed backend login message was not answered to the backend exactly once")
	zz.Assert(backend.count("write-packet") == 2, "the backend received something that is not an answer to its messages")
	zz.Reach("relay")
}

// The event goroutine (send, then the pre-login event completes) races with the client read loop.
// The client answers a message only after it has received it (before that, what it sends can only
// carry ids nobody is waiting for): under every interleaving the consumer runs exactly once and the
// completion step exactly once.
func VerifHarness_SendRacesResponse() {
	zz.MaxPreempt(3)
	l, conn := zzLoginConn()
	c := &zzConsumer{l: l}
	completed := 0
	zz.Go(func() {
		_ = l.SendLoginPluginMessage(message.NewLegacyChannelIdentifier("a:b"), []byte{1}, c)
		_ = l.loginEventFired(func() error { completed++; return nil })
	})
	zz.Go(func() {
		for step := 0; step < 2; step++ {
			id := 99 // an id nobody is waiting for
			if len(zzSentIDs(conn)) > 0 {
				id = 1 // the message has reached the client: it may answer it (also twice)
			}
			_ = l.handleLoginPluginResponse(&packet.LoginPluginResponse{ID: id, Success: true})
		}
	})
	zz.WaitAll()
	zz.Assert(c.calls <= 1 && completed <= 1, "a consumer or the completion step ran twice under concurrent sending and answering")
	_ = l.handleLoginPluginResponse(&packet.LoginPluginResponse{ID: 1, Success: true}) // the (possibly repeated) answer
	zz.Assert(c.calls == 1, "the consumer did not run exactly once")
	zz.Assert(completed == 1, "the login did not complete exactly once after the message was answered")
	zz.Reach("send-races-response")
}

// After the pre-login event has completed (the Forge relay sends at that stage) a message is written to
// the client at once. The client answers it exactly once, as soon as it has received it: under every
// interleaving of the sender and the client's read loop the consumer gets that answer.
// zzWireConn makes a packet write a scheduling point: the peer can act on a packet as soon as it is on
// the wire, before the writer runs its next statement.
type zzWireConn struct{ *zzConn }

func (w *zzWireConn) WritePacket(p proto.Packet) error {
	err := w.zzConn.WritePacket(p)
	zz.Yield()
	return err
}

func VerifHarness_DirectSendRacesTheOnlyResponse() {
	zz.MaxPreempt(3)
	conn := newZZConn(767, state.Login)
	l := newLoginInboundConn(newInitialInbound(&zzWireConn{conn}, nil, packet.LoginHandshakeIntent))
	_ = l.loginEventFired(func() error { return nil })
	c := &zzConsumer{l: l}
	answered := false
	zz.Go(func() {
		zz.Assert(l.SendLoginPluginMessage(message.NewLegacyChannelIdentifier("a:b"), []byte{1}, c) == nil, "sending after the pre-login event failed")
	})
	zz.Go(func() {
		for i := 0; i < 4 && len(zzSentIDs(conn)) == 0; i++ {
			zz.Yield()
		}
		if ids := zzSentIDs(conn); len(ids) > 0 {
			answered = true
			_ = l.handleLoginPluginResponse(&packet.LoginPluginResponse{ID: ids[0], Success: true, Data: []byte{7}})
		}
	})
	zz.WaitAll()
	if answered {
		zz.Assert(c.calls == 1 && bytes.Equal(c.got, []byte{7}), "the client's only answer to a message it had received was dropped (the consumer was not waiting for it yet)")
		zz.Reach("direct-send-answered")
	}
}

func VerifMutant_LoginPlugin() {
	l, _ := zzLoginConn()
	c := &zzConsumer{l: l}
	_ = l.SendLoginPluginMessage(message.NewLegacyChannelIdentifier("a:b"), []byte{1}, c)
	_ = l.loginEventFired(func() error { return nil })
	_ = l.handleLoginPluginResponse(&packet.LoginPluginResponse{ID: 1, Success: true})
	_ = l.handleLoginPluginResponse(&packet.LoginPluginResponse{ID: 1, Success: true})
	zz.Assert(c.calls == 2, "control: a repeated response must not reach the consumer")
}
