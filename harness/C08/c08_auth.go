package auth

import (
	"bytes"
	"context"
	"crypto/rsa"
	"errors"
	"hash"
	"io"
	"net/http"
	"time"

	"go.opentelemetry.io/otel/trace/noop"

	zz "go.minekube.com/gate/pkg/internal/zzverif"
)

// the stand-in for RSA PKCS#1 v1.5 decryption: fails, or yields the ciphertext with every byte decremented
func zzStubRSA(fail bool) {
	zz.Replace("crypto/rsa.DecryptPKCS1v15", func(random io.Reader, priv *rsa.PrivateKey, ct []byte) ([]byte, error) {
		if fail {
			return nil, errors.New("rsa: decryption error")
		}
		out := make([]byte, len(ct))
		for i := range ct {
			out[i] = ct[i] - 1
		}
		return out, nil
	})
}

// The real Verify says "valid" exactly when the decrypted token is byte for byte the issued one: no
// prefix, no longer token, no empty token; a decryption failure is an error and never "valid".
func VerifHarness_VerifyExactToken() {
	zz.MaxLen(6)
	fail := zz.Bool()
	zzStubRSA(fail)
	a := &authenticator{}
	issued := zz.Bytes(4)
	enc := zz.Bytes(zz.Choose(7))
	ok, err := a.Verify(enc, issued)
	same := len(enc) == len(issued)
	if same {
		for i := range enc {
			if enc[i]-1 != issued[i] {
				same = false
			}
		}
	}
	if fail {
		zz.Assert(err != nil && !ok, "a verify token that did not decrypt was reported valid")
		zz.Reach("verify-error")
		return
	}
	zz.Assert(err == nil, "Verify failed although decryption succeeded")
	zz.Assert(ok == same, "Verify does not accept exactly the issued verify token (a prefix, a longer or a different token passed, or the issued one was refused)")
	if ok {
		zz.Reach("verify-valid")
	} else {
		zz.Reach("verify-invalid")
	}
	// the shared secret is whatever decrypts, or an error
	sec, err := a.DecryptSharedSecret(enc)
	zz.Assert(err == nil && len(sec) == len(enc), "the shared secret is not the decryption of what the client sent")
}

type zzBody struct{ *bytes.Reader }

func (zzBody) Close() error { return nil }

// The real AuthenticateJoin: asks the URL built for exactly (server id, user name, ip); "online" only
// for 200 with a body; 204 and 401 are "not online"; any other status, or a transport error, is an error.
func VerifHarness_HasJoinedOutcome() {
	zz.MaxLen(3)
	tracer = noop.NewTracerProvider().Tracer("zz")
	zz.Replace("time.Now", func() time.Time { return time.Unix(1_700_000_000, 0) }) // the elapsed time only goes into a log line
	status := []int{200, 204, 401, 403, 404, 429, 500, 503}[zz.Choose(8)]
	bodyLen := zz.Choose(3)
	transportErr := zz.Bool()
	var asked []string
	a := &authenticator{cli: &http.Client{}, hasJoinedURLFn: func(serverID, username, ip string) string {
		asked = append(asked, serverID+"|"+username+"|"+ip)
		return "http://session/hasJoined"
	}}
	zz.Replace("net/http.NewRequestWithContext", func(ctx context.Context, method, url string, body io.Reader) (*http.Request, error) {
		return &http.Request{Method: method}, nil
	})
	calls := 0
	zz.Replace("(*net/http.Client).Do", func(c *http.Client, req *http.Request) (*http.Response, error) {
		calls++
		if transportErr {
			return nil, errors.New("dial tcp: timeout")
		}
		return &http.Response{StatusCode: status, Body: zzBody{bytes.NewReader(make([]byte, bodyLen))}}, nil
	})
	resp, err := a.AuthenticateJoin(context.Background(), "sid", "Steve", "1.2.3.4")
	zz.Assert(calls == 1 && len(asked) == 1 && asked[0] == "sid|Steve|1.2.3.4", "the session server was not asked exactly once about this server id, user name and address")
	if transportErr || (status != 200 && status != 204 && status != 401) {
		zz.Assert(err != nil && resp == nil, "a transport error or an unexpected session-server status was not reported as an error")
		zz.Reach("join-error")
		return
	}
	zz.Assert(err == nil && resp != nil, "a regular session-server answer was reported as an error")
	zz.Assert(resp.OnlineMode() == (status == 200 && bodyLen > 0), "online mode is reported for anything but a 200 answer with a profile")
	if !resp.OnlineMode() {
		_, perr := resp.GameProfile()
		zz.Assert(perr != nil, "a profile was produced for a join the session server did not confirm")
		zz.Reach("join-not-confirmed")
	} else {
		zz.Reach("join-confirmed")
	}
}

// zzHash is a SHA-1 stand-in: it records what was hashed and returns an arbitrary 20-byte digest.
type zzHash struct {
	in  []byte
	out []byte
}

func (h *zzHash) Write(p []byte) (int, error) { h.in = append(h.in, p...); return len(p), nil }
func (h *zzHash) Sum(b []byte) []byte         { return append(b, h.out...) }
func (h *zzHash) Reset()                      {}
func (h *zzHash) Size() int                   { return 20 }
func (h *zzHash) BlockSize() int              { return 64 }

// The server id is Minecraft's signed hex digest of SHA-1(shared secret ++ public key): the digest
// read as a signed big-endian number, in hex without leading zeros, with a minus sign if negative.
func VerifHarness_ServerID() {
	zz.MaxLen(20)
	zz.Unwind(100)
	// digest: first two and last two bytes arbitrary, the 16 in between all 0x00, all 0xff (carry
	// chains through the whole number) or a mixed pattern
	d := make([]byte, 20)
	fill := []byte{0x00, 0xff, 0x3c}[zz.Choose(3)]
	for i := range d {
		d[i] = fill
	}
	d[0], d[1], d[18], d[19] = zz.Byte(), zz.Byte(), zz.Byte(), zz.Byte()
	nonzero := false
	for _, x := range d {
		if x != 0 {
			nonzero = true
		}
	}
	zz.Assume(nonzero) // an all-zero SHA-1 digest (Java prints "0") is outside the claim
	h := &zzHash{out: append([]byte(nil), d...)}
	zz.Replace("crypto/sha1.New", func() hash.Hash { return h })
	a := &authenticator{public: []byte{9, 8, 7}}
	got, err := a.GenerateServerID([]byte{1, 2})
	zz.Assert(err == nil && bytes.Equal(h.in, []byte{1, 2, 9, 8, 7}), "the server id is not derived from the shared secret followed by the public key")
	// reference: magnitude = d or 2^160 - d, hex digits without leading zeros
	neg := d[0]&0x80 != 0
	mag := append([]byte(nil), d...)
	if neg {
		borrow := 0
		for i := 19; i >= 0; i-- {
			v := 0 - int(mag[i]) - borrow
			borrow = 0
			if v < 0 {
				v += 256
				borrow = 1
			}
			mag[i] = byte(v)
		}
	}
	const digits = "0123456789abcdef"
	want := ""
	started := false
	for _, x := range mag {
		for _, nib := range []byte{x >> 4, x & 15} {
			if nib != 0 || started {
				started = true
				want += string(digits[nib])
			}
		}
	}
	if neg {
		want = "-" + want
	}
	zz.Assert(got == want, "the server id is not Minecraft's signed hexadecimal digest")
	zz.Reach("server-id")
}

func VerifMutant_Verify() {
	zzStubRSA(false)
	a := &authenticator{}
	ok, _ := a.Verify([]byte{2, 3, 4, 5}, []byte{1, 2, 3, 4})
	zz.Assert(!ok, "control: the issued token is accepted")
}
