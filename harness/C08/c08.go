package proxy

import (
	"bytes"
	"context"
	"errors"

	"github.com/go-logr/logr"
	"github.com/robinbraemer/event"
	"go.minekube.com/common/minecraft/component"
	"go.minekube.com/gate/pkg/edition/java/auth"
	"go.minekube.com/gate/pkg/edition/java/config"
	"go.minekube.com/gate/pkg/edition/java/netmc"
	"go.minekube.com/gate/pkg/edition/java/profile"
	"go.minekube.com/gate/pkg/edition/java/proto/packet"
	"go.minekube.com/gate/pkg/edition/java/proto/state"
	"go.minekube.com/gate/pkg/edition/java/proxy/message"
	"go.minekube.com/gate/pkg/gate/proto"
	zz "go.minekube.com/gate/pkg/internal/zzverif"
)

// ---- fake session-server client: every outcome is symbolic, every argument is recorded ----

type zzAuthResp struct {
	online  bool
	profile *profile.GameProfile
	err     error
}

func (r *zzAuthResp) OnlineMode() bool { return r.online }
func (r *zzAuthResp) GameProfile() (*profile.GameProfile, error) {
	return r.profile, r.err
}

type zzAuth struct {
	verifyErr, decryptErr, joinErr bool
	joinOnline                     bool
	verified                       int // calls that reported "token matches"
	decrypted                      [][]byte
	joins                          []struct{ serverID, username string }
}

func (a *zzAuth) PublicKey() []byte { return []byte{1, 2, 3} }

// the fake "RSA": ciphertext = plaintext with every byte incremented
func zzRSAEnc(b []byte) []byte {
	out := make([]byte, len(b))
	for i := range b {
		out[i] = b[i] + 1
	}
	return out
}
func zzRSADec(b []byte) []byte {
	out := make([]byte, len(b))
	for i := range b {
		out[i] = b[i] - 1
	}
	return out
}
func (a *zzAuth) Verify(enc, actual []byte) (bool, error) {
	if a.verifyErr {
		return false, errors.New("rsa: decryption error")
	}
	ok := bytes.Equal(zzRSADec(enc), actual)
	if ok {
		a.verified++
	}
	return ok, nil
}
func (a *zzAuth) DecryptSharedSecret(enc []byte) ([]byte, error) {
	if a.decryptErr {
		return nil, errors.New("rsa: decryption error")
	}
	d := zzRSADec(enc)
	a.decrypted = append(a.decrypted, d)
	return d, nil
}
func (a *zzAuth) GenerateServerID(secret []byte) (string, error) {
	return "sid:" + string(secret), nil
}
func (a *zzAuth) AuthenticateJoin(ctx context.Context, serverID, username, ip string) (auth.Response, error) {
	a.joins = append(a.joins, struct{ serverID, username string }{serverID, username})
	if a.joinErr {
		return nil, errors.New("session server unreachable")
	}
	if !a.joinOnline {
		return &zzAuthResp{online: false}, nil // 204: no such session
	}
	return &zzAuthResp{online: true, profile: &profile.GameProfile{Name: username}}, nil
}
func (a *zzAuth) SetHasJoinedURLFn(auth.HasJoinedURLFn) {}

type zzAdmission struct {
	profile    *profile.GameProfile
	onlineMode bool
	serverID   string
}

// Symbolic sequences of up to three login-phase packets against the real initial login handler, in
// online mode, with every pre-login result, every token/secret/session-server outcome: the client is
// admitted as an online player only after the issued verify token came back, the secret decrypted,
// encryption was enabled with exactly that secret and the session server confirmed the join for the
// server id derived from it and for the login's user name; offline admission only when a pre-login
// handler forced it; a packet out of order closes the connection and nobody is admitted afterwards.
func VerifHarness_OnlineModeAdmission() {
	zz.MaxLen(4)
	zz.Unwind(300)
	cfg := config.DefaultConfig
	cfg.OnlineMode = true
	authn := &zzAuth{verifyErr: zz.Bool(), decryptErr: zz.Bool(), joinErr: zz.Bool(), joinOnline: zz.Bool()}
	preLogin := PreLoginResult(zz.Choose(4))
	askPlugin := zz.Bool() // a pre-login subscriber sends a login plugin message and awaits the answer
	var inbound *loginInboundConn
	ev := &zzEvents{onFire: func(e event.Event) {
		if pe, ok := e.(*PreLoginEvent); ok {
			pe.result = preLogin
			if askPlugin {
				_ = inbound.SendLoginPluginMessage(message.LegacyChannelIdentifier("q"), []byte{1}, zzConsumer(func([]byte) error { return nil }))
			}
		}
	}}
	conn := newZZConn(767, state.Login)
	conn.ctx, conn.cancel = context.WithCancel(context.Background())
	deps := &sessionHandlerDeps{eventMgr: ev, configProvider: &zzConfigProvider{cfg: &cfg}, authenticator: authn}
	inbound = newLoginInboundConn(newInitialInbound(conn, nil, packet.LoginHandshakeIntent))
	h := newInitialLoginSessionHandler(conn, inbound, deps).(*initialLoginSessionHandler)
	h.log = logr.Discard()
	var admitted []zzAdmission
	zz.Replace("go.minekube.com/gate/pkg/edition/java/proxy.newAuthSessionHandler", func(in *loginInboundConn, p *profile.GameProfile, online bool, serverID string, d *sessionHandlerDeps) netmc.SessionHandler {
		admitted = append(admitted, zzAdmission{p, online, serverID})
		return &nopSessionHandler{}
	})
	zz.ReplaceSym("(*go.minekube.com/gate/pkg/edition/java/proxy.initialInbound).disconnect", func(i *initialInbound, reason component.Component) error {
		return i.MinecraftConn.Close()
	})
	if zz.Native() {
		zz.NativeUnsupported("the second login stage is replaced by a recorder in the symbolic run")
	}
	zz.Replace("crypto/md5.Sum", func(data []byte) [16]byte { return [16]byte{} }) // offline UUIDs are C10's subject

	name := "Steve"
	if zz.Bool() {
		name = "bad name!"
	}
	steps := 1 + zz.Choose(3)
	var sentSecret []byte
	brokeOrder := false
	logins, encResponses := 0, 0 // what the client has sent so far (independent of the handler's own state)
	for i := 0; i < steps; i++ {
		if conn.closed > 0 {
			break // the read loop hands no further packet to a handler once the connection is closed
		}
		before := len(admitted)
		wasClosed := conn.closed > 0
		switch zz.Choose(4) {
		case 0:
			if logins > 0 {
				brokeOrder = true // login start twice
			}
			logins++
			h.HandlePacket(&proto.PacketContext{Packet: &packet.ServerLogin{Username: name}, Payload: []byte{0}})
		case 1:
			token := zz.Bytes(zz.Choose(5)) // also shorter than issued, also empty
			secret := zz.Bytes(2)
			sentSecret = secret
			if encResponses > 0 || zzEncryptionRequests(conn) == 0 {
				brokeOrder = true // an encryption response twice, or before the proxy asked for one
			}
			encResponses++
			h.HandlePacket(&proto.PacketContext{Packet: &packet.EncryptionResponse{SharedSecret: secret, VerifyToken: token}, Payload: []byte{1}})
			if len(admitted) > before {
				a := admitted[len(admitted)-1]
				zz.Assert(a.onlineMode, "an encryption response led to an offline-mode admission")
				zz.Assert(zzEncryptionRequests(conn) == 1 && len(h.verify) == 4, "a client was admitted on an encryption response the proxy never asked for")
				zz.Assert(bytes.Equal(zzRSADec(token), h.verify) && authn.verified > 0, "a client was admitted without returning the verify token the proxy issued")
				zz.Assert(!authn.decryptErr && len(authn.decrypted) == 1, "a client was admitted although the shared secret did not decrypt")
				zz.Assert(bytes.Equal(conn.secret, zzRSADec(sentSecret)) && conn.count("enable-encryption") == 1, "encryption was not enabled with exactly the decrypted shared secret before admission")
				zz.Assert(len(authn.joins) == 1 && authn.joins[0].serverID == "sid:"+string(zzRSADec(sentSecret)) && authn.joins[0].username == name, "the session server was not asked about the server id derived from the secret and the login's user name")
				zz.Assert(!authn.joinErr && authn.joinOnline && a.serverID == authn.joins[0].serverID && a.profile.Name == name, "a client was admitted although the session server did not confirm the join")
				zz.Reach("admitted-online")
			}
		case 2:
			h.HandlePacket(&proto.PacketContext{Packet: &packet.LoginPluginResponse{ID: zz.Choose(3)}, Payload: []byte{2}})
		case 3:
			h.HandlePacket(&proto.PacketContext{PacketID: 0x44, Payload: []byte{0x44}})
			zz.Assert(conn.closed > 0, "an unknown packet during login did not close the connection")
		}
		if len(admitted) > before {
			a := admitted[len(admitted)-1]
			zz.Assert(!wasClosed, "a client was admitted after its connection had been closed")
			zz.Assert(len(admitted) == 1, "a client was admitted twice")
			if !a.onlineMode {
				zz.Assert(preLogin == ForceOfflineModePreLogin, "an offline-mode admission happened in online mode without a pre-login handler forcing it")
				zz.Assert(name == "Steve", "a client with an invalid user name was admitted")
				zz.Reach("admitted-forced-offline")
			}
		}
		if brokeOrder {
			zz.Assert(conn.closed > 0, "a login packet out of order (or twice) did not close the connection")
			zz.Assert(len(admitted) == before, "a client was admitted by a login packet that arrived out of order")
		}
	}
	if name != "Steve" {
		zz.Assert(len(admitted) == 0, "a client with an invalid user name was admitted")
	}
	if preLogin == DeniedPreLogin {
		zz.Assert(len(admitted) == 0, "a client denied by a pre-login handler was admitted")
	}
	zz.Reach("sequence")
}

type zzConsumer func([]byte) error

func (f zzConsumer) OnMessageResponse(b []byte) error { return f(b) }

func zzEncryptionRequests(c *zzConn) int {
	n := 0
	for _, o := range c.log {
		if _, ok := o.packet.(*packet.EncryptionRequest); ok {
			n++
		}
	}
	return n
}

func VerifMutant_Admission() {
	cfg := config.DefaultConfig
	cfg.OnlineMode = true
	authn := &zzAuth{joinOnline: true}
	ev := &zzEvents{}
	conn := newZZConn(767, state.Login)
	conn.ctx, conn.cancel = context.WithCancel(context.Background())
	deps := &sessionHandlerDeps{eventMgr: ev, configProvider: &zzConfigProvider{cfg: &cfg}, authenticator: authn}
	inbound := newLoginInboundConn(newInitialInbound(conn, nil, packet.LoginHandshakeIntent))
	h := newInitialLoginSessionHandler(conn, inbound, deps).(*initialLoginSessionHandler)
	h.log = logr.Discard()
	n := 0
	zz.Replace("go.minekube.com/gate/pkg/edition/java/proxy.newAuthSessionHandler", func(in *loginInboundConn, p *profile.GameProfile, online bool, serverID string, d *sessionHandlerDeps) netmc.SessionHandler {
		n++
		return &nopSessionHandler{}
	})
	h.HandlePacket(&proto.PacketContext{Packet: &packet.ServerLogin{Username: "Steve"}, Payload: []byte{0}})
	h.HandlePacket(&proto.PacketContext{Packet: &packet.EncryptionResponse{SharedSecret: []byte{5}, VerifyToken: zzRSAEnc(h.verify)}, Payload: []byte{1}})
	zz.Assert(n == 0, "control: a correct login must be admitted")
}
