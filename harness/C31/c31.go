package lite

import (
	"bytes"
	"net"
	"time"

	"github.com/go-logr/logr"
	"go.minekube.com/gate/pkg/edition/java/lite/config"
	"go.minekube.com/gate/pkg/edition/java/proto/packet"
	"go.minekube.com/gate/pkg/edition/java/proto/util"
	"go.minekube.com/gate/pkg/gate/proto"
	zz "go.minekube.com/gate/pkg/internal/zzverif"
)

func zzFrame(payload []byte) []byte {
	var b bytes.Buffer
	_ = util.WriteVarInt(&b, len(payload))
	b.Write(payload)
	return b.Bytes()
}

// A whole Lite forward through the real Forward/findRoute/dialRoute/emptyReadBuff/pipe with in-memory
// connections: the backend receives [PROXY header iff enabled] + the client's handshake frame exactly
// as sent (or with only the server address rewritten when the route asks for it) + every buffered and
// later client byte; the client receives every backend byte; nothing else is written.
func VerifHarness_ForwardBytes() {
	zz.MaxLen(4)
	zz.Unwind(300)
	zzFixedClock()
	sm := NewStrategyManager()
	route := config.Route{Host: []string{"*"}, Backend: []string{"backend.host:25566"}}
	route.ProxyProtocol = zz.Bool()
	route.ModifyVirtualHost = zz.Bool()
	clientAddr := &net.TCPAddr{IP: net.IPv4(203, 0, 113, 7), Port: 50123}
	client := &zzFwdClient{conn: &zzPipeConn{remote: clientAddr, in: zz.Bytes(zz.Choose(4))}, buffered: zz.Bytes(zz.Choose(3))}
	later := append([]byte{}, client.conn.in...)
	buffered := append([]byte{}, client.buffered...)
	d := &zzDialer{fromBackend: zz.Bytes(zz.Choose(4))}
	d.install()
	hs := &packet.Handshake{ProtocolVersion: 767, ServerAddress: "Play.Example.", Port: 25565, NextStatus: 2}
	if zz.Bool() {
		hs.ServerAddress = "play.example\x00FML3\x00"
	}
	// the handshake exactly as the client sent it: packet id 0 + arbitrary body bytes (opaque to Lite)
	original := append([]byte{0}, zz.Bytes(1+zz.Choose(3))...)
	pc := &proto.PacketContext{Direction: proto.ServerBound, Protocol: 767, PacketID: 0, Packet: hs, Payload: append([]byte{}, original...)}
	sentAddr := hs.ServerAddress

	Forward(time.Second, []config.Route{route}, logr.Discard(), client, hs, pc, sm)
	zz.WaitAll() // let the backend->client copier, which Forward does not wait for, run to its end

	zz.Assert(len(d.dialed) == 1 && d.dialed[0] == "backend.host:25566", "the route's backend was not dialed exactly once")
	b := d.backends["backend.host:25566"]
	got := b.out
	if route.ProxyProtocol {
		// PROXY protocol v2: signature, PROXY command, TCP over IPv6 (both fake addresses are in 16-byte
		// form, so the IPv4 addresses travel IPv4-mapped), 36 address bytes: source, destination, ports
		hdr := []byte{0x0d, 0x0a, 0x0d, 0x0a, 0x00, 0x0d, 0x0a, 0x51, 0x55, 0x49, 0x54, 0x0a, 0x21, 0x21, 0x00, 0x24,
			0, 0, 0, 0, 0, 0, 0, 0, 0, 0, 0xff, 0xff, 203, 0, 113, 7,
			0, 0, 0, 0, 0, 0, 0, 0, 0, 0, 0xff, 0xff, 10, 9, 9, 9,
			0xc3, 0xcb, 0x63, 0xde}
		zz.Assert(len(got) >= len(hdr) && bytes.Equal(got[:len(hdr)], hdr), "the PROXY protocol header does not carry the client's real address (or is missing)")
		got = got[len(hdr):]
		zz.Reach("proxy-header")
	}
	wantFrame := zzFrame(original)
	if route.ModifyVirtualHost {
		// only the server address changes: the cleaned host is replaced by the backend host
		want := *hs
		want.ServerAddress = sentAddr
		cleaned := ClearVirtualHost(sentAddr)
		if cleaned != "backend.host" {
			want.ServerAddress = replaceAllZZ(sentAddr, cleaned, "backend.host")
		}
		var body bytes.Buffer
		_ = util.WriteVarInt(&body, 0)
		_ = want.Encode(&proto.PacketContext{Direction: proto.ServerBound, Protocol: 767}, &body)
		wantFrame = zzFrame(body.Bytes())
		zz.Reach("rewritten")
	} else {
		zz.Reach("as-sent")
	}
	zz.Assert(len(got) >= len(wantFrame) && bytes.Equal(got[:len(wantFrame)], wantFrame), "the handshake the backend received is not the client's handshake (as sent, or with only the server address rewritten)")
	rest := got[len(wantFrame):]
	wantRest := append(append([]byte{}, buffered...), later...)
	zz.Assert(bytes.Equal(rest, wantRest), "client bytes after the handshake did not reach the backend unchanged and in order")
	zz.Assert(bytes.Equal(client.conn.out, d.fromBackend), "backend bytes did not reach the client unchanged")
	zz.Assert(client.closed >= 1 && b.closed >= 1, "a connection was left open after the forward ended")
	zz.Assert(sm.ActiveConnections() == 0, "the active-connection count did not return to zero after the forward ended")
}

// The backend sends its bytes and stops sending (it half-closes, or simply has nothing more to say)
// while the client still has bytes on the way: every client byte still reaches the backend, whatever
// the interleaving of the two copy directions.
func VerifHarness_BackendQuietClientStillSending() {
	zz.MaxPreempt(2)
	zz.MaxLen(3)
	zzFixedClock()
	sm := NewStrategyManager()
	route := config.Route{Host: []string{"*"}, Backend: []string{"backend.host:25566"}}
	clientAddr := &net.TCPAddr{IP: net.IPv4(203, 0, 113, 7), Port: 50123}
	later := zz.Bytes(2 + zz.Choose(2))
	client := &zzFwdClient{conn: &zzPipeConn{remote: clientAddr, in: append([]byte{}, later...), slow: true}}
	d := &zzDialer{fromBackend: zz.Bytes(zz.Choose(2))}
	d.install()
	hs := &packet.Handshake{ProtocolVersion: 767, ServerAddress: "play.example", Port: 25565, NextStatus: 2}
	original := []byte{0, 1}
	pc := &proto.PacketContext{Direction: proto.ServerBound, Protocol: 767, PacketID: 0, Packet: hs, Payload: append([]byte{}, original...)}
	Forward(time.Second, []config.Route{route}, logr.Discard(), client, hs, pc, sm)
	zz.WaitAll()
	b := d.backends["backend.host:25566"]
	frame := zzFrame(original)
	zz.Assert(len(b.out) >= len(frame) && bytes.Equal(b.out[len(frame):], later), "client bytes sent after the backend went quiet did not reach the backend")
	zz.Assert(bytes.Equal(client.conn.out, d.fromBackend), "backend bytes did not reach the client unchanged")
	zz.Reach("half-close")
}

func replaceAllZZ(s, old, new string) string {
	if old == "" {
		return s
	}
	out := ""
	for i := 0; i < len(s); {
		if i+len(old) <= len(s) && s[i:i+len(old)] == old {
			out += new
			i += len(old)
		} else {
			out += s[i : i+1]
			i++
		}
	}
	return out
}

// The first backend accepts the connection and then resets it at an arbitrary point (during the
// handshake frame or while the client's buffered bytes are written). Whatever happens next, no backend
// ever receives the client's stream with a hole in it: what each dialed backend got is a prefix of
// handshake frame + buffered bytes + later bytes.
func VerifHarness_BackendResetsEarly() {
	zz.MaxLen(3)
	zz.Unwind(300)
	zzFixedClock()
	sm := NewStrategyManager()
	route := config.Route{Host: []string{"*"}, Backend: []string{"first:1", "second:1"}}
	client := &zzFwdClient{conn: &zzPipeConn{remote: &net.TCPAddr{IP: net.IPv4(1, 2, 3, 4), Port: 5}, in: zz.Bytes(zz.Choose(3))}, buffered: zz.Bytes(1 + zz.Choose(2))}
	later := append([]byte{}, client.conn.in...)
	buffered := append([]byte{}, client.buffered...)
	d := &zzDialer{breakAt: map[string]int{"first:1": 1 + zz.Choose(4)}}
	d.install()
	hs := &packet.Handshake{ProtocolVersion: 767, ServerAddress: "play.example", Port: 25565, NextStatus: 2}
	original := []byte{0, 9, 9}
	pc := &proto.PacketContext{Direction: proto.ServerBound, Protocol: 767, Payload: append([]byte{}, original...)}
	Forward(time.Second, []config.Route{route}, logr.Discard(), client, hs, pc, sm)
	zz.WaitAll()
	full := append(append(zzFrame(original), buffered...), later...)
	for _, addr := range d.dialed {
		got := d.backends[addr].out
		zz.Assert(len(got) <= len(full) && bytes.Equal(got, full[:len(got)]), "a backend received the client's stream with bytes missing in the middle (the bytes sent right behind the handshake were lost)")
	}
	zz.Assert(sm.ActiveConnections() == 0, "the active-connection count did not return to zero")
	zz.Reach("reset-early")
}

// A host matching no route: the client is closed and no backend is dialed.
func VerifHarness_NoRouteNoDial() {
	zzFixedClock()
	sm := NewStrategyManager()
	client := &zzFwdClient{conn: &zzPipeConn{remote: &net.TCPAddr{IP: net.IPv4(1, 2, 3, 4), Port: 5}}}
	d := &zzDialer{}
	d.install()
	hs := &packet.Handshake{ServerAddress: "nope.example"}
	pc := &proto.PacketContext{Payload: []byte{0, 1}}
	Forward(time.Second, []config.Route{{Host: []string{"a.b"}, Backend: []string{"x:1"}}}, logr.Discard(), client, hs, pc, sm)
	zz.Assert(len(d.dialed) == 0, "a backend was dialed for a host that matches no route")
	zz.Assert(client.closed >= 1, "the client connection was not closed")
	zz.Reach("no-route")
}

// A client that reached Gate through a load balancer speaking the PROXY protocol: the connection Lite
// gets is the listener's wrapper, whose remote address is the client's real one. With the route's
// PROXY protocol on, the header sent to the backend carries that address, and the client's bytes are
// piped through the wrapper.
func VerifHarness_ProxiedClientAddressReachesBackend() {
	zz.MaxLen(4)
	zz.Unwind(300)
	zzFixedClock()
	sm := NewStrategyManager()
	route := config.Route{Host: []string{"*"}, Backend: []string{"backend.host:25566"}, ProxyProtocol: true}
	clientAddr := &net.TCPAddr{IP: net.IPv4(203, 0, 113, 7), Port: 50123}
	client := &zzFwdClient{conn: &zzPipeConn{remote: clientAddr, in: zz.Bytes(zz.Choose(3))}, buffered: zz.Bytes(zz.Choose(2)), proxied: true}
	later := append([]byte{}, client.conn.in...)
	buffered := append([]byte{}, client.buffered...)
	d := &zzDialer{fromBackend: zz.Bytes(zz.Choose(2))}
	d.install()
	hs := &packet.Handshake{ProtocolVersion: 767, ServerAddress: "play.example", Port: 25565, NextStatus: 2}
	original := append([]byte{0}, zz.Bytes(1+zz.Choose(2))...)
	pc := &proto.PacketContext{Direction: proto.ServerBound, Protocol: 767, PacketID: 0, Packet: hs, Payload: append([]byte{}, original...)}
	Forward(time.Second, []config.Route{route}, logr.Discard(), client, hs, pc, sm)
	zz.WaitAll()
	zz.Assert(len(d.dialed) == 1, "the route's backend was not dialed exactly once")
	got := d.backends["backend.host:25566"].out
	hdr := []byte{0x0d, 0x0a, 0x0d, 0x0a, 0x00, 0x0d, 0x0a, 0x51, 0x55, 0x49, 0x54, 0x0a, 0x21, 0x21, 0x00, 0x24,
		0, 0, 0, 0, 0, 0, 0, 0, 0, 0, 0xff, 0xff, 203, 0, 113, 7,
		0, 0, 0, 0, 0, 0, 0, 0, 0, 0, 0xff, 0xff, 10, 9, 9, 9,
		0xc3, 0xcb, 0x63, 0xde}
	zz.Assert(len(got) >= len(hdr) && bytes.Equal(got[:len(hdr)], hdr), "the PROXY protocol header does not carry the client's real address (the one the listener's wrapper reports)")
	rest := got[len(hdr):]
	want := append(append(append([]byte{byte(len(original))}, original...), buffered...), later...)
	zz.Assert(bytes.Equal(rest, want), "the backend did not receive the handshake and the client's bytes behind the PROXY header")
	zz.Reach("proxied-client")
}

func VerifMutant_Forward() {
	zzFixedClock()
	sm := NewStrategyManager()
	client := &zzFwdClient{conn: &zzPipeConn{remote: &net.TCPAddr{IP: net.IPv4(1, 2, 3, 4), Port: 5}}}
	d := &zzDialer{}
	d.install()
	hs := &packet.Handshake{ServerAddress: "a.b"}
	pc := &proto.PacketContext{Payload: []byte{0, 1}}
	Forward(time.Second, []config.Route{{Host: []string{"a.b"}, Backend: []string{"x:1"}}}, logr.Discard(), client, hs, pc, sm)
	zz.Assert(len(d.backends["x:1"].out) == 0, "control: the handshake frame must reach the backend")
}
