package codec

import (
	"bytes"
	"errors"
	"io"

	"github.com/go-logr/logr"
	"go.minekube.com/gate/pkg/gate/proto"
	zz "go.minekube.com/gate/pkg/internal/zzverif"
)

// zzInflater stands in for compress/zlib's reader: it yields an arbitrary number of arbitrary bytes
// and then EOF, or fails with a corruption error. Whether real DEFLATE data inflates to this or that is
// outside the claim; what is decided is what the decoder does with every possible inflate outcome.
type zzInflater struct {
	out     []byte
	corrupt bool
	pos     int
	src     io.Reader
}

func (z *zzInflater) Read(p []byte) (int, error) {
	if z.corrupt {
		return 0, errors.New("zlib: invalid header")
	}
	if z.pos >= len(z.out) {
		return 0, io.EOF
	}
	n := copy(p, z.out[z.pos:])
	z.pos += n
	return n, nil
}
func (z *zzInflater) Close() error { return nil }
func (z *zzInflater) Reset(r io.Reader, dict []byte) error {
	z.src = r
	z.pos = 0
	return nil
}

// zzRefVarInt decodes a VarInt (at most 5 bytes) the way vanilla/Velocity do; ok=false if malformed or truncated.
func zzRefVarInt(b []byte) (v int32, n int, ok bool) {
	var u uint32
	for i := 0; i < 5; i++ {
		if i >= len(b) {
			return 0, 0, false
		}
		u |= uint32(b[i]&0x7f) << (7 * uint(i))
		if b[i]&0x80 == 0 {
			return int32(u), i + 1, true
		}
	}
	return 0, 0, false
}

// zzRefFrame is the Velocity acceptance rule (MinecraftVarintFrameDecoder + MinecraftCompressDecoder)
// for the first frame of stream: ok=false means "reject / error", skip means a zero-length frame.
func zzRefFrame(stream []byte, compression bool, threshold int, serverbound bool, inflated []byte, corrupt bool) (payload []byte, ok, skip bool) {
	length, n, good := zzRefVarInt(stream)
	if !good || length < 0 || length > 1<<21-1 {
		return nil, false, false
	}
	if length == 0 {
		return nil, true, true
	}
	if len(stream)-n < int(length) {
		return nil, false, false // stream ends inside the frame
	}
	frame := stream[n : n+int(length)]
	if !compression {
		return frame, true, false
	}
	claimed, m, good := zzRefVarInt(frame)
	if !good {
		return nil, false, false
	}
	body := frame[m:]
	if claimed == 0 {
		if len(body) > threshold {
			return nil, false, false
		}
		return body, true, false
	}
	maxSize := 8 * 1024 * 1024
	if serverbound {
		maxSize = 2 * 1024 * 1024
	}
	if claimed < 0 || int(claimed) < threshold || int(claimed) > maxSize {
		return nil, false, false
	}
	if corrupt || len(inflated) != int(claimed) {
		return nil, false, false
	}
	return inflated, true, false
}

// zzNativeNeedsInflater: a native replay runs the real zlib reader; it is faithful only when the frame
// never reaches inflation (the inflater stub exists in the symbolic run only).
func zzNativeNeedsInflater(stream []byte, compression bool, threshold int, serverbound bool) {
	if !zz.Native() || !compression {
		return
	}
	// with an inflater that always yields exactly the claimed size the reference accepts iff inflation is reached
	length, n, good := zzRefVarInt(stream)
	if !good || length <= 0 || len(stream)-n < int(length) {
		return
	}
	claimed, _, good := zzRefVarInt(stream[n : n+int(length)])
	if good && claimed > 0 {
		zz.NativeUnsupported("the counterexample depends on the inflate outcome, which only the symbolic inflater stub provides")
	}
}

func zzMinimalVarInt(b []byte) bool {
	// the length prefix is minimally encoded: its last byte is not a redundant zero group
	_, n, ok := zzRefVarInt(b)
	return ok && (n == 1 || b[n-1] != 0)
}

func zzDecoder(stream []byte, serverbound bool) *Decoder {
	dir := proto.ClientBound
	if serverbound {
		dir = proto.ServerBound
	}
	return NewDecoder(bytes.NewReader(stream), dir, logr.Discard())
}

// Hostile stream of up to 7 (quick) / 8 (thorough) arbitrary bytes with a minimally encoded length
// prefix: accept/reject and the payload equal Velocity's, no panic, bounded allocation.
func VerifHarness_HostileStream() {
	max := 7
	if zz.Thorough() {
		max = 8
	}
	zz.MaxLen(max)
	zz.Unwind(24)
	stream := zz.Bytes(1 + zz.Choose(max))
	zz.Assume(zzMinimalVarInt(stream))
	serverbound := zz.Bool()
	compression := zz.Bool()
	threshold := zz.Int()
	zz.Assume(threshold >= 0 && threshold <= 1<<20)
	infl := &zzInflater{out: zz.Bytes(zz.Choose(4)), corrupt: zz.Bool()}
	zz.ReplaceSym("compress/zlib.NewReader", func(r io.Reader) (io.ReadCloser, error) { infl.src = r; return infl, nil })
	d := zzDecoder(stream, serverbound)
	if compression {
		d.SetCompressionThreshold(threshold)
	}
	capBytes := 8 * 1024 * 1024
	if serverbound {
		capBytes = 2 * 1024 * 1024
	}
	zz.AllocCap(capBytes)
	zzNativeNeedsInflater(stream, compression, threshold, serverbound)
	payload, _, err := d.readPayload()
	want, ok, skip := zzRefFrame(stream, compression, threshold, serverbound, infl.out, infl.corrupt)
	switch {
	case skip:
		zz.Assert(err == nil && len(payload) == 0, "a zero-length frame was not skipped")
		zz.Reach("skip")
	case ok:
		zz.Assert(err == nil, "a frame Velocity accepts was rejected")
		zz.Assert(bytes.Equal(payload, want), "the decoded payload differs from Velocity's")
		zz.Reach("accept")
	default:
		zz.Assert(err != nil, "a frame Velocity rejects was accepted (negative/too small/too large claimed size, body not inflating to exactly the claimed size, oversized uncompressed frame, or truncated frame)")
		zz.Reach("reject")
	}
}

// Crafted prefixes: the frame-length and claimed-size VarInts are fully symbolic 5-byte encodings
// (every int32, minimal or not) with at most 2 bytes behind them: nothing larger than 2^21-1 bytes is
// allocated for a frame, nothing above the direction cap for a decompressed packet, no panic, and
// the verdict for the claimed size follows the rules.
func VerifHarness_CraftedSizes() {
	zz.MaxLen(12)
	zz.Unwind(24)
	serverbound := zz.Bool()
	threshold := zz.Int()
	zz.Assume(threshold >= 0 && threshold <= 1<<20)
	// frame = claimed-size VarInt (symbolic, up to 5 bytes) + up to 2 body bytes, wrapped in a correct length prefix
	cl := zz.Bytes(1 + zz.Choose(5))
	body := zz.Bytes(zz.Choose(3))
	frame := append(append([]byte{}, cl...), body...)
	stream := append([]byte{byte(len(frame))}, frame...)
	infl := &zzInflater{out: zz.Bytes(zz.Choose(3)), corrupt: zz.Bool()}
	zz.ReplaceSym("compress/zlib.NewReader", func(r io.Reader) (io.ReadCloser, error) { infl.src = r; return infl, nil })
	d := zzDecoder(stream, serverbound)
	d.SetCompressionThreshold(threshold)
	capBytes := 8 * 1024 * 1024
	if serverbound {
		capBytes = 2 * 1024 * 1024
	}
	zz.AllocCap(capBytes)
	zzNativeNeedsInflater(stream, true, threshold, serverbound)
	payload, _, err := d.readPayload()
	want, ok, _ := zzRefFrame(stream, true, threshold, serverbound, infl.out, infl.corrupt)
	if ok {
		zz.Assert(err == nil && bytes.Equal(payload, want), "a frame Velocity accepts was rejected or decoded differently")
		zz.Reach("crafted-accept")
	} else {
		zz.Assert(err != nil, "a frame with a claimed size Velocity rejects was accepted")
		zz.Reach("crafted-reject")
	}
}

// The announced frame length itself: every int32 as a 5-byte (or shorter) VarInt with no body.
func VerifHarness_CraftedFrameLength() {
	zz.MaxLen(6)
	zz.Unwind(24)
	stream := zz.Bytes(1 + zz.Choose(6))
	d := zzDecoder(stream, zz.Bool())
	zz.AllocCap(1<<21 - 1)
	payload, n, err := d.readPayload()
	length, vn, good := zzRefVarInt(stream)
	switch {
	case !good || length < 0 || length > 1<<21-1:
		zz.Assert(err != nil, "a malformed, negative or oversized frame length was accepted")
		zz.Reach("bad-length")
	case length == 0:
		zz.Assert(err == nil && len(payload) == 0 && n == vn, "an empty frame was not skipped")
		zz.Reach("empty-frame")
	case len(stream)-vn < int(length):
		zz.Assert(err != nil, "a truncated frame was accepted")
		zz.Reach("truncated-frame")
	default:
		zz.Assert(err == nil && bytes.Equal(payload, stream[vn:vn+int(length)]), "a complete frame was not returned as is")
		zz.Reach("whole-frame")
	}
}

// The inflate contract in isolation: for every small claimed size and every inflate outcome the body
// is accepted exactly when it inflates to exactly the claimed size (not fewer, not more, not corrupt),
// and then yields exactly those bytes.
func VerifHarness_InflateExact() {
	zz.MaxLen(8)
	zz.Unwind(48)
	claimed := 1 + zz.Choose(4)
	infl := &zzInflater{out: zz.Bytes(zz.Choose(7)), corrupt: zz.Bool()}
	zz.ReplaceSym("compress/zlib.NewReader", func(r io.Reader) (io.ReadCloser, error) { infl.src = r; return infl, nil })
	if zz.Native() {
		zz.NativeUnsupported("the inflate outcome is provided by the symbolic inflater stub")
	}
	d := zzDecoder(nil, zz.Bool())
	d.SetCompressionThreshold(zz.Choose(2))
	if zz.Bool() {
		// a second frame on the same connection reuses the zlib reader (Reset path)
		_, _ = d.decompress(claimed, bytes.NewReader([]byte{0x78, 0x9c}))
	}
	got, err := d.decompress(claimed, bytes.NewReader([]byte{0x78, 0x9c}))
	if !infl.corrupt && len(infl.out) == claimed {
		zz.Assert(err == nil && bytes.Equal(got, infl.out), "a body inflating to exactly the claimed size was rejected or altered")
		zz.Reach("inflate-exact")
	} else {
		zz.Assert(err != nil, "a body that does not inflate to exactly the claimed size (shorter, longer or corrupt) was accepted")
		zz.Reach("inflate-mismatch")
	}
}

func VerifMutant_HostileStream() {
	// control: a frame of exactly threshold+1 uncompressed bytes must be rejected
	stream := []byte{3, 0, 7, 7}
	d := zzDecoder(stream, true)
	d.SetCompressionThreshold(1)
	_, _, err := d.readPayload()
	zz.Assert(err == nil, "control: uncompressed frame above the threshold must be rejected")
}
