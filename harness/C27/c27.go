package resourcepack

import (
	"github.com/robinbraemer/event"
	"go.minekube.com/common/minecraft/component"
	"go.minekube.com/gate/pkg/edition/java/proto/packet"
	"go.minekube.com/gate/pkg/edition/java/proto/state"
	"go.minekube.com/gate/pkg/gate/proto"
	zz "go.minekube.com/gate/pkg/internal/zzverif"
	"go.minekube.com/gate/pkg/util/uuid"
)

// ---- fakes ----

type zzWriter struct{ packets []proto.Packet }

func (w *zzWriter) WritePacket(p proto.Packet) error { w.packets = append(w.packets, p); return nil }

type zzPlayer struct {
	protocol    proto.Protocol
	client      zzWriter
	backend     *zzWriter
	disconnects int
}

func (p *zzPlayer) ID() uuid.UUID                         { return uuid.UUID{1} }
func (p *zzPlayer) WritePacket(pk proto.Packet) error     { return p.client.WritePacket(pk) }
func (p *zzPlayer) BundleHandler() *BundleDelimiterHandler { return nil }
func (p *zzPlayer) State() *state.Registry                { return state.Play }
func (p *zzPlayer) Protocol() proto.Protocol              { return p.protocol }
func (p *zzPlayer) BackendInFlight() proto.PacketWriter {
	if p.backend == nil {
		return nil
	}
	return p.backend
}
func (p *zzPlayer) Disconnect(component.Component) { p.disconnects++ }

// zzEvents runs "parallel" events inline (one legal schedule of the real manager's goroutine) and
// records them; there are no subscribers.
type zzEvents struct{ fired []event.Event }

func (m *zzEvents) Subscribe(event.Event, int, event.HandlerFunc) func() { return func() {} }
func (m *zzEvents) Fire(e event.Event)                                  { m.fired = append(m.fired, e) }
func (m *zzEvents) FireParallel(e event.Event, after ...event.HandlerFunc) {
	m.fired = append(m.fired, e)
	for _, a := range after {
		a(e)
	}
}
func (m *zzEvents) Wait(...event.Event)               {}
func (m *zzEvents) HasSubscriber(...event.Event) bool { return false }
func (m *zzEvents) UnsubscribeAll(...event.Event) int { return 0 }

// ---- reference model of the pre-1.20.3 rules (from the statement and Velocity's LegacyResourcePackHandler) ----

type zzLegacyModel struct {
	forced117  bool // client is 1.17+: forced packs are always prompted
	queue      []*Info
	last       int // 0 = no accept/decline yet, 1 = accepted, 2 = declined
	prompts    []*Info
	events     int
	toBackend  int
	hasBackend bool
}

func (m *zzLegacyModel) report(q *Info) {
	if (q == nil || q.Origin != PluginOnProxyOrigin) && m.hasBackend {
		m.toBackend++
	}
}

func (m *zzLegacyModel) tick() {
	if len(m.queue) == 0 {
		return
	}
	if m.last == 2 {
		for len(m.queue) > 0 {
			h := m.queue[0]
			if h.ShouldForce && m.forced117 {
				break
			}
			// auto-decline: behaves like a declined response for the head
			m.queue = m.queue[1:]
			m.events++
			m.report(h)
		}
		if len(m.queue) == 0 {
			return
		}
	}
	m.prompts = append(m.prompts, m.queue[0])
}

func (m *zzLegacyModel) enqueue(i *Info) {
	m.queue = append(m.queue, i)
	if len(m.queue) == 1 {
		m.tick()
	}
}

func (m *zzLegacyModel) response(st ResponseStatus) {
	var head *Info
	if len(m.queue) > 0 {
		head = m.queue[0]
		if !st.Intermediate() {
			m.queue = m.queue[1:]
		}
		m.events++
	}
	switch st {
	case AcceptedResponseStatus:
		m.last = 1
	case DeclinedResponseStatus:
		m.last = 2
	}
	if !st.Intermediate() {
		m.tick()
	}
	m.report(head)
}

func zzInfo(n int) *Info {
	i := &Info{URL: "u", ShouldForce: zz.Bool()}
	i.ID[0] = byte(n + 1)
	if zz.Bool() {
		i.Origin = DownstreamServerOrigin
	}
	return i
}

func zzStatus() ResponseStatus {
	s := zz.Int()
	zz.Assume(s >= 0 && s <= 7)
	return ResponseStatus(s)
}

// zzLegacySequence drives a pre-1.20.3 handler with a symbolic operation sequence and compares what the
// client and the backend see with the reference model after every call. Every call must return: a
// re-entrant Lock is reported by the engine's lock monitor as a deadlock.
func zzLegacySequence(h Handler, pl *zzPlayer, ev *zzEvents, forced117 bool, steps int) {
	m := &zzLegacyModel{forced117: forced117, hasBackend: pl.backend != nil}
	n := 0
	for s := 0; s < steps; s++ {
		switch zz.Choose(3) {
		case 0:
			i := zzInfo(n)
			n++
			err := h.QueueResourcePack(i)
			zz.Assert(err == nil, "queueing a resource pack failed")
			m.enqueue(i)
		case 1:
			st := zzStatus()
			_, err := h.OnResourcePackResponse(&ResponseBundle{Status: st})
			zz.Assert(err == nil, "handling a resource pack response failed")
			m.response(st)
		case 2:
			// forgetting the applied pack (sent on a 1.20.2 server switch) touches neither the queue nor
			// the prompt that is still open
			h.ClearAppliedResourcePacks()
		}
		// what the client was prompted with, in order
		zz.Assert(len(pl.client.packets) == len(m.prompts), "the number of resource pack prompts sent to the client differs from the rules (one outstanding prompt at a time, auto-decline only after a client decline, forced packs on 1.17+ always prompted)")
		for k, pk := range pl.client.packets {
			req, ok := pk.(*packet.ResourcePackRequest)
			zz.Assert(ok && req.ID == m.prompts[k].ID && req.Required == m.prompts[k].ShouldForce, "resource packs were not prompted in queue order")
		}
		zz.Assert(len(ev.fired) == m.events, "the number of resource pack status events differs from the number of responses and auto-declines")
		if pl.backend != nil {
			zz.Assert(len(pl.backend.packets) == m.toBackend, "responses reported to the backend differ: backend-originated packs are reported, proxy-originated are not")
		}
		// at most one prompt is outstanding: prompts never run ahead of the answered packs by more than one
		answered := n - len(m.queue)
		zz.Assert(len(pl.client.packets) <= answered+1, "more than one resource pack prompt is outstanding")
	}
}

func zzBackend() *zzWriter {
	if zz.Bool() {
		return &zzWriter{}
	}
	return nil
}

// Clients before 1.17 (legacy handler).
func VerifHarness_LegacyHandler() {
	pl := &zzPlayer{protocol: 340, backend: zzBackend()} // 1.12.2
	ev := &zzEvents{}
	h := NewHandler(pl, ev)
	_, isLegacy := h.(*legacyHandler)
	zz.Assert(isLegacy, "a 1.12.2 client did not get the legacy handler")
	steps := 3
	if zz.Thorough() {
		steps = 4
	}
	zzLegacySequence(h, pl, ev, false, steps)
	zz.Reach("legacy")
}

// Clients 1.17 .. 1.20.2.
func VerifHarness_Legacy117Handler() {
	pl := &zzPlayer{protocol: 755, backend: zzBackend()} // 1.17
	if zz.Bool() {
		pl.protocol = 764 // 1.20.2
	}
	ev := &zzEvents{}
	h := NewHandler(pl, ev)
	_, is117 := h.(*legacy117Handler)
	zz.Assert(is117, "a 1.17-1.20.2 client did not get the 1.17 handler")
	steps := 3
	if zz.Thorough() {
		steps = 4
	}
	zzLegacySequence(h, pl, ev, true, steps)
	zz.Reach("legacy117")
}

// 1.20.3+: packs are tracked per id.
func VerifHarness_ModernHandler() {
	pl := &zzPlayer{protocol: 765, backend: zzBackend()}
	ev := &zzEvents{}
	h := NewHandler(pl, ev)
	_, isModern := h.(*modernHandler)
	zz.Assert(isModern, "a 1.20.3 client did not get the modern handler")
	steps := 3
	if zz.Thorough() {
		steps = 4
	}
	// per-id reference: queue per id, prompt when an id's queue becomes non-empty or its head is answered
	queues := map[byte][]*Info{}
	prompts, toBackend := 0, 0
	applied := map[byte]*Info{}
	for s := 0; s < steps; s++ {
		id := byte(1 + zz.Choose(2))
		var uid uuid.UUID
		uid[0] = id
		switch zz.Choose(4) {
		case 0:
			i := &Info{URL: "u", ID: uid, ShouldForce: zz.Bool()}
			if zz.Bool() {
				i.Origin = DownstreamServerOrigin
			}
			zz.Assert(h.QueueResourcePack(i) == nil, "queueing a resource pack failed")
			queues[id] = append(queues[id], i)
			if len(queues[id]) == 1 {
				prompts++
			}
		case 1:
			st := zzStatus()
			_, err := h.OnResourcePackResponse(&ResponseBundle{ID: uid, Status: st})
			zz.Assert(err == nil, "handling a resource pack response failed")
			var head *Info
			if q := queues[id]; len(q) > 0 {
				head = q[0]
				if !st.Intermediate() {
					queues[id] = q[1:]
					if len(queues[id]) > 0 {
						prompts++
					}
				}
			}
			rep := head
			switch st {
			case SuccessfulResponseStatus:
				if head != nil {
					applied[id] = head
				} else if a, ok := applied[id]; ok {
					rep = a
				}
			case DiscardedResponseStatus:
				delete(applied, id)
			}
			if (rep == nil || rep.Origin != PluginOnProxyOrigin) && pl.backend != nil {
				toBackend++
			}
		case 2:
			h.Remove(uid)
			delete(queues, id)
			delete(applied, id)
		case 3:
			h.ClearAppliedResourcePacks()
			queues = map[byte][]*Info{}
			applied = map[byte]*Info{}
		}
		zz.Assert(len(pl.client.packets) == prompts, "modern handler: prompts sent to the client differ from per-id queueing")
		if pl.backend != nil {
			zz.Assert(len(pl.backend.packets) == toBackend, "modern handler: responses reported to the backend differ")
		}
		zz.Assert(len(h.AppliedResourcePacks()) == len(applied), "modern handler: applied packs are not tracked per id")
	}
	zz.Reach("modern")
}

func VerifMutant_LegacyOrder() {
	pl := &zzPlayer{protocol: 755}
	ev := &zzEvents{}
	h := NewHandler(pl, ev)
	a, b := zzInfo(0), zzInfo(1)
	_ = h.QueueResourcePack(a)
	_ = h.QueueResourcePack(b)
	zz.Assert(len(pl.client.packets) == 2, "control: the second pack must wait for the first prompt's answer")
}
