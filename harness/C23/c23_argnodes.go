package brigadier

import (
	"bytes"
	"encoding/binary"
	"math"

	"go.minekube.com/brigodier"
	"go.minekube.com/gate/pkg/edition/java/proto/version"
	"go.minekube.com/gate/pkg/gate/proto"
	zz "go.minekube.com/gate/pkg/internal/zzverif"
)

// ---- C23: what a vanilla client understands from the bytes ----

type zzMeaning struct {
	parser     string
	imin, imax int64
	fmin, fmax uint64
	text       string
	flags      byte
	ok         bool
}

var zzParsers = []string{
	"brigadier:bool", "brigadier:float", "brigadier:double", "brigadier:integer", "brigadier:long", "brigadier:string",
	"minecraft:entity", "minecraft:score_holder", "minecraft:time",
	"minecraft:resource_or_tag", "minecraft:resource_or_tag_key", "minecraft:resource", "minecraft:resource_key", "minecraft:resource_selector",
	"minecraft:uuid", "minecraft:color", "minecraft:gamemode", "minecraft:item_slots", "minecraft:team_color",
}

// reference reader of a parser's properties as the vanilla client reads them
func zzVanillaProps(parser string, rd *bytes.Reader, p proto.Protocol) (m zzMeaning) {
	m.parser = parser
	u8 := func() byte {
		c, err := rd.ReadByte()
		if err != nil {
			m.ok = false
		}
		return c
	}
	be := func(n int) uint64 {
		var v uint64
		for i := 0; i < n; i++ {
			v = v<<8 | uint64(u8())
		}
		return v
	}
	m.ok = true
	switch parser {
	case "brigadier:float":
		f := u8()
		m.fmin, m.fmax = uint64(math.Float32bits(-math.MaxFloat32)), uint64(math.Float32bits(math.MaxFloat32))
		if f&1 != 0 {
			m.fmin = be(4)
		}
		if f&2 != 0 {
			m.fmax = be(4)
		}
	case "brigadier:double":
		f := u8()
		m.fmin, m.fmax = math.Float64bits(-math.MaxFloat64), math.Float64bits(math.MaxFloat64)
		if f&1 != 0 {
			m.fmin = be(8)
		}
		if f&2 != 0 {
			m.fmax = be(8)
		}
	case "brigadier:integer":
		f := u8()
		m.imin, m.imax = math.MinInt32, math.MaxInt32
		if f&1 != 0 {
			m.imin = int64(int32(be(4)))
		}
		if f&2 != 0 {
			m.imax = int64(int32(be(4)))
		}
	case "brigadier:long":
		f := u8()
		m.imin, m.imax = math.MinInt64, math.MaxInt64
		if f&1 != 0 {
			m.imin = int64(be(8))
		}
		if f&2 != 0 {
			m.imax = int64(be(8))
		}
	case "brigadier:string":
		m.flags = u8() // 0..2, one VarInt byte
	case "minecraft:entity", "minecraft:score_holder":
		m.flags = u8()
	case "minecraft:time":
		if p.GreaterEqual(version.Minecraft_1_19_4) {
			m.imin = int64(int32(be(4)))
		}
	case "minecraft:resource_or_tag", "minecraft:resource_or_tag_key", "minecraft:resource", "minecraft:resource_key", "minecraft:resource_selector":
		n := int(u8())
		for i := 0; i < n && m.ok; i++ {
			m.text += string([]byte{u8()})
		}
	}
	return m
}

// reference reader of parser identifier + properties
func zzVanillaArg(raw []byte, p proto.Protocol) (zzMeaning, int) {
	rd := bytes.NewReader(raw)
	name := ""
	if p.GreaterEqual(version.Minecraft_1_19) {
		c, _ := rd.ReadByte() // ids of the listed parsers are below 128 in every version
		for _, cand := range zzParsers {
			if id, ok := registry.byIdentifier[cand].idByProtocol[p]; ok && id == int(c) {
				name = cand
			}
		}
	} else {
		n, _ := rd.ReadByte()
		s := make([]byte, n)
		rd.Read(s)
		name = string(s)
	}
	m := zzVanillaProps(name, rd, p)
	return m, rd.Len()
}

// C23 ("all other backend nodes are kept unchanged"), at the level of one argument node: whatever
// parser and properties a backend announces, the node the proxy passes on means the same to a
// vanilla client - same parser, same effective bounds, same flags, same registry.
func VerifHarness_BackendArgumentNodesKeepTheirMeaning() {
	zz.MaxLen(2)
	p := zzProtocol()
	parser := zzParsers[zz.Choose(len(zzParsers))]
	var in bytes.Buffer
	if p.GreaterEqual(version.Minecraft_1_19) {
		id, ok := registry.byIdentifier[parser].idByProtocol[p]
		if !ok || id < 0 {
			zz.Reach("parser-not-in-version")
			return
		}
		in.WriteByte(byte(id))
	} else {
		if parser == "minecraft:team_color" || parser == "minecraft:item_slots" || parser == "minecraft:resource_selector" || parser == "minecraft:gamemode" {
			return // not known to these versions
		}
		in.WriteByte(byte(len(parser)))
		in.WriteString(parser)
	}
	num := func(n int, v uint64) {
		var s [8]byte
		binary.BigEndian.PutUint64(s[:], v)
		in.Write(s[8-n:])
	}
	switch parser {
	case "brigadier:float":
		f := byte(zz.Choose(4))
		in.WriteByte(f)
		if f&1 != 0 {
			num(4, uint64(zzF32[zz.Choose(len(zzF32))]))
		}
		if f&2 != 0 {
			num(4, uint64(zzF32[zz.Choose(len(zzF32))]))
		}
	case "brigadier:double":
		f := byte(zz.Choose(4))
		in.WriteByte(f)
		if f&1 != 0 {
			num(8, zzF64[zz.Choose(len(zzF64))])
		}
		if f&2 != 0 {
			num(8, zzF64[zz.Choose(len(zzF64))])
		}
	case "brigadier:integer":
		f := byte(zz.Choose(4))
		in.WriteByte(f)
		if f&1 != 0 {
			num(4, uint64(zz.Uint32()))
		}
		if f&2 != 0 {
			num(4, uint64(zz.Uint32()))
		}
	case "brigadier:long":
		f := byte(zz.Choose(4))
		in.WriteByte(f)
		if f&1 != 0 {
			num(8, zz.Uint64())
		}
		if f&2 != 0 {
			num(8, zz.Uint64())
		}
	case "brigadier:string":
		in.WriteByte(byte(zz.Choose(3)))
	case "minecraft:entity":
		in.WriteByte(byte(zz.Choose(4)))
	case "minecraft:score_holder":
		in.WriteByte(zz.Byte())
	case "minecraft:time":
		if p.GreaterEqual(version.Minecraft_1_19_4) {
			num(4, uint64(zz.Uint32()))
		}
	case "minecraft:resource_or_tag", "minecraft:resource_or_tag_key", "minecraft:resource", "minecraft:resource_key", "minecraft:resource_selector":
		s := zz.String(zz.Choose(3))
		for i := 0; i < len(s); i++ {
			zz.Assume(s[i] < 0x80)
		}
		in.WriteByte(byte(len(s)))
		in.WriteString(s)
	}
	want, left := zzVanillaArg(in.Bytes(), p)
	zz.Assert(want.ok && left == 0 && want.parser == parser, "harness: the reference does not read what the harness wrote")

	rd := bytes.NewReader(in.Bytes())
	node, err := Decode(rd, p)
	zz.Assert(err == nil, "a well-formed argument node of a backend was refused")
	zz.Assert(rd.Len() == 0, "decoding a backend's argument node leaves bytes unread (the rest of the tree is mis-read)")
	var out bytes.Buffer
	zz.Assert(Encode(&out, node, p) == nil, "a backend's argument node cannot be passed on")
	got, left := zzVanillaArg(out.Bytes(), p)
	zz.Assert(got.ok && left == 0, "the argument node passed on is not readable by a vanilla client")
	zz.Assert(got.parser == want.parser, "a backend's argument node is passed on with another parser")
	zz.Assert(got.imin == want.imin && got.imax == want.imax, "a backend's integer argument is passed on with other effective bounds")
	zz.Assert(got.fmin == want.fmin && got.fmax == want.fmax, "a backend's float argument is passed on with other effective bounds")
	zz.Assert(got.flags == want.flags && got.text == want.text, "a backend's argument node is passed on with other properties")
	zz.Reach("backend-arg-node")
}

func VerifMutant_BackendArgumentNodesKeepTheirMeaning() {
	p := proto.Protocol(767)
	id := registry.byIdentifier["brigadier:integer"].idByProtocol[p]
	raw := []byte{byte(id), 1, 0, 0, 0, zz.Byte()}
	node, err := Decode(bytes.NewReader(raw), p)
	zz.Assert(err == nil, "decode")
	node.(*brigodier.Int32ArgumentType).Min++ // control: a changed bound must be noticed
	var out bytes.Buffer
	zz.Assert(Encode(&out, node, p) == nil, "encode")
	got, _ := zzVanillaArg(out.Bytes(), p)
	want, _ := zzVanillaArg(raw, p)
	zz.Assert(got.imin == want.imin, "control")
}
