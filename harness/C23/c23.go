package proxy

import (
	"context"

	"github.com/go-logr/logr"
	"go.minekube.com/brigodier"
	"go.minekube.com/gate/pkg/edition/java/config"
	"go.minekube.com/gate/pkg/edition/java/proto/packet"
	"go.minekube.com/gate/pkg/edition/java/proto/state"
	zz "go.minekube.com/gate/pkg/internal/zzverif"
)

// zzReq is a requirement whose verdict for this player is a symbolic boolean; every evaluation is counted.
type zzReq struct {
	name  string
	allow bool
	hits  int
}

func (r *zzReq) fn() brigodier.RequireFn {
	return func(context.Context) bool { r.hits++; return r.allow }
}

func zzReqs(names ...string) map[string]*zzReq {
	m := map[string]*zzReq{}
	for _, n := range names {
		m[n] = &zzReq{name: n, allow: zz.Bool()}
	}
	return m
}

var zzRun = brigodier.CommandFunc(func(*brigodier.CommandContext) error { return nil })

// The proxy's command tree:
//
//	a ── a1 ── x (argument)
//	 └── a2 (optionally redirects to b)
//	b ── b1
//	c
//
// every node has its own requirement.
func zzProxyTree(r map[string]*zzReq, a2Redirects bool) *brigodier.Dispatcher {
	d := &brigodier.Dispatcher{}
	b := d.Register(brigodier.Literal("b").Requires(r["b"].fn()).Executes(zzRun).
		Then(brigodier.Literal("b1").Requires(r["b1"].fn()).Executes(zzRun)))
	a2 := brigodier.Literal("a2").Requires(r["a2"].fn())
	if a2Redirects {
		a2.Redirect(b)
	} else {
		a2.Executes(zzRun)
	}
	d.Register(brigodier.Literal("a").Requires(r["a"].fn()).
		Then(brigodier.Literal("a1").Requires(r["a1"].fn()).
			Then(brigodier.Argument("x", brigodier.String).Requires(r["x"].fn()).Executes(zzRun))).
		Then(a2))
	d.Register(brigodier.Literal("c").Requires(r["c"].fn()).Executes(zzRun))
	return d
}

// zzVisible says which proxy nodes the player must see: a node is visible iff its own requirement and
// those of all its ancestors pass.
func zzVisible(r map[string]*zzReq) map[string]bool {
	v := map[string]bool{}
	v["a"] = r["a"].allow
	v["a1"] = v["a"] && r["a1"].allow
	v["x"] = v["a1"] && r["x"].allow
	v["a2"] = v["a"] && r["a2"].allow
	v["b"] = r["b"].allow
	v["b1"] = v["b"] && r["b1"].allow
	v["c"] = r["c"].allow
	return v
}

func zzChild(n brigodier.CommandNode, name string) brigodier.CommandNode {
	if n == nil {
		return nil
	}
	return n.Children()[name]
}

// zzCheckSubtree checks the copy of proxy node `name` (children kids) under parent.
func zzCheckNode(parent brigodier.CommandNode, name string, visible bool) brigodier.CommandNode {
	n := zzChild(parent, name)
	if !visible {
		zz.Assert(n == nil, "the player received a proxy command node it does not pass the requirement for")
		return nil
	}
	zz.Assert(n != nil, "a proxy command node the player may use is missing from the tree it received")
	zz.Assert(n.CanUse(context.Background()), "a received proxy node still carries a requirement the client-side tree cannot evaluate")
	return n
}

// filterNode on the proxy's tree, for every combination of requirement verdicts: the result contains
// exactly the nodes whose requirement (and whose ancestors' requirements) the player passes, at every
// depth, with the same names, commands and redirect; the proxy's own tree is left untouched.
func VerifHarness_FilterNode() {
	r := zzReqs("a", "a1", "x", "a2", "b", "b1", "c")
	redir := zz.Bool()
	d := zzProxyTree(r, redir)
	pl := &connectedPlayer{log: logr.Discard()}
	root := filterNode(&d.Root, pl)
	zz.Assert(root != nil, "filtering the root produced nothing")
	_, isRoot := root.(*brigodier.RootCommandNode)
	zz.Assert(isRoot, "the filtered root is not a root node")
	v := zzVisible(r)
	a := zzCheckNode(root, "a", v["a"])
	a1 := zzCheckNode(a, "a1", v["a1"])
	x := zzCheckNode(a1, "x", v["x"])
	a2 := zzCheckNode(a, "a2", v["a2"])
	b := zzCheckNode(root, "b", v["b"])
	b1 := zzCheckNode(b, "b1", v["b1"])
	c := zzCheckNode(root, "c", v["c"])
	n := 0
	for _, k := range []string{"a", "b", "c"} {
		if v[k] {
			n++
		}
	}
	zz.Assert(len(root.Children()) == n, "the filtered root has children that are not proxy commands the player may use")
	if a != nil {
		zz.Assert(a.Command() == nil, "a node without a command got one")
	}
	if x != nil {
		_, isArg := x.(*brigodier.ArgumentCommandNode)
		zz.Assert(isArg && x.Command() != nil && len(x.Children()) == 0, "the argument node was not copied faithfully")
		zz.Reach("deep-argument")
	}
	if a2 != nil {
		if redir {
			// the redirect target is itself filtered: the player sees it only if it may use b
			if v["b"] {
				zz.Assert(a2.Redirect() != nil && a2.Redirect().Name() == "b", "the redirect of a visible node was lost")
				zz.Assert((zzChild(a2.Redirect(), "b1") != nil) == v["b1"], "the redirect target exposes a node the player may not use (or hides one it may)")
				zz.Reach("redirect")
			} else {
				zz.Assert(a2.Redirect() == nil, "a redirect leads to a proxy node the player does not pass the requirement for")
				zz.Reach("redirect-hidden")
			}
		} else {
			zz.Assert(a2.Redirect() == nil && a2.Command() != nil, "a plain node was not copied faithfully")
		}
	}
	if b1 != nil && c != nil {
		zz.Assert(b1.Command() != nil && c.Command() != nil, "a command was lost while filtering")
	}
	// the proxy's tree itself is unchanged
	zz.Assert(len(d.Root.Children()) == 3 && len(zzChild(&d.Root, "a").Children()) == 2 && zzChild(&d.Root, "a").Requirement() != nil, "filtering modified the proxy's own command tree")
	zz.Reach("filtered")
}

// The real handleAvailableCommands: the backend's tree (with or without a node that has the name of a
// proxy command) merged with the filtered proxy tree: proxy nodes replace backend nodes of the same
// name entirely, all other backend nodes are the very same nodes as before, and the packet written to
// the player carries that tree.
func VerifHarness_MergeIntoBackendTree() {
	r := zzReqs("a", "a1", "x", "a2", "b", "b1", "c")
	d := zzProxyTree(r, false)
	cfg := config.DefaultConfig
	cfg.AnnounceProxyCommands = zz.Bool()
	ev := &zzEvents{}
	px := zzProxy(&cfg, ev)
	px.command.Dispatcher = *d
	conn := newZZConn(767, state.Play)
	pl := &connectedPlayer{MinecraftConn: conn, log: logr.Discard(), sessionHandlerDeps: &sessionHandlerDeps{proxy: px, eventMgr: ev, configProvider: &zzConfigProvider{cfg: &cfg}}}
	h := &backendPlaySessionHandler{serverConn: &serverConnection{player: pl}}
	h.log = logr.Discard()

	// backend tree: "d" with a child, "say", and optionally its own "a" (child "srv") and "c"
	back := &brigodier.RootCommandNode{}
	dNode := brigodier.Literal("d").Then(brigodier.Literal("d1").Executes(zzRun)).Build()
	say := brigodier.Literal("say").Executes(zzRun).Build()
	back.AddChild(dNode, say)
	backendA, backendC := zz.Bool(), zz.Bool()
	var ownA, ownC brigodier.CommandNode
	if backendA {
		ownA = brigodier.Literal("a").Then(brigodier.Literal("srv").Executes(zzRun)).Build()
		back.AddChild(ownA)
	}
	if backendC {
		ownC = brigodier.Literal("c").Then(brigodier.Literal("srv").Executes(zzRun)).Build()
		back.AddChild(ownC)
	}
	p := &packet.AvailableCommands{RootNode: back}
	h.handleAvailableCommands(p)

	// what the player was sent
	var sent *packet.AvailableCommands
	for _, o := range conn.log {
		if ac, ok := o.packet.(*packet.AvailableCommands); ok {
			zz.Assert(sent == nil, "the command tree was sent twice")
			sent = ac
		}
	}
	zz.Assert(sent != nil, "the command tree was not passed on to the player")
	got := sent.RootNode
	zz.Assert(zzChild(got, "d") == dNode && zzChild(got, "say") == say && len(dNode.Children()) == 1, "a backend command that no proxy command shadows was changed or dropped")
	v := zzVisible(r)
	if !cfg.AnnounceProxyCommands {
		for k := range v {
			v[k] = false
		}
	}
	want := 2
	for _, k := range []string{"a", "b", "c"} {
		n := zzChild(got, k)
		own := brigodier.CommandNode(nil)
		if k == "a" {
			own = ownA
		} else if k == "c" {
			own = ownC
		}
		switch {
		case v[k]:
			want++
			zz.Assert(n != nil && n != own, "a proxy command the player may use is missing from the merged tree")
			zz.Assert(zzChild(n, "srv") == nil, "a backend node with the name of a proxy command was merged into it instead of being replaced")
			zz.Assert(n.CanUse(context.Background()), "a merged proxy node carries a requirement")
		case own != nil:
			want++
			zz.Assert(n == own && zzChild(n, "srv") != nil, "a backend command was changed although the player may not use the proxy command of that name")
		default:
			zz.Assert(n == nil, "the player received a proxy command it does not pass the requirement for")
		}
	}
	zz.Assert(len(got.Children()) == want, "the merged tree has unexpected top-level nodes")
	if v["a"] {
		zz.Assert((zzChild(zzChild(got, "a"), "a1") != nil) == v["a1"] && (zzChild(zzChild(got, "a"), "a2") != nil) == v["a2"], "a nested proxy node is visible although its requirement fails (or hidden although it passes)")
		zz.Assert((zzChild(zzChild(zzChild(got, "a"), "a1"), "x") != nil) == v["x"], "a nested proxy argument is visible although its requirement fails (or hidden although it passes)")
		zz.Reach("nested")
	}
	if backendA && v["a"] {
		zz.Reach("replaced-backend-node")
	}
	zz.Reach("merged")
}

// The backend announces its tree again later in the same session (world change, data pack reload):
// each announcement is merged with the proxy tree as the player may use it *then* - a requirement
// that meanwhile fails, or passes, and a command registered or removed in between are reflected.
func VerifHarness_LaterTreeFollowsCurrentRequirements() {
	r := zzReqs("a", "a1", "x", "a2", "b", "b1", "c")
	d := zzProxyTree(r, false)
	cfg := config.DefaultConfig
	cfg.AnnounceProxyCommands = true
	ev := &zzEvents{}
	px := zzProxy(&cfg, ev)
	px.command.Dispatcher = *d
	conn := newZZConn(767, state.Play)
	pl := &connectedPlayer{MinecraftConn: conn, log: logr.Discard(), sessionHandlerDeps: &sessionHandlerDeps{proxy: px, eventMgr: ev, configProvider: &zzConfigProvider{cfg: &cfg}}}
	h := &backendPlaySessionHandler{serverConn: &serverConnection{player: pl}}
	h.log = logr.Discard()
	tree := func() *packet.AvailableCommands {
		back := &brigodier.RootCommandNode{}
		back.AddChild(brigodier.Literal("say").Executes(zzRun).Build())
		return &packet.AvailableCommands{RootNode: back}
	}
	last := func() brigodier.CommandNode {
		zz.Assert(len(conn.log) > 0, "the command tree was not passed on to the player")
		ac, ok := conn.log[len(conn.log)-1].packet.(*packet.AvailableCommands)
		zz.Assert(ok, "the command tree was not passed on to the player")
		return ac.RootNode
	}
	h.handleAvailableCommands(tree())
	first := last()
	zz.Assert((zzChild(first, "c") != nil) == r["c"].allow && (zzChild(first, "b") != nil) == r["b"].allow, "the first tree does not follow the requirements")
	// between the announcements: the verdicts for b, b1 and c change, and a plugin registers a command
	r["b"].allow, r["b1"].allow, r["c"].allow = zz.Bool(), zz.Bool(), zz.Bool()
	late := zz.Bool()
	if late {
		px.command.Dispatcher.Register(brigodier.Literal("late").Executes(zzRun))
	}
	h.handleAvailableCommands(tree())
	second := last()
	zz.Assert(zzChild(second, "say") != nil, "a backend command was dropped from a later tree")
	zz.Assert((zzChild(second, "c") != nil) == r["c"].allow, "a later tree carries a proxy command the player no longer passes the requirement for (or lacks one it now passes)")
	zz.Assert((zzChild(second, "b") != nil) == r["b"].allow, "a later tree carries a proxy command the player no longer passes the requirement for (or lacks one it now passes)")
	if r["b"].allow {
		zz.Assert((zzChild(zzChild(second, "b"), "b1") != nil) == r["b1"].allow, "a later tree carries a nested proxy node the player no longer passes the requirement for (or lacks one it now passes)")
	}
	zz.Assert((zzChild(second, "late") != nil) == late, "a proxy command registered between two announcements is missing from the later tree")
	zz.Reach("second-tree")
}

func VerifMutant_Filter() {
	r := zzReqs("a", "a1", "x", "a2", "b", "b1", "c")
	d := zzProxyTree(r, false)
	root := filterNode(&d.Root, &connectedPlayer{log: logr.Discard()})
	zz.Assert(zzChild(root, "c") == nil, "control: a usable command is kept")
}
