package state

import (
	"go.minekube.com/gate/pkg/edition/java/proto/packet"
	"go.minekube.com/gate/pkg/edition/java/proto/state/states"
	"go.minekube.com/gate/pkg/edition/java/proto/version"
	"go.minekube.com/gate/pkg/gate/proto"
	zz "go.minekube.com/gate/pkg/internal/zzverif"
)

var zzStates = []*Registry{Handshake, Status, Login, Config, Play}

func zzDir(r *Registry, serverbound bool) *PacketRegistry {
	if serverbound {
		return r.ServerBound
	}
	return r.ClientBound
}

func zzBijective(pr *ProtocolRegistry) bool {
	if len(pr.PacketIDs) != len(pr.PacketTypes) {
		return false
	}
	for id, typ := range pr.PacketIDs {
		back, ok := pr.PacketTypes[typ]
		if !ok || back != id {
			return false
		}
	}
	return true
}

// The real tables (built by the package's init, i.e. by the real Register calls): for every state,
// direction and supported protocol, packet ids and packet types map one-to-one. These are concrete
// data walked by the engine; nothing here is symbolic.
func VerifHarness_TablesBijective() {
	zz.Unwind(100000)
	n := 0
	for _, st := range zzStates {
		for _, sb := range []bool{true, false} {
			reg := zzDir(st, sb)
			for _, v := range version.Versions {
				p := v.Protocol
				if version.Protocol(p).Legacy() || version.Protocol(p).Unknown() {
					continue
				}
				pr, ok := reg.Protocols[p]
				zz.Assert(ok && pr != nil && pr.Protocol == p, "a supported protocol version has no packet table")
				zz.Assert(zzBijective(pr), "a packet id maps to two packet types or a packet type to two ids")
				n++
			}
		}
	}
	zz.Assert(n > 100, "the tables were not walked")
	zz.Reach("tables")
}

// Lookup for an arbitrary protocol number: the version's own table when the proxy knows the version,
// otherwise the table of the lowest supported version.
func VerifHarness_UnknownProtocolFallsBack() {
	st := zzStates[zz.Choose(4)] // handshake, status, login, config; play: next harness
	zzFallback(zzDir(st, zz.Bool()))
}

// The same for the play state (kept apart: see known_findings.json).
func VerifHarness_UnknownProtocolFallsBackPlay() {
	zzFallback(zzDir(Play, zz.Bool()))
}

func zzFallback(reg *PacketRegistry) {
	p := proto.Protocol(zz.Int32())
	got := reg.ProtocolRegistry(p)
	known := false
	for _, v := range version.Versions {
		if !version.Protocol(v.Protocol).Legacy() && !version.Protocol(v.Protocol).Unknown() && v.Protocol == p {
			known = true
		}
	}
	zz.Assert(got != nil, "no packet table for a protocol number")
	if known {
		zz.Assert(got.Protocol == p, "a supported protocol does not get its own packet table")
		zz.Reach("own-table")
	} else {
		zz.Assert(got.Protocol == version.MinimumVersion.Protocol, "an unknown protocol does not fall back to the lowest supported version's table")
		zz.Reach("fallback-table")
	}
}

// One Register call on a fresh registry with a symbolic mapping list (ids and version boundaries):
// either it panics (conflicting or ill-ordered mappings) or afterwards every protocol's table is
// one-to-one and contains the type exactly in the versions of the mapped ranges, with the range's id.
func VerifHarness_RegisterStep() {
	zz.Unwind(100000)
	reg := NewPacketRegistry(states.PlayState, proto.ClientBound)
	// a prior registration occupying id 5 from 1.8 on
	reg.Register(&packet.KeepAlive{}, m(5, version.Minecraft_1_8))
	vs := []*proto.Version{version.Minecraft_1_7_2, version.Minecraft_1_8, version.Minecraft_1_12_2, version.Minecraft_1_16, version.Minecraft_1_19, version.Minecraft_1_21}
	n := 1 + zz.Choose(2)
	var ms []*PacketMapping
	var ids []proto.PacketID
	var from []proto.Protocol
	prev := -1
	for i := 0; i < n; i++ {
		k := zz.Choose(len(vs))
		zz.Assume(k > prev) // ascending version boundaries (other orders panic by design; see below)
		prev = k
		id := proto.PacketID(zz.Choose(8))
		ms = append(ms, m(id, vs[k]))
		ids = append(ids, id)
		from = append(from, vs[k].Protocol)
	}
	// optionally the last mapping ends at a "last valid" version (inclusive)
	last := proto.Protocol(1 << 30)
	if lk := zz.Choose(len(vs) + 1); lk < len(vs) {
		zz.Assume(lk >= prev)
		ms[n-1] = ml(ids[n-1], vs[prev], vs[lk])
		last = vs[lk].Protocol
		zz.Reach("register-last-valid")
	}
	panicked := zzCatch(func() { reg.Register(&packet.Disconnect{}, ms...) })
	// expected id per protocol
	conflict := false
	typ := proto.TypeOf(&packet.Disconnect{})
	for _, v := range version.Versions {
		p := v.Protocol
		if version.Protocol(p).Legacy() || version.Protocol(p).Unknown() {
			continue
		}
		want := -1
		for i := range from {
			if p >= from[i] {
				want = int(ids[i])
			}
		}
		if p > last {
			want = -1 // past the last valid version of the last mapping
		}
		if want == 5 && p >= version.Minecraft_1_8.Protocol {
			conflict = true
		}
		if !panicked {
			pr := reg.Protocols[p]
			zz.Assert(zzBijective(pr), "after Register a table is no longer one-to-one")
			got, has := pr.PacketTypes[typ]
			if want < 0 {
				zz.Assert(!has, "the packet type was registered for a version before its first mapping")
			} else {
				zz.Assert(has && int(got) == want, "the packet type does not carry the id of the mapping that covers the version")
			}
		}
	}
	zz.Assert(panicked == conflict, "Register accepted an id that is already taken in some version, or refused a conflict-free mapping list")
	if panicked {
		zz.Reach("register-refused")
	} else {
		zz.Reach("register-ok")
	}
}

func zzCatch(f func()) (panicked bool) {
	defer func() {
		if recover() != nil {
			panicked = true
		}
	}()
	f()
	return false
}

func VerifMutant_Tables() {
	p := proto.Protocol(zz.Int32())
	got := Play.ClientBound.ProtocolRegistry(p)
	zz.Assert(got.Protocol == p, "control: unknown protocols fall back")
}
