package packet

import (
	"bytes"

	"go.minekube.com/gate/pkg/gate/proto"
	zz "go.minekube.com/gate/pkg/internal/zzverif"
)

// A command tree packet from a backend with a crafted child graph: a root and two literal nodes whose
// child lists hold arbitrary indices (themselves, each other, the same index twice, out of range).
// Decoding returns a tree or an error; it never recurses without end (which is a fatal stack overflow,
// not a recoverable panic) and never panics.
func VerifHarness_CommandTreeChildGraph() {
	zz.Unwind(64)
	zz.MaxDepth(200) // three nodes: nothing legitimate nests anywhere near this deep
	var b bytes.Buffer
	b.WriteByte(3) // three nodes
	node := func(flags byte, name string) {
		b.WriteByte(flags)
		n := zz.Choose(3)
		b.WriteByte(byte(n))
		for i := 0; i < n; i++ {
			b.WriteByte(byte(zz.Choose(4))) // 0..2 valid, 3 out of range
		}
		if flags&3 == 1 {
			b.WriteByte(byte(len(name)))
			b.WriteString(name)
		}
	}
	node(0, "")      // root
	node(1|4, "a")   // literal, executable
	second := "b"
	if zz.Bool() {
		second = "a" // two nodes with one name are merged when they meet under one parent
	}
	node(1, second) // literal
	b.WriteByte(byte(zz.Choose(4))) // root index
	var p AvailableCommands
	err := p.Decode(&proto.PacketContext{Direction: proto.ClientBound, Protocol: 767}, bytes.NewReader(b.Bytes()))
	if err == nil {
		zz.Assert(p.RootNode != nil, "a command tree decoded without error has no root")
		zz.Reach("tree")
	} else {
		zz.Reach("rejected")
	}
}
