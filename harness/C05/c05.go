package codec

import (
	"bytes"
	"errors"
	"io"

	"github.com/go-logr/logr"
	"go.minekube.com/gate/pkg/edition/java/proto/state"
	"go.minekube.com/gate/pkg/edition/java/proto/util"
	"go.minekube.com/gate/pkg/gate/proto"
	zz "go.minekube.com/gate/pkg/internal/zzverif"
)

func zzStateReg(i int) *state.Registry {
	switch i {
	case 0:
		return state.Handshake
	case 1:
		return state.Status
	case 2:
		return state.Login
	case 3:
		return state.Config
	}
	return state.Play
}

// zzDecodeAny decodes an arbitrary payload in the given state/direction/protocol through the real
// decodePayload. It must return (a packet, an "unknown id" context, or an error): a panic escaping
// it, an unbounded loop (unwinding bound) or an allocation above the cap is reported by the engine.
func zzDecodeAny(st *state.Registry, serverbound bool, protocol proto.Protocol, payload []byte) (*proto.PacketContext, error) {
	dir := proto.ClientBound
	if serverbound {
		dir = proto.ServerBound
	}
	d := NewDecoder(bytes.NewReader(nil), dir, logr.Discard())
	d.SetState(st)
	d.SetProtocol(protocol)
	return d.decodePayload(payload)
}

// Handshake, status and login states, both directions, a symbolic protocol among a spread of supported
// versions (and an unknown one), every payload of up to 5 (quick) / 6 (thorough) arbitrary bytes.
func VerifHarness_DecodeEarlyStates() {
	max := 5
	if zz.Thorough() {
		max = 6
	}
	zz.MaxLen(max)
	zz.Unwind(200)
	zz.AllocCap(1 << 21) // the largest documented fixed cap: a 1.7 Forge extended array (ForgeMaxArrayLength, just under 2 MiB)
	st := zzStateReg(zz.Choose(3))
	protocols := []proto.Protocol{4, 47, 340, 759, 760, 761, 764, 766, 767, 776, 99999}
	protocol := protocols[zz.Choose(len(protocols))]
	payload := zz.Bytes(1 + zz.Choose(max))
	ctx, err := zzDecodeAny(st, zz.Bool(), protocol, payload)
	zz.Assert(ctx != nil || err != nil, "decoding returned neither a context nor an error")
	if err == nil && ctx.Packet != nil {
		zz.Reach("decoded")
	} else if err == nil {
		zz.Reach("unknown-id")
	} else {
		zz.Reach("error")
	}
}

// Crafted counts: a packet id followed by a 5-byte VarInt (every int32, also negative and huge) and
// nothing else, in the handshake, status and login states: never an allocation out of proportion to the (tiny) payload.
func VerifHarness_DecodeCraftedCounts() {
	zz.MaxLen(8)
	zz.Unwind(200)
	zz.AllocCap(1 << 21) // the largest documented fixed cap: a 1.7 Forge extended array (ForgeMaxArrayLength, just under 2 MiB)
	st := zzStateReg(zz.Choose(3))
	protocol := []proto.Protocol{4, 47, 340, 764, 767, 776}[zz.Choose(6)]
	payload := append([]byte{zz.Byte()}, zz.Bytes(5)...)
	zz.Assume(payload[0] < 0x10)
	ctx, err := zzDecodeAny(st, zz.Bool(), protocol, payload)
	zz.Assert(ctx != nil || err != nil, "decoding returned neither a context nor an error")
	zz.Reach("crafted")
}

func zzStubNBT() {
	// the third-party NBT decoder (go-mc, reflection driven) is outside the claim: a binary tag is
	// either rejected or an opaque value that consumed an arbitrary part of the remaining bytes
	zz.Replace("go.minekube.com/gate/pkg/edition/java/proto/util.ReadBinaryTag", func(r io.Reader, protocol proto.Protocol) (util.BinaryTag, error) {
		if zz.Bool() {
			return util.BinaryTag{}, errors.New("nbt: outside the claim")
		}
		var one [1]byte
		for zz.Bool() {
			if _, err := r.Read(one[:]); err != nil {
				break
			}
		}
		return util.BinaryTag{}, nil
	})
}

// Crafted counts in the configuration and play states: a one-byte packet id, a 5-byte VarInt (every
// int32) and up to one (thorough: two) more bytes: a count or length field at the front of any packet type never
// leads to an allocation out of proportion to the 7-byte payload, in either direction.
func VerifHarness_DecodeCraftedCountsLate() {
	zz.MaxLen(8)
	zz.Unwind(200)
	zz.AllocCap(1 << 21)
	zzStubNBT()
	st := zzStateReg(3 + zz.Choose(2))
	protocol := []proto.Protocol{764, 767, 776}[zz.Choose(3)]
	extra := 2
	if zz.Thorough() {
		extra = 3
	}
	payload := append([]byte{zz.Byte()}, zz.Bytes(5+zz.Choose(extra))...)
	zz.Assume(payload[0] < 0x80)
	// the VarInt in its full 5-byte form (still every int32 value); shorter encodings of small values are
	// what the plain arbitrary-bytes harnesses cover
	zz.Assume(payload[1] >= 0x80 && payload[2] >= 0x80 && payload[3] >= 0x80 && payload[4] >= 0x80 && payload[5] < 0x10)
	ctx, err := zzDecodeAny(st, zz.Bool(), protocol, payload)
	zz.Assert(ctx != nil || err != nil, "decoding returned neither a context nor an error")
	zz.Reach("crafted-late")
}

// Configuration and play states (where most packet types live): every payload of up to 3 (quick) /
// 4 (thorough) arbitrary bytes. Packet types whose decoders go through reflection-driven NBT /
// component / brigadier code cannot be executed by the engine; those paths end as "unsupported" and
// are counted, not claimed.
func VerifHarness_DecodeLateStates() {
	max := 3
	if zz.Thorough() {
		max = 4
	}
	zz.MaxLen(max)
	zz.Unwind(200)
	zz.AllocCap(1 << 21)
	zzStubNBT()
	st := zzStateReg(3 + zz.Choose(2))
	protocol := []proto.Protocol{47, 340, 764, 767, 776}[zz.Choose(5)]
	payload := zz.Bytes(1 + zz.Choose(max))
	ctx, err := zzDecodeAny(st, zz.Bool(), protocol, payload)
	zz.Assert(ctx != nil || err != nil, "decoding returned neither a context nor an error")
	zz.Reach("late")
}

func VerifMutant_Decode() {
	// control: a login-start with a 1-byte name decodes
	ctx, err := zzDecodeAny(state.Login, true, 767, []byte{0, 1, 'a', 0, 0, 0, 0, 0, 0, 0, 0, 0, 0, 0, 0, 0, 0, 0, 0})
	zz.Assert(err != nil || ctx.Packet == nil, "control: a valid login start decodes to a packet")
}
