package proxy

import (
	"context"
	"errors"

	"github.com/go-logr/logr"
	"github.com/robinbraemer/event"
	"go.minekube.com/gate/pkg/edition/java/config"
	"go.minekube.com/gate/pkg/edition/java/profile"
	"go.minekube.com/gate/pkg/edition/java/proto/packet"
	"go.minekube.com/gate/pkg/edition/java/proxy/bungeecord"
	"go.minekube.com/gate/pkg/edition/java/proxy/message"
	"go.minekube.com/gate/pkg/gate/proto"
	internaltablist "go.minekube.com/gate/pkg/internal/tablist"
	"go.minekube.com/gate/pkg/util/sets"
	"go.minekube.com/gate/pkg/edition/java/proto/state"
	"go.minekube.com/gate/pkg/edition/java/proxy/phase"
	zz "go.minekube.com/gate/pkg/internal/zzverif"
	"go.minekube.com/gate/pkg/util/netutil"
)

// zzSwitchWorld: a player, three registered servers, and a stand-in for the connection attempt itself
// (dialing, backend login and the join-game transition need live sockets): the stand-in records how
// many attempts run at the same time and returns a symbolic outcome.
type zzSwitchWorld struct {
	px       *Proxy
	ev       *zzEvents
	pl       *connectedPlayer
	servers  []*registeredServer
	running  int // attempts currently inside connect
	maxRun   int
	attempts []*serverConnection
	slotOK   bool // during every attempt the in-flight slot held that attempt
}

func zzNewSwitchWorld() *zzSwitchWorld {
	w := &zzSwitchWorld{slotOK: true}
	cfg := config.DefaultConfig
	w.ev = &zzEvents{}
	w.px = zzProxy(&cfg, w.ev)
	for i, n := range []string{"lobby", "game", "mini"} {
		s := newRegisteredServer(NewServerInfo(n, netutil.NewAddr("10.0.0."+string(rune('1'+i))+":25565", "tcp")))
		w.px.servers[n] = s
		w.servers = append(w.servers, s)
	}
	w.pl = &connectedPlayer{MinecraftConn: newZZConn(767, state.Play), log: logr.Discard(), connPhase: phase.VanillaClientPhase,
		sessionHandlerDeps: &sessionHandlerDeps{proxy: w.px, eventMgr: w.ev, configProvider: &zzConfigProvider{cfg: &cfg}}}
	zz.Replace("(*go.minekube.com/gate/pkg/edition/java/proxy.serverConnection).connect", func(s *serverConnection, ctx context.Context) (*connectionResult, error) {
		w.running++
		if w.running > w.maxRun {
			w.maxRun = w.running
		}
		w.attempts = append(w.attempts, s)
		if w.pl.connectionInFlight() != s {
			w.slotOK = false
		}
		zz.Yield() // the attempt takes time
		if w.pl.connectionInFlight() != s {
			w.slotOK = false
		}
		w.running--
		switch zz.Choose(3) {
		case 0:
			return &connectionResult{status: SuccessConnectionStatus, safe: true, attemptedConn: s.server}, nil
		case 1:
			return nil, errors.New("dial tcp: connection refused")
		}
		return &connectionResult{status: ServerDisconnectedConnectionStatus, safe: true, attemptedConn: s.server}, nil
	})
	return w
}

func (w *zzSwitchWorld) current(s *registeredServer, joined bool) {
	c := newServerConnection(s, nil, w.pl)
	c.connection = newZZConn(767, state.Play)
	c.connPhase = phase.VanillaBackendPhase
	c.completedJoin.Store(joined)
	w.pl.connectedServer_ = c
}

// One connection request from every player state: a request while another attempt is in flight (or while
// the current backend has not completed its join) is reported as in progress, a request to the current
// server as already connected - both without an event, an attempt or any change of state; otherwise exactly
// one attempt runs, holds the in-flight slot while it runs, and frees it afterwards.
func VerifHarness_RequestOutcomes() {
	w := zzNewSwitchWorld()
	var cur *registeredServer
	joined := true
	switch zz.Choose(3) {
	case 1:
		cur = w.servers[0]
	case 2:
		cur, joined = w.servers[0], false
	}
	if cur != nil {
		w.current(cur, joined)
	}
	var inflight *serverConnection
	if zz.Bool() {
		inflight = newServerConnection(w.servers[2], nil, w.pl)
		w.pl.connInFlight = inflight
	}
	before := w.pl.connectedServer_
	target := w.servers[zz.Choose(2)] // lobby (possibly the current one) or game
	// a pre-connect subscriber may leave the request alone, deny it, or send it elsewhere
	redirect := zz.Choose(4)
	final := target
	w.ev.onFire = func(e event.Event) {
		if pe, ok := e.(*ServerPreConnectEvent); ok {
			switch redirect {
			case 1:
				pe.Deny()
			case 2:
				pe.Allow(w.servers[0]) // to lobby (possibly the current server)
			case 3:
				pe.Allow(w.servers[2])
			}
		}
	}
	switch redirect {
	case 2:
		final = w.servers[0]
	case 3:
		final = w.servers[2]
	}
	// through the public entry points as well as the internal one
	var res *connectionResult
	var err error
	switch zz.Choose(2) {
	case 0:
		res, err = w.pl.createConnectionRequest(target).internalConnect(context.Background())
	case 1:
		res, err = w.pl.createConnectionRequest(target).connect(context.Background())
	}
	preConnects, _ := zzCountEvents16[*ServerPreConnectEvent](w.ev)
	switch {
	case !(inflight != nil || (cur != nil && !joined)) && cur != target && redirect == 1:
		zz.Assert(err == nil && res.Status() == CanceledConnectionStatus && len(w.attempts) == 0 && w.pl.connInFlight == nil && w.pl.connectedServer_ == before, "a request a subscriber denied was not cancelled without side effects")
		zz.Reach("denied")
	case !(inflight != nil || (cur != nil && !joined)) && cur != target && final == cur:
		zz.Assert(err == nil && res.Status() == AlreadyConnectedConnectionStatus && len(w.attempts) == 0 && w.pl.connInFlight == nil && w.pl.connectedServer_ == before, "a request redirected to the current server was not reported as already connected without an attempt")
		zz.Reach("redirected-to-current")
	case inflight != nil || (cur != nil && !joined):
		zz.Assert(err == nil && res.Status() == InProgressConnectionStatus, "a request while a connection attempt is in flight was not reported as in progress")
		zz.Assert(len(w.attempts) == 0 && preConnects == 0 && w.pl.connInFlight == inflight && w.pl.connectedServer_ == before, "a request reported as in progress had side effects")
		zz.Reach("in-progress")
	case cur == target:
		zz.Assert(err == nil && res.Status() == AlreadyConnectedConnectionStatus, "a request to the current server was not reported as already connected")
		zz.Assert(len(w.attempts) == 0 && preConnects == 0 && w.pl.connInFlight == nil && w.pl.connectedServer_ == before, "a request reported as already connected had side effects")
		zz.Reach("already-connected")
	default:
		zz.Assert(len(w.attempts) == 1 && w.attempts[0].server == final && preConnects == 1, "a permitted request did not make exactly one attempt to the requested (or redirected) server")
		zz.Assert(w.slotOK, "the in-flight slot did not hold the attempt while it was running")
		zz.Assert(w.pl.connInFlight == nil, "the in-flight slot was not freed when the attempt ended")
		zz.Assert(w.pl.connectedServer_ == before, "the attempt itself changed the current server (only the join-game transition may)")
		zz.Reach("attempted")
	}
}

// Two requests at the same time, from different goroutines (a command and a plugin, say), to different
// servers: at most one attempt is in flight at any moment; the other request is told so.
func VerifHarness_ConcurrentRequestsOneInFlight() {
	zz.MaxPreempt(3)
	w := zzNewSwitchWorld()
	if zz.Bool() {
		w.current(w.servers[0], true)
	}
	var r1, r2 *connectionResult
	var e1, e2 error
	zz.Go(func() { r1, e1 = w.pl.createConnectionRequest(w.servers[1]).internalConnect(context.Background()) })
	zz.Go(func() { r2, e2 = w.pl.createConnectionRequest(w.servers[2]).internalConnect(context.Background()) })
	zz.WaitAll()
	zz.Assert(w.maxRun <= 1, "two connection attempts of one player were in flight at the same time")
	zz.Assert(w.slotOK, "an attempt lost the in-flight slot while it was running")
	zz.Assert(w.pl.connInFlight == nil, "the in-flight slot was not freed after both requests ended")
	if len(w.attempts) == 1 {
		// the requests overlapped: exactly one of them was refused as in progress
		inProg := func(r *connectionResult, e error) bool { return e == nil && r != nil && r.Status() == InProgressConnectionStatus }
		zz.Assert(inProg(r1, e1) != inProg(r2, e2), "with one attempt made, the other request was not reported as in progress")
		zz.Reach("second-refused")
	} else {
		zz.Assert(len(w.attempts) == 2, "a request made no attempt although nothing was in flight")
		zz.Reach("one-after-the-other")
	}
}

// An attempt whose request ran out of time before the backend's join-game arrived is abandoned: the
// request is told it failed, the backend connection of the attempt is closed, and a join-game that
// arrives late does not move the player.
func VerifHarness_TimedOutAttemptIsAbandoned() {
	zz.MaxPreempt(2)
	w := zzNewSwitchWorld()
	client := w.pl.MinecraftConn.(*zzConn)
	client.protocol = 763
	w.pl.tabList = internaltablist.New(w.pl)
	w.pl.profile = &profile.GameProfile{Name: "alice"}
	w.pl.clientsideChannels = sets.NewCappedSet[string](maxClientsidePluginChannels)
	w.px.channelRegistrar = message.NewChannelRegistrar()
	lobby, game := w.servers[0], w.servers[1]
	playH := &clientPlaySessionHandler{player: w.pl, log: logr.Discard(), log1: logr.Discard()}
	playH.spawned.Store(true)
	client.handler = playH
	old := newServerConnection(lobby, nil, w.pl)
	oldConn := newZZConn(763, state.Play)
	old.connection, old.connPhase = oldConn, phase.VanillaBackendPhase
	old.completedJoin.Store(true)
	w.pl.connectedServer_ = old
	dest := newServerConnection(game, lobby, w.pl)
	newConn := newZZConn(763, state.Play)
	dest.connection = newConn
	w.pl.connInFlight = dest
	ctx, cancel := context.WithCancel(context.Background())
	results := make(chan *connResponse, 1)
	th := &backendTransitionSessionHandler{eventMgr: w.ev, serverConn: dest, requestCtx: &connRequestCxt{Context: ctx, response: results},
		bungeeCordMessageRecorder: bungeecord.NopMessageResponder, log: logr.Discard()}
	th.Activated()
	cancel() // the request's deadline passes
	zz.WaitAll()
	select {
	case r := <-results:
		zz.Assert(r != nil && r.error != nil, "a request that ran out of time was not told that it failed")
	default:
		zz.Assert(false, "a request that ran out of time got no result")
	}
	w.pl.resetInFlightConnection() // what the request's caller does with a failed result
	// the join-game arrives after all
	jg := &packet.JoinGame{EntityID: 9}
	th.HandlePacket(&proto.PacketContext{Direction: proto.ClientBound, Protocol: 763, Packet: jg, Payload: []byte{0x28}})
	zz.Assert(newConn.closed > 0, "the backend connection of an abandoned attempt was left open")
	zz.Assert(w.pl.connectedServer() == old && oldConn.closed == 0, "a join-game that arrived after the request had failed moved the player (or closed its real backend)")
	zz.Assert(client.closed == 0, "the player was disconnected by an abandoned attempt")
	zz.Reach("abandoned")
}

func zzCountEvents16[T any](ev *zzEvents) (n int, last T) {
	for _, e := range ev.fired {
		if t, ok := e.(T); ok {
			n++
			last = t
		}
	}
	return
}

var _ event.Event

func VerifMutant_Switch() {
	w := zzNewSwitchWorld()
	w.current(w.servers[0], true)
	res, _ := w.pl.createConnectionRequest(w.servers[0]).internalConnect(context.Background())
	zz.Assert(res.Status() != AlreadyConnectedConnectionStatus, "control: the current server is reported as already connected")
}

// zzWire models what the connection does with handlers: a handler set as active is activated, and when
// the connection is closed its active handler is told it was disconnected (as the read loop does).
func zzWire(c *zzConn) {
	c.onClose = func() {
		if c.handler != nil {
			c.handler.Disconnected()
		}
	}
}

func zzOn(s *registeredServer, p *connectedPlayer) bool {
	found := false
	s.players.Range(func(q Player) bool {
		if q == Player(p) {
			found = true
		}
		return true
	})
	return found
}

// A 1.20.1-style client on lobby (or on no server yet) whose connection attempt to game reaches the
// backend's join-game: the real transition handler makes game the current server, closes the previous
// backend connection, frees the in-flight slot, reports success to the request, and the player is in
// the player list of exactly its current server.
func VerifHarness_SuccessfulSwitch() {
	w := zzNewSwitchWorld()
	client := w.pl.MinecraftConn.(*zzConn)
	client.protocol = 763
	w.pl.tabList = internaltablist.New(w.pl)
	w.pl.profile = &profile.GameProfile{Name: "alice"}
	w.pl.clientsideChannels = sets.NewCappedSet[string](maxClientsidePluginChannels)
	w.px.channelRegistrar = message.NewChannelRegistrar()
	lobby, game := w.servers[0], w.servers[1]
	playH := &clientPlaySessionHandler{player: w.pl, log: logr.Discard(), log1: logr.Discard()}
	client.handler = playH
	hadServer := zz.Bool()
	var oldConn *zzConn
	var old *serverConnection
	if hadServer {
		playH.spawned.Store(true)
		old = newServerConnection(lobby, nil, w.pl)
		oldConn = newZZConn(763, state.Play)
		zzWire(oldConn)
		old.connection, old.connPhase = oldConn, phase.VanillaBackendPhase
		old.completedJoin.Store(true)
		w.pl.connectedServer_ = old
		oh := &backendPlaySessionHandler{serverConn: old, bungeeCordMessageResponder: bungeecord.NopMessageResponder, playerSessionHandler: playH, log: logr.Discard()}
		oldConn.handler = oh
		oh.Activated()
		zz.Assert(zzOn(lobby, w.pl), "setup: the player is listed on its server")
	}
	// the attempt to game has got as far as the backend's join-game
	dest := newServerConnection(game, lobby, w.pl)
	if !hadServer {
		dest.previousServer = nil
	}
	newConn := newZZConn(763, state.Play)
	zzWire(newConn)
	dest.connection = newConn
	w.pl.connInFlight = dest
	results := make(chan *connResponse, 1)
	th := &backendTransitionSessionHandler{eventMgr: w.ev, serverConn: dest, requestCtx: &connRequestCxt{Context: context.Background(), response: results},
		bungeeCordMessageRecorder: bungeecord.NopMessageResponder, log: logr.Discard()}
	jg := &packet.JoinGame{EntityID: 7}
	th.handleJoinGame(&proto.PacketContext{Direction: proto.ClientBound, Protocol: 763, Packet: jg, Payload: []byte{0x28}}, jg)
	// the connection activates the handler it was given
	if bh, ok := newConn.handler.(*backendPlaySessionHandler); ok {
		bh.Activated()
	}
	zz.Assert(w.pl.connectedServer() == dest, "after a successful switch the destination is not the player's current server")
	zz.Assert(w.pl.connectionInFlight() == nil, "the in-flight slot is still taken after the switch completed")
	zz.Assert(dest.completedJoin.Load(), "the join on the destination was not marked complete")
	if hadServer {
		zz.Assert(oldConn.closed > 0 && old.connection == nil, "the previous backend connection was not closed")
		zz.Assert(!zzOn(lobby, w.pl), "the player is still in the player list of the server it left")
	}
	zz.Assert(zzOn(game, w.pl) && !zzOn(w.servers[2], w.pl), "the player is not in the player list of exactly its current server")
	zz.Assert(client.closed == 0, "the player was disconnected by a successful switch")
	select {
	case r := <-results:
		zz.Assert(r != nil && r.error == nil && r.connectionResult != nil && r.Status() == SuccessConnectionStatus, "the request was not told that the switch succeeded")
	default:
		zz.Assert(false, "the request got no result")
	}
	pre, _ := zzCountEvents16[*ServerConnectedEvent](w.ev)
	post, _ := zzCountEvents16[*ServerPostConnectEvent](w.ev)
	zz.Assert(pre == 1 && post == 1, "the connected / post-connect events were not fired exactly once")
	zz.Reach("switched")
}

// The in-flight slot belongs to one attempt: making a server current frees the slot only if that very
// connection holds it, and a request that returns leaves the slot alone when a newer attempt has claimed
// it meanwhile (a follow-up request started from a post-connect subscriber, still connecting).
func VerifHarness_SlotBelongsToItsAttempt() {
	w := zzNewSwitchWorld()
	lobby, game, mini := w.servers[0], w.servers[1], w.servers[2]
	switch zz.Choose(2) {
	case 0:
		// 1.20.2+ switches clear the current server while the new backend is in its configuration phase
		attempt := newServerConnection(game, lobby, w.pl)
		w.pl.connInFlight = attempt
		var other *serverConnection
		if zz.Bool() {
			other = newServerConnection(lobby, nil, w.pl)
		}
		w.pl.setConnectedServer(other)
		zz.Assert(w.pl.connectionInFlight() == attempt, "making another connection (or none) the current server wiped the in-flight slot of a running attempt")
		w.pl.setConnectedServer(attempt)
		zz.Assert(w.pl.connectionInFlight() == nil && w.pl.connectedServer() == attempt, "completing the attempt did not free its in-flight slot")
		zz.Reach("set-connected")
	case 1:
		followUp := newServerConnection(mini, game, w.pl)
		zz.Replace("(*go.minekube.com/gate/pkg/edition/java/proxy.serverConnection).connect", func(s *serverConnection, ctx context.Context) (*connectionResult, error) {
			// the attempt succeeds: the transition makes it current (which frees its slot) and a
			// post-connect subscriber at once starts a follow-up request that is still connecting
			w.pl.setConnectedServer(s)
			w.pl.connInFlight = followUp
			return &connectionResult{status: SuccessConnectionStatus, safe: true, attemptedConn: s.server}, nil
		})
		res, err := w.pl.createConnectionRequest(game).internalConnect(context.Background())
		zz.Assert(err == nil && res.Status() == SuccessConnectionStatus, "the attempt did not succeed")
		zz.Assert(w.pl.connectionInFlight() == followUp, "a request that returned wiped the in-flight slot of a newer attempt")
		// and a third request is told so
		res, err = w.pl.createConnectionRequest(lobby).internalConnect(context.Background())
		zz.Assert(err == nil && res.Status() == InProgressConnectionStatus, "a request made while the follow-up attempt is connecting was not reported as in progress")
		zz.Reach("follow-up")
	}
}
