package gate

import (
	zz "go.minekube.com/gate/pkg/internal/zzverif"
)

// ---- symbolic JSON documents ----

func zzLeaf() any {
	switch zz.Choose(3) {
	case 0:
		return nil // JSON null
	case 1:
		return string([]byte{'s', zz.Byte()})
	}
	return []any{string([]byte{'e', zz.Byte()})} // arrays are opaque values for a merge patch
}

// zzScalarMember: a member that is absent, null or a string
func zzScalarMember(m map[string]any, key string) {
	switch zz.Choose(3) {
	case 1:
		m[key] = nil
	case 2:
		m[key] = string([]byte{'m', zz.Byte()})
	}
}

func zzObject1() map[string]any {
	m := map[string]any{}
	zzScalarMember(m, "a")
	zzScalarMember(m, "b")
	return m
}

func zzNode1() any {
	if zz.Bool() {
		return zzLeaf()
	}
	return zzObject1()
}

// zzDoc: null / string / array / object with members "a" (absent or any depth-1 document) and "b"
// (absent, null or string); thorough: "b" is any depth-1 document too.
func zzDoc() any {
	if zz.Bool() {
		return zzLeaf()
	}
	m := map[string]any{}
	if zz.Bool() {
		m["a"] = zzNode1()
	}
	if zz.Thorough() {
		if zz.Bool() {
			m["b"] = zzNode1()
		}
	} else {
		zzScalarMember(m, "b")
	}
	return m
}

// ---- RFC 7396, section 2, transcribed on immutable values ----

func zzRFC7396(target, patch any) any {
	po, isObj := patch.(map[string]any)
	if !isObj {
		return patch
	}
	out := map[string]any{}
	if to, ok := target.(map[string]any); ok {
		for k, v := range to {
			out[k] = v
		}
	}
	for name, value := range po {
		if value == nil {
			delete(out, name)
		} else {
			out[name] = zzRFC7396(out[name], value)
		}
	}
	return out
}

func zzClone(v any) any {
	switch x := v.(type) {
	case map[string]any:
		m := map[string]any{}
		for k, e := range x {
			m[k] = zzClone(e)
		}
		return m
	case []any:
		return append([]any{}, x...)
	}
	return v
}

func zzEqualJSON(a, b any) bool {
	switch x := a.(type) {
	case nil:
		return b == nil
	case string:
		y, ok := b.(string)
		return ok && x == y
	case []any:
		y, ok := b.([]any)
		if !ok || len(x) != len(y) {
			return false
		}
		for i := range x {
			if !zzEqualJSON(x[i], y[i]) {
				return false
			}
		}
		return true
	case map[string]any:
		y, ok := b.(map[string]any)
		if !ok || len(x) != len(y) {
			return false
		}
		for k, v := range x {
			w, has := y[k]
			if !has || !zzEqualJSON(v, w) {
				return false
			}
		}
		return true
	}
	return false
}

// For every target and patch document within the shape bound, the merge equals RFC 7396.
func VerifHarness_MergePatch() {
	target, patch := zzDoc(), zzDoc()
	want := zzRFC7396(zzClone(target), zzClone(patch))
	got := applyMergePatch(target, patch)
	zz.Assert(zzEqualJSON(got, want), "the merged document differs from RFC 7396 (objects merge recursively, null removes a member, any other value replaces the target)")
	if _, ok := patch.(map[string]any); ok {
		zz.Reach("object-patch")
	} else {
		zz.Reach("value-patch")
	}
}

func VerifMutant_MergePatch() {
	target := map[string]any{"a": "x", "b": "y"}
	patch := map[string]any{"a": nil}
	got := applyMergePatch(target, patch).(map[string]any)
	_, has := got["a"]
	zz.Assert(has, "control: null must remove the member")
}
