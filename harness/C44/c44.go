package netmc

import (
	"syscall"
	"net"
	"context"
	"errors"

	"go.minekube.com/gate/pkg/edition/java/proto/packet"
	"go.minekube.com/gate/pkg/edition/java/proto/state"
	"go.minekube.com/gate/pkg/gate/proto"
	zz "go.minekube.com/gate/pkg/internal/zzverif"
)

// Three closers race: an explicit Close, a failed write, and the read loop ending. Whatever the
// interleaving: the session teardown and the socket close run exactly once, exactly one closer is
// told it closed the connection, and every later write reports the connection as closed.
func VerifHarness_TeardownOnce() {
	zz.MaxPreempt(2)
	h := &zzHandler{}
	wr := &zzWriter{}
	c, base := newZZMinecraftConn(767, state.Play, &zzReader{}, wr, h)
	var e1, e3 error
	closers := 2 + zz.Choose(2)
	zz.Go(func() { e1 = c.Close() })
	zz.Go(func() { c.closeOnWriteErr(errors.New("write: broken pipe")) })
	if closers == 3 {
		zz.Go(func() { e3 = c.closeKnown(false) })
	}
	zz.WaitAll()
	zz.Assert(h.disconnected == 1, "the session teardown did not run exactly once")
	zz.Assert(base.closes == 1, "the socket was not closed exactly once")
	zz.Assert(Closed(c), "the connection does not report itself closed")
	zz.Assert(e1 == nil || e1 == ErrClosedConn, "Close returned an unexpected error")
	zz.Assert(e3 == nil || e3 == ErrClosedConn, "closeKnown returned an unexpected error")
	before := len(wr.log)
	zz.Assert(c.WritePacket(&packet.KeepAlive{}) == ErrClosedConn, "WritePacket after close did not report the connection as closed")
	zz.Assert(c.BufferPacket(&packet.KeepAlive{}) == ErrClosedConn, "BufferPacket after close did not report the connection as closed")
	zz.Assert(c.Write([]byte{1}) == ErrClosedConn, "Write after close did not report the connection as closed")
	zz.Assert(c.BufferPayload([]byte{1}) == ErrClosedConn, "BufferPayload after close did not report the connection as closed")
	zz.Assert(len(wr.log) == before && wr.payloads == 0, "something was written after the connection was closed")
	zz.Assert(c.Close() == ErrClosedConn && h.disconnected == 1, "a repeated Close ran the teardown again")
	zz.Reach("teardown-once")
}

// A write error closes the connection: the failing write returns the error, the teardown runs once.
func VerifHarness_WriteErrorCloses() {
	h := &zzHandler{}
	// every class of write error: a plain one, the peer's reset and "use of closed connection" (the
	// two the logger treats as routine), wrapped the way the net package wraps them
	werr := error(errors.New("write: broken pipe"))
	switch zz.Choose(3) {
	case 1:
		werr = &net.OpError{Op: "write", Net: "tcp", Err: syscall.ECONNRESET}
	case 2:
		werr = &net.OpError{Op: "write", Net: "tcp", Err: net.ErrClosed}
	}
	wr := &zzWriter{failNext: werr}
	c, base := newZZMinecraftConn(767, state.Play, &zzReader{}, wr, h)
	var err error
	switch zz.Choose(4) {
	case 0:
		err = c.WritePacket(&packet.KeepAlive{})
	case 1:
		err = c.BufferPacket(&packet.KeepAlive{})
	case 2:
		err = c.Write([]byte{1})
	case 3:
		err = c.BufferPayload([]byte{1})
	}
	zz.Assert(err != nil, "a failed write was reported as successful")
	zz.Assert(h.disconnected == 1 && base.closes == 1 && Closed(c), "a write error did not tear the connection down exactly once")
	zz.Assert(c.WritePacket(&packet.KeepAlive{}) == ErrClosedConn, "a write after the failure did not report the connection as closed")
	zz.Reach("write-error")
}

// The connection's context is derived from its owner's (the proxy's lifecycle context): when the owner
// cancels first, a later Close (or the end of the read loop, or a write error) still tears the connection
// down exactly once - the handler is told and the socket is closed.
func VerifHarness_CloseAfterOwnerCancelled() {
	h := &zzHandler{}
	wr := &zzWriter{}
	c, base := newZZMinecraftConn(767, state.Play, &zzReader{}, wr, h)
	parent, cancelParent := context.WithCancel(context.Background())
	c.ctx, c.cancelCtx = context.WithCancel(parent)
	cancelParent()
	zz.Assert(Closed(c), "a connection whose owner was cancelled does not count as closed")
	switch zz.Choose(3) {
	case 0:
		_ = c.Close()
	case 1:
		_ = CloseUnknown(c)
	case 2:
		c.startReadLoop() // the peer is gone: the loop ends and cleans up
	}
	zz.Assert(h.disconnected == 1 && base.closes == 1, "closing a connection after its owner's context was cancelled did not run the teardown (handler not told, socket left open)")
	_ = c.Close()
	zz.Assert(h.disconnected == 1 && base.closes == 1, "a second close ran the teardown again")
	zz.Reach("owner-cancelled")
}

type zzCustomPanic struct{ code int }

// The read loop: up to 3 packets, the handler panics on an arbitrary subset with an arbitrary kind of
// value (error, string, run-time error, custom struct). No panic escapes the loop, every packet is
// still offered to the handler, and when the peer closes the teardown runs exactly once.
func VerifHarness_HandlerPanicContained() {
	n := 1 + zz.Choose(3)
	rd := &zzReader{}
	for i := 0; i < n; i++ {
		rd.script = append(rd.script, &proto.PacketContext{Packet: &packet.KeepAlive{}, Payload: []byte{0}})
	}
	kinds := make([]int, n)
	for i := range kinds {
		kinds[i] = zz.Choose(5)
	}
	h := &zzHandler{}
	h.panicWith = func(i int) any {
		switch kinds[i] {
		case 1:
			return errors.New("handler failed")
		case 2:
			return "handler failed"
		case 3:
			var m map[string]int
			m["x"] = 1 // run-time error: assignment to entry in nil map
			return nil
		case 4:
			return zzCustomPanic{code: 7}
		}
		return nil
	}
	c, base := newZZMinecraftConn(767, state.Play, rd, &zzWriter{}, h)
	c.startReadLoop() // a panic escaping here is reported by the engine as an uncaught panic
	zz.Assert(h.handled == n, "the read loop stopped handing packets to the handler after a panic")
	zz.Assert(h.disconnected == 1 && base.closes == 1, "the teardown did not run exactly once when the read loop ended")
	zz.Assert(Closed(c), "the connection is not closed after its read loop ended")
	zz.Reach("panic-contained")
}

func VerifMutant_Teardown() {
	h := &zzHandler{}
	c, _ := newZZMinecraftConn(767, state.Play, &zzReader{}, &zzWriter{}, h)
	_ = c.Close()
	_ = c.closeKnown(false)
	zz.Assert(h.disconnected == 2, "control: the second close must not run the teardown")
}
