package proxy

import (
	"bytes"

	"go.minekube.com/gate/pkg/edition/java/config"
	"go.minekube.com/gate/pkg/edition/java/proto/packet"
	"go.minekube.com/gate/pkg/edition/java/proto/state"
	"go.minekube.com/gate/pkg/edition/java/proto/version"
	zz "go.minekube.com/gate/pkg/internal/zzverif"
	"go.minekube.com/gate/pkg/gate/proto"
)

func zzSupportedProtocol(p proto.Protocol) bool {
	ok := false
	for _, v := range version.SupportedVersions {
		ok = ok || v.Protocol == p
	}
	return ok
}

// The locally built ping advertises the client's protocol when supported, else the newest; the
// player count is the number of registered players.
func VerifHarness_InitialPing() {
	cfg := config.DefaultConfig
	// the advertised slot count is cosmetic: it is any number, also one below the online count
	cfg.Status.ShowMaxPlayers = int(zz.Int32())
	p := zzProxy(&cfg, &zzEvents{})
	n := zz.Choose(3)
	for i := 0; i < n; i++ {
		pl := &connectedPlayer{}
		var id [16]byte
		id[0] = byte(i + 1)
		p.playerIDs[id] = pl
	}
	client := proto.Protocol(zz.Int32())
	ping := newInitialPing(p, client)
	if zzSupportedProtocol(client) {
		zz.Assert(ping.Version.Protocol == client, "status response does not advertise the client's supported protocol")
		zz.Reach("supported-protocol")
	} else {
		zz.Assert(ping.Version.Protocol == version.MaximumVersion.Protocol, "status response for an unsupported client protocol does not advertise the newest version")
		zz.Reach("unsupported-protocol")
	}
	zz.Assert(ping.Players != nil && ping.Players.Online == n, "status response player count differs from the online player count")
	zz.Assert(ping.Players.Max == cfg.Status.ShowMaxPlayers, "status response does not advertise the configured slot count")
}

// Status-phase packet sequences of length <= 3 over {request, ping(payload), other known, unknown}.
func VerifHarness_StatusSequence() {
	zz.MaxLen(9)
	cfg := config.DefaultConfig
	ev := &zzEvents{}
	client := proto.Protocol(zz.Int32())
	conn := newZZConn(client, state.Status)
	h := &statusSessionHandler{
		sessionHandlerDeps: &sessionHandlerDeps{proxy: zzProxy(&cfg, ev), eventMgr: ev, configProvider: &zzConfigProvider{cfg: &cfg}},
		conn:               conn,
		inbound:            &zzInbound{protocol: client, active: true},
	}
	// the packet context carries what the real decoder puts there: the protocol of the packet table
	// it decoded with, which for an unsupported client protocol is the fallback (oldest) table
	pcProto := state.FromDirection(proto.ServerBound, state.Status, client).Protocol
	requests, responses := 0, 0
	closedAt := -1
	steps := 1 + zz.Choose(3)
	for i := 0; i < steps; i++ {
		before := len(conn.log)
		wasClosed := conn.closed > 0
		switch zz.Choose(4) {
		case 0: // status request
			h.HandlePacket(&proto.PacketContext{Direction: proto.ServerBound, Protocol: pcProto, Packet: &packet.StatusRequest{}, Payload: []byte{0}})
			requests++
			if requests == 1 && !wasClosed {
				zz.Assert(len(conn.log) == before+1 && conn.log[before].kind == "write-packet", "first status request was not answered with exactly one packet")
				resp, isResp := conn.log[before].packet.(*packet.StatusResponse)
				zz.Assert(isResp, "first status request was not answered with a status response")
				want := version.MaximumVersion.Protocol
				if zzSupportedProtocol(client) {
					want = client
				}
				_ = resp
				// the response body is the JSON of the ping the handler built and announced
				zz.Assert(len(ev.fired) == 1, "no ping was built for the first status request")
				pe, isPing := ev.fired[0].(*PingEvent)
				zz.Assert(isPing && pe.ping != nil, "no ping was built for the first status request")
				zz.Assert(pe.ping.Version.Protocol == want, "the status response advertises neither the client's supported protocol nor the newest one")
				responses++
				zz.Reach("first-request")
			} else if !wasClosed {
				zz.Assert(conn.closed > 0, "a repeated status request did not close the connection")
				zz.Assert(conn.count("write-packet") == responses, "a repeated status request was answered again")
				zz.Reach("repeated-request")
			}
		case 1: // ping with arbitrary payload
			payload := zz.Bytes(9)
			h.HandlePacket(&proto.PacketContext{Direction: proto.ServerBound, Protocol: pcProto, Packet: &packet.StatusPing{}, Payload: payload})
			if !wasClosed {
				zz.Assert(len(conn.log) == before+2, "ping was not answered with one write followed by close")
				zz.Assert(conn.log[before].kind == "write" && bytes.Equal(conn.log[before].payload, payload), "ping echo is not byte-identical")
				zz.Assert(conn.log[before+1].kind == "close", "connection not closed after the ping echo")
				zz.Reach("ping-echo")
			}
		case 2: // some other known packet
			h.HandlePacket(&proto.PacketContext{Direction: proto.ServerBound, Protocol: pcProto, Packet: &packet.Handshake{}, Payload: []byte{0}})
			zz.Assert(conn.closed > 0, "an unexpected packet did not close the connection")
			zz.Assert(conn.count("write-packet") == responses && conn.count("write") <= 1, "an unexpected packet was answered")
			zz.Reach("other-packet")
		case 3: // unknown packet
			h.HandlePacket(&proto.PacketContext{Direction: proto.ServerBound, Protocol: pcProto, PacketID: 0x55, Payload: zz.Bytes(2)})
			zz.Assert(conn.closed > 0, "an unknown packet did not close the connection")
			zz.Reach("unknown-packet")
		}
		if conn.closed > 0 && closedAt < 0 {
			closedAt = i
		}
	}
	zz.Assert(conn.count("write-packet") <= 1, "more than one status response was sent")
}

func VerifMutant_InitialPing() {
	cfg := config.DefaultConfig
	p := zzProxy(&cfg, &zzEvents{})
	client := proto.Protocol(zz.Int32())
	ping := newInitialPing(p, client)
	zz.Assert(ping.Version.Protocol != 47, "control: a supported protocol (47) must be echoed")
}
