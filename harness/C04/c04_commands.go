package packet

import (
	"bytes"

	"go.minekube.com/gate/pkg/gate/proto"
	zz "go.minekube.com/gate/pkg/internal/zzverif"
)

// The node graph of a command tree (C04: decode . encode is the identity on the proxy's own encoding;
// C23: what a backend announced is what the player gets). A backend tree in wire form, laid out in
// the breadth-first order the encoder uses:
//
//	root ── a ── x (integer argument)
//	 └───── b (optionally a redirect to a)
//
// with symbolic node flags (executable, restricted), redirect, argument bounds and suggestion
// provider. It is decoded (all bytes consumed) and encoded again: the bytes are the same.
func VerifHarness_CommandTreeRoundTrip() {
	zz.Unwind(64)
	zz.MaxDepth(200)
	ps := []proto.Protocol{767, 776, 758}
	if zz.Thorough() {
		ps = []proto.Protocol{767, 776, 758, 759, 393}
	}
	p := ps[zz.Choose(len(ps))]
	var b bytes.Buffer
	flag := func(base byte, exec, restricted bool) byte {
		if exec {
			base |= FlagExecutable
		}
		if restricted && p >= 769 { // the restricted bit is only sent by recent servers
			base |= FlagIsRestricted
		}
		return base
	}
	str := func(s string) { b.WriteByte(byte(len(s))); b.WriteString(s) }
	b.WriteByte(4)
	// 0: root
	b.Write([]byte{0, 2, 1, 2})
	// 1: literal a, child x
	b.WriteByte(flag(NodeTypeLiteral, zz.Bool(), zz.Bool()))
	b.Write([]byte{1, 3})
	str("a")
	// 2: literal b, no children, optionally redirecting to a
	redirect := zz.Bool()
	if redirect {
		b.WriteByte(flag(NodeTypeLiteral|FlagIsRedirect, false, zz.Bool()))
		b.Write([]byte{0, 1})
	} else {
		b.WriteByte(flag(NodeTypeLiteral, true, zz.Bool()))
		b.WriteByte(0)
	}
	str("b")
	// 3: argument x: brigadier:integer with symbolic bound flags and bounds, optional suggestions
	sugg := zz.Choose(3)
	f3 := flag(NodeTypeArgument, true, zz.Bool())
	if sugg > 0 {
		f3 |= FlagHasSuggestions
	}
	b.WriteByte(f3)
	b.WriteByte(0)
	str("x")
	if p >= 759 {
		b.WriteByte(3) // brigadier:integer
	} else {
		str("brigadier:integer")
	}
	bf := byte(zz.Choose(4))
	b.WriteByte(bf)
	// canonical form: a bound that is present is not the type's default (vanilla writes none then)
	if bf&1 != 0 {
		lo := zz.Bytes(4)
		zz.Assume(!(lo[0] == 0x80 && lo[1] == 0 && lo[2] == 0 && lo[3] == 0))
		b.Write(lo)
	}
	if bf&2 != 0 {
		hi := zz.Bytes(4)
		zz.Assume(!(hi[0] == 0x7f && hi[1] == 0xff && hi[2] == 0xff && hi[3] == 0xff))
		b.Write(hi)
	}
	if sugg == 1 {
		str("minecraft:ask_server")
	} else if sugg == 2 {
		str("minecraft:summonable_entities")
	}
	b.WriteByte(0) // root index
	in := append([]byte(nil), b.Bytes()...)

	c := &proto.PacketContext{Direction: proto.ClientBound, Protocol: p}
	var pk AvailableCommands
	rd := bytes.NewReader(in)
	zz.Assert(pk.Decode(c, rd) == nil, "a well-formed command tree was refused")
	zz.Assert(rd.Len() == 0, "decoding a command tree leaves bytes unread")
	zz.Assert(pk.RootNode != nil && len(pk.RootNode.Children()) == 2, "the decoded tree lost a top-level command")
	var out bytes.Buffer
	zz.Assert(pk.Encode(c, &out) == nil, "a decoded command tree cannot be encoded")
	zz.Assert(bytes.Equal(out.Bytes(), in), "a command tree is not passed on as it was announced (flags, children, redirect, argument type or suggestion provider differ)")
	zz.Reach("command-tree")
}

func VerifMutant_CommandTree() {
	in := []byte{2, 0, 1, 1, NodeTypeLiteral | FlagExecutable, 0, 1, 'a', 0}
	c := &proto.PacketContext{Direction: proto.ClientBound, Protocol: 767}
	var pk AvailableCommands
	zz.Assert(pk.Decode(c, bytes.NewReader(in)) == nil, "decode")
	var out bytes.Buffer
	zz.Assert(pk.Encode(c, &out) == nil, "encode")
	in[4] ^= zz.Byte() & FlagExecutable // control: a lost executable flag must be noticed
	zz.Assert(bytes.Equal(out.Bytes(), in), "control")
}
