package packet

import (
	"bytes"

	"go.minekube.com/gate/pkg/gate/proto"
	zz "go.minekube.com/gate/pkg/internal/zzverif"
)

// Respawn in the versions whose dimension is not NBT (up to 1.16.1, and 1.19 onwards): every field
// that exists in the version comes back with its value, all bytes are consumed, re-encoding is
// byte-identical.
func VerifHarness_RespawnRoundTrip() {
	zz.MaxLen(2)
	ps := []proto.Protocol{340, 735, 759, 761, 764, 768}
	if zz.Thorough() {
		ps = []proto.Protocol{47, 340, 404, 477, 573, 735, 759, 760, 761, 762, 763, 764, 765, 766, 767, 768, 769, 776}
	}
	p := ps[zz.Choose(len(ps))]
	c := &proto.PacketContext{Direction: proto.ClientBound, Protocol: p}
	level := "w" + zz.String(1)
	r := &Respawn{
		Dimension:         int(int32(zz.Int32())),
		PartialHashedSeed: zz.Int64(),
		Difficulty:        int16(zz.Byte()),
		Gamemode:          int16(zz.Byte()),
		LevelType:         zz.String(1),
		DataToKeep:        zz.Byte(),
		PreviousGamemode:  int16(zz.Byte()),
		DimensionInfo:     &DimensionInfo{RegistryIdentifier: "minecraft:o" + zz.String(1), LevelName: &level, Flat: zz.Bool(), DebugType: zz.Bool()},
		PortalCooldown:    int(int32(zz.Int32())),
		SeaLevel:          int(int32(zz.Int32())),
	}
	if zz.Bool() {
		r.LastDeathPosition = &DeathPosition{Key: zz.String(1), Value: zz.Int64()}
	}
	var a bytes.Buffer
	zz.Assert(r.Encode(c, &a) == nil, "encoding a respawn packet failed")
	var back Respawn
	rd := bytes.NewReader(a.Bytes())
	zz.Assert(back.Decode(c, rd) == nil, "the proxy cannot decode its own respawn packet")
	zz.Assert(rd.Len() == 0, "decoding a respawn packet leaves bytes unread")
	zz.Assert(back.Gamemode == r.Gamemode, "respawn: game mode changed in the round trip")
	if p >= 735 {
		zz.Assert(back.PreviousGamemode == r.PreviousGamemode, "respawn: previous game mode changed in the round trip")
		zz.Assert(back.DimensionInfo != nil && back.DimensionInfo.Flat == r.DimensionInfo.Flat && back.DimensionInfo.DebugType == r.DimensionInfo.DebugType, "respawn: dimension flags changed in the round trip")
		zz.Assert(back.DimensionInfo.LevelName != nil && *back.DimensionInfo.LevelName == level, "respawn: level name changed in the round trip")
		if p < 766 {
			zz.Assert(back.DimensionInfo.RegistryIdentifier == r.DimensionInfo.RegistryIdentifier, "respawn: dimension identifier changed in the round trip")
		} else {
			zz.Assert(back.Dimension == r.Dimension, "respawn: dimension id changed in the round trip")
		}
		if p < 761 {
			zz.Assert((back.DataToKeep != 0) == (r.DataToKeep != 0), "respawn: the keep-data flag changed in the round trip")
		} else {
			zz.Assert(back.DataToKeep == r.DataToKeep, "respawn: the data-to-keep bit mask changed in the round trip")
		}
	} else {
		zz.Assert(back.Dimension == r.Dimension && back.LevelType == r.LevelType, "respawn: dimension or level type changed in the round trip")
	}
	if p <= 404 {
		zz.Assert(back.Difficulty == r.Difficulty, "respawn: difficulty changed in the round trip")
	}
	if p >= 573 {
		zz.Assert(back.PartialHashedSeed == r.PartialHashedSeed, "respawn: seed changed in the round trip")
	}
	if p >= 759 {
		zz.Assert((back.LastDeathPosition == nil) == (r.LastDeathPosition == nil), "respawn: death position appeared or vanished in the round trip")
		if r.LastDeathPosition != nil {
			zz.Assert(*back.LastDeathPosition == *r.LastDeathPosition, "respawn: death position changed in the round trip")
		}
	}
	if p >= 763 {
		zz.Assert(back.PortalCooldown == r.PortalCooldown, "respawn: portal cooldown changed in the round trip")
	}
	if p >= 768 {
		zz.Assert(back.SeaLevel == r.SeaLevel, "respawn: sea level changed in the round trip")
	}
	var b bytes.Buffer
	zz.Assert(back.Encode(c, &b) == nil && bytes.Equal(a.Bytes(), b.Bytes()), "re-encoding a decoded respawn packet gives different bytes")
	zz.Reach("respawn")
}
