package brigadier

import (
	"bytes"
	"math"

	"go.minekube.com/brigodier"
	"go.minekube.com/gate/pkg/edition/java/proto/version"
	"go.minekube.com/gate/pkg/gate/proto"
	zz "go.minekube.com/gate/pkg/internal/zzverif"
)

// C04: every argument type a plugin can put on a proxy command node, with arbitrary bounds, is
// written, read back (all bytes consumed) with the same values, and re-encoded to the same bytes.
func VerifHarness_ArgumentTypesRoundTrip() {
	zz.MaxLen(2)
	p := zzProtocol()
	var t brigodier.ArgumentType
	switch zz.Choose(13) {
	case 0:
		t = brigodier.Bool
	case 1:
		t = &brigodier.Int32ArgumentType{Min: zz.Int32(), Max: zz.Int32()}
	case 2:
		t = &brigodier.Int64ArgumentType{Min: zz.Int64(), Max: zz.Int64()}
	case 3:
		t = &brigodier.Float32ArgumentType{Min: math.Float32frombits(zzF32[zz.Choose(len(zzF32))]), Max: math.Float32frombits(zzF32[zz.Choose(len(zzF32))])}
	case 4:
		t = &brigodier.Float64ArgumentType{Min: math.Float64frombits(zzF64[zz.Choose(len(zzF64))]), Max: math.Float64frombits(zzF64[zz.Choose(len(zzF64))])}
	case 5:
		t = brigodier.StringType(zz.Choose(3))
	case 6:
		t = &EntityArgumentType{SingleEntity: zz.Bool(), OnlyPlayers: zz.Bool()}
	case 7:
		t = &RegistryKeyArgumentType{Identifier: zz.String(zz.Choose(3))}
	case 8:
		t = &ResourceOrTagKeyArgumentType{Identifier: zz.String(zz.Choose(3))}
	case 9:
		t = &ResourceKeyArgumentType{Identifier: zz.String(zz.Choose(3))}
	case 10:
		t = &ResourceSelectorArgumentType{Identifier: zz.String(zz.Choose(3))}
	case 11: // the ready-made values of the library, as a plugin would use them
		t = []brigodier.ArgumentType{brigodier.Int32, brigodier.Int64, brigodier.Float32, brigodier.Float64, brigodier.String, brigodier.StringWord, brigodier.StringPhrase}[zz.Choose(7)]
	case 12:
		t = []brigodier.ArgumentType{PlayerArgument, RegistryKeyArgument, ResourceOrTagKeyArgument, ResourceKeyArgument, ResourceSelectorArgument}[zz.Choose(5)]
	}
	var a bytes.Buffer
	if err := Encode(&a, t, p); err != nil {
		// an argument type that does not exist in this version has no identifier there
		_, known := registry.typeToID[t.String()].idByProtocol[p]
		zz.Assert(p.GreaterEqual(version.Minecraft_1_19) && !known, "encoding an argument type failed although the version has it")
		zz.Reach("not-in-version")
		return
	}
	rd := bytes.NewReader(a.Bytes())
	back, err := Decode(rd, p)
	zz.Assert(err == nil, "the proxy cannot decode its own argument type")
	zz.Assert(rd.Len() == 0, "decoding an argument type leaves bytes unread")
	zz.Assert(zzSameArg(t, back), "an argument type came back with different values (or as another type)")
	var b bytes.Buffer
	zz.Assert(Encode(&b, back, p) == nil && bytes.Equal(a.Bytes(), b.Bytes()), "re-encoding a decoded argument type gives different bytes")
	zz.Reach("arg-round-trip")
}

func VerifMutant_ArgumentTypesRoundTrip() {
	p := proto.Protocol(767)
	t := &brigodier.Int64ArgumentType{Min: zz.Int64(), Max: brigodier.MaxInt64}
	var a bytes.Buffer
	zz.Assert(Encode(&a, t, p) == nil, "encode")
	raw := a.Bytes()
	if len(raw) > 2 {
		raw[len(raw)-1] ^= 1 // control: a damaged low byte must be noticed
	}
	back, err := Decode(bytes.NewReader(raw), p)
	zz.Assert(err == nil && zzSameArg(t, back), "control")
}
