package config

import (
	"bytes"

	"go.minekube.com/gate/pkg/gate/proto"
	zz "go.minekube.com/gate/pkg/internal/zzverif"
)

// Known packs (1.20.5+): a list of namespace/id/version triples; empty marker packets.
func VerifHarness_ConfigPackets() {
	zz.MaxLen(2)
	c := &proto.PacketContext{Direction: proto.ServerBound, Protocol: 767}
	n := zz.Choose(3)
	p := &KnownPacks{}
	for i := 0; i < n; i++ {
		p.Packs = append(p.Packs, KnownPack{Namespace: zz.String(zz.Choose(3)), Id: zz.String(zz.Choose(2)), Version: zz.String(zz.Choose(2))})
	}
	var a bytes.Buffer
	zz.Assert(p.Encode(c, &a) == nil, "encoding known packs failed")
	var back KnownPacks
	rd := bytes.NewReader(a.Bytes())
	zz.Assert(back.Decode(c, rd) == nil && rd.Len() == 0, "the proxy cannot decode its own known-packs packet (or leaves bytes)")
	zz.Assert(len(back.Packs) == n, "the number of known packs changed in the round trip")
	for i := range p.Packs {
		zz.Assert(back.Packs[i] == p.Packs[i], "a known pack changed in the round trip")
	}
	var b bytes.Buffer
	zz.Assert(back.Encode(c, &b) == nil && bytes.Equal(a.Bytes(), b.Bytes()), "re-encoding known packs gives different bytes")
	for _, e := range []proto.Packet{&FinishedUpdate{}, &StartUpdate{}} {
		var eb bytes.Buffer
		zz.Assert(e.Encode(c, &eb) == nil && eb.Len() == 0 && e.Decode(c, bytes.NewReader(nil)) == nil, "an empty marker packet is not empty")
	}
	zz.Reach("config-packets")
}
