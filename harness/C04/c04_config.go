package config

import (
	"bytes"

	"go.minekube.com/gate/pkg/gate/proto"
	zz "go.minekube.com/gate/pkg/internal/zzverif"
)

// Known packs (1.20.5+): a list of namespace/id/version triples; empty marker packets.
func VerifHarness_ConfigPackets() {
	zz.MaxLen(2)
	c := &proto.PacketContext{Direction: proto.ServerBound, Protocol: 767}
	n := zz.Choose(3)
	p := &KnownPacks{}
	for i := 0; i < n; i++ {
		p.Packs = append(p.Packs, KnownPack{Namespace: zz.String(zz.Choose(3)), Id: zz.String(zz.Choose(2)), Version: zz.String(zz.Choose(2))})
	}
	var a bytes.Buffer
	zz.Assert(p.Encode(c, &a) == nil, "encoding known packs failed")
	var back KnownPacks
	rd := bytes.NewReader(a.Bytes())
	zz.Assert(back.Decode(c, rd) == nil && rd.Len() == 0, "the proxy cannot decode its own known-packs packet (or leaves bytes)")
	zz.Assert(len(back.Packs) == n, "the number of known packs changed in the round trip")
	for i := range p.Packs {
		zz.Assert(back.Packs[i] == p.Packs[i], "a known pack changed in the round trip")
	}
	var b bytes.Buffer
	zz.Assert(back.Encode(c, &b) == nil && bytes.Equal(a.Bytes(), b.Bytes()), "re-encoding known packs gives different bytes")
	for _, e := range []proto.Packet{&FinishedUpdate{}, &StartUpdate{}} {
		var eb bytes.Buffer
		zz.Assert(e.Encode(c, &eb) == nil && eb.Len() == 0 && e.Decode(c, bytes.NewReader(nil)) == nil, "an empty marker packet is not empty")
	}
	zz.Reach("config-packets")
}

// Known packs around the serverbound limit of 64: a backend (clientbound) may announce more, and every
// one of them survives the round trip; from a client, up to 64 round-trip and more are refused.
func VerifHarness_KnownPacksManyPacks() {
	zz.MaxLen(2)
	n := []int{63, 64, 65, 66, 130}[zz.Choose(5)]
	c := &proto.PacketContext{Direction: proto.ClientBound, Protocol: 767}
	if zz.Bool() {
		c.Direction = proto.ServerBound
	}
	p := &KnownPacks{}
	for i := 0; i < n; i++ {
		p.Packs = append(p.Packs, KnownPack{Namespace: "minecraft", Id: "core", Version: string([]byte{'0' + byte(i%10)})})
	}
	p.Packs[0].Version, p.Packs[n-1].Id = zz.String(1), zz.String(1)
	var a bytes.Buffer
	zz.Assert(p.Encode(c, &a) == nil, "encoding known packs failed")
	var back KnownPacks
	rd := bytes.NewReader(a.Bytes())
	err := back.Decode(c, rd)
	if c.Direction == proto.ServerBound && n > 64 {
		zz.Assert(err != nil, "a client announcing more than 64 known packs was not refused")
		zz.Reach("too-many-from-client")
		return
	}
	zz.Assert(err == nil && rd.Len() == 0, "the proxy cannot decode its own known-packs packet (or leaves bytes unread)")
	zz.Assert(len(back.Packs) == n && back.Packs[0] == p.Packs[0] && back.Packs[n-1] == p.Packs[n-1], "known packs were lost or changed in the round trip")
	var b bytes.Buffer
	zz.Assert(back.Encode(c, &b) == nil && bytes.Equal(a.Bytes(), b.Bytes()), "re-encoding known packs gives different bytes")
	zz.Reach("many-packs")
}
