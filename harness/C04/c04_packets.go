package packet

import (
	"bytes"
	"encoding/json"

	"go.minekube.com/gate/pkg/edition/java/proto/packet/chat"
	"go.minekube.com/gate/pkg/gate/proto"
	zz "go.minekube.com/gate/pkg/internal/zzverif"
)

func zzP4() proto.Protocol {
	p := zz.Int32()
	zz.Assume(p >= 4 && p <= 800)
	return proto.Protocol(p)
}

// zzRoundTrip4 encodes p, decodes into fresh, checks that every byte was consumed and that
// re-encoding the decoded packet gives identical bytes. Returns the decoded packet's encoding.
func zzRoundTrip4(p, fresh proto.Packet, c *proto.PacketContext) {
	var a bytes.Buffer
	zz.Assert(p.Encode(c, &a) == nil, "encoding failed")
	rd := bytes.NewReader(a.Bytes())
	zz.Assert(fresh.Decode(c, rd) == nil, "the proxy cannot decode its own encoding of a packet")
	zz.Assert(rd.Len() == 0, "decoding did not consume every byte of the encoding")
	var b bytes.Buffer
	zz.Assert(fresh.Encode(c, &b) == nil, "re-encoding failed")
	zz.Assert(bytes.Equal(a.Bytes(), b.Bytes()), "re-encoding the decoded packet gives different bytes")
}

func zzStr4(max int) string { return zz.String(zz.Choose(max + 1)) }

// Client settings: the field set changes at 1.8, 1.9, 1.12, 1.17, 1.18 and 1.21.2.
func VerifHarness_ClientSettings() {
	zz.MaxLen(3)
	c := &proto.PacketContext{Direction: proto.ServerBound, Protocol: zzP4()}
	s := &ClientSettings{Locale: zzStr4(3), ViewDistance: zz.Byte(), ChatVisibility: int(zz.Byte() & 3), ChatColors: zz.Bool(), Difficulty: zz.Byte(),
		SkinParts: zz.Byte(), MainHand: int(zz.Byte() & 1), TextFilteringEnabled: zz.Bool(), ClientListingAllowed: zz.Bool(), ParticleStatus: int(zz.Byte() & 3)}
	var back ClientSettings
	zzRoundTrip4(s, &back, c)
	zz.Assert(back.Locale == s.Locale && back.ViewDistance == s.ViewDistance && back.ChatVisibility == s.ChatVisibility && back.ChatColors == s.ChatColors, "client settings fields that exist in every version changed in the round trip")
	zz.Reach("client-settings")
}

// Login plugin response, encryption response (without salt), status ping, tab-complete request.
func VerifHarness_MoreServerbound() {
	zz.MaxLen(3)
	c := &proto.PacketContext{Direction: proto.ServerBound, Protocol: zzP4()}
	switch zz.Choose(3) {
	case 0:
		p := &LoginPluginResponse{ID: int(zz.Int32()), Success: zz.Bool(), Data: zz.Bytes(zz.Choose(4))}
		var back LoginPluginResponse
		zzRoundTrip4(p, &back, c)
		zz.Assert(back.ID == p.ID && back.Success == p.Success, "login plugin response fields changed in the round trip")
		if p.Success {
			zz.Assert(bytes.Equal(back.Data, p.Data), "login plugin response data changed in the round trip")
		}
		zz.Reach("login-plugin-response")
	case 1:
		p := &StatusPing{}
		var back StatusPing
		zzRoundTrip4(p, &back, c)
		zz.Reach("status-ping")
	case 2:
		zz.Assume(c.Protocol >= 47)
		p := &TabCompleteRequest{Command: "/" + zzStr4(2), TransactionID: int(zz.Int32()), AssumeCommand: zz.Bool()}
		var back TabCompleteRequest
		zzRoundTrip4(p, &back, c)
		zz.Assert(back.Command == p.Command, "the tab-complete command changed in the round trip")
		zz.Reach("tab-complete-request")
	}
}

func VerifMutant_RoundTrip() {
	c := &proto.PacketContext{Protocol: 767}
	s := &SetCompression{Threshold: int(zz.Int32())}
	var a bytes.Buffer
	_ = s.Encode(c, &a)
	zz.Assert(a.Len() == 1, "control: thresholds above 127 need more than one byte")
}

// Tab-complete response: transaction, range and a list of offers each with an optional tooltip (1.13+);
// a plain list of strings before. Every offer keeps its own text and its own tooltip-or-none.
func VerifHarness_TabCompleteResponse() {
	zz.MaxLen(3)
	// tooltips are JSON text components below 1.20.3; normalising the JSON is not the subject
	zz.Replace("go.minekube.com/gate/pkg/edition/java/proto/packet/chat.componentObjectJSON", func(j json.RawMessage) (json.RawMessage, error) { return j, nil })
	p4 := zz.Int32()
	zz.Assume(p4 >= 4 && p4 < 765) // tooltips are NBT from 1.20.3 (outside the claim)
	c := &proto.PacketContext{Direction: proto.ClientBound, Protocol: proto.Protocol(p4)}
	t := &TabCompleteResponse{TransactionID: int(zz.Int32()), Start: int(zz.Int32()), Length: int(zz.Int32())}
	n := zz.Choose(3)
	if zz.Thorough() {
		n = zz.Choose(4)
	}
	for i := 0; i < n; i++ {
		o := TabCompleteOffer{Text: "o" + zzStr4(1)}
		if zz.Bool() {
			o.Tooltip = &chat.ComponentHolder{Protocol: c.Protocol, JSON: json.RawMessage(`{"text":"t` + string([]byte{'0' + byte(i)}) + `"}`)}
		}
		t.Offers = append(t.Offers, o)
	}
	var back TabCompleteResponse
	zzRoundTrip4(t, &back, c)
	zz.Assert(len(back.Offers) == n, "the number of offers changed in the round trip")
	for i, o := range t.Offers {
		b := back.Offers[i]
		zz.Assert(b.Text == o.Text, "an offer's text changed in the round trip")
		if p4 >= 393 {
			zz.Assert((b.Tooltip != nil) == (o.Tooltip != nil), "an offer without a tooltip came back with one (or the reverse)")
			if o.Tooltip != nil {
				zz.Assert(string(b.Tooltip.JSON) == string(o.Tooltip.JSON), "an offer's tooltip changed in the round trip")
			}
		} else {
			zz.Assert(b.Tooltip == nil, "a pre-1.13 offer came back with a tooltip")
		}
	}
	zz.Reach("tab-complete-response")
}
