package uuid

import (
	zz "go.minekube.com/gate/pkg/internal/zzverif"
)

// OfflinePlayerUUID(name) = MD5("OfflinePlayer:" + name) with version 3 / RFC 4122 variant bits, every
// other digest bit untouched. MD5 itself is replaced by a recorder returning an arbitrary digest.
func VerifHarness_OfflineUUID() {
	max := 4
	if zz.Thorough() {
		max = 8
	}
	zz.MaxLen(max)
	name := zz.String(zz.Choose(max + 1))
	digest := zz.Bytes(16)
	var fed []byte
	calls := 0
	zz.Replace("crypto/md5.Sum", func(data []byte) [16]byte {
		calls++
		fed = append([]byte{}, data...)
		var out [16]byte
		copy(out[:], digest)
		return out
	})
	id := OfflinePlayerUUID(name)
	zz.Assert(calls == 1 && string(fed) == "OfflinePlayer:"+name, "the offline UUID is not the MD5 of \"OfflinePlayer:\" followed by the exact name bytes")
	zz.Assert(id[6]>>4 == 3, "the offline UUID is not version 3")
	zz.Assert(id[8]>>6 == 2, "the offline UUID does not carry the RFC 4122 variant")
	for i := 0; i < 16; i++ {
		switch i {
		case 6:
			zz.Assert(id[i]&0x0f == digest[i]&0x0f, "digest bits were lost in byte 6")
		case 8:
			zz.Assert(id[i]&0x3f == digest[i]&0x3f, "digest bits were lost in byte 8")
		default:
			zz.Assert(id[i] == digest[i], "UUID bytes differ from the MD5 digest")
		}
	}
	zz.Reach("offline-uuid")
}

// Names around and beyond the 16-character limit (offline UUIDs are computed for whatever name the
// login carries): 14 fixed bytes followed by 0..4 arbitrary bytes.
func VerifHarness_OfflineUUIDLong() {
	zz.MaxLen(4)
	name := "Abcdefghij0123" + zz.String(zz.Choose(5))
	digest := zz.Bytes(16)
	var fed []byte
	zz.Replace("crypto/md5.Sum", func(data []byte) [16]byte {
		fed = append([]byte{}, data...)
		var out [16]byte
		copy(out[:], digest)
		return out
	})
	id := OfflinePlayerUUID(name)
	zz.Assert(string(fed) == "OfflinePlayer:"+name, "the offline UUID of a long name is not derived from the whole name")
	zz.Assert(id[6]>>4 == 3 && id[8]>>6 == 2 && id[0] == digest[0] && id[15] == digest[15], "the offline UUID of a long name is not the version-3 form of the digest")
	zz.Reach("offline-uuid-long")
}

func VerifMutant_OfflineUUID() {
	digest := zz.Bytes(16)
	zz.Replace("crypto/md5.Sum", func(data []byte) [16]byte {
		var out [16]byte
		copy(out[:], digest)
		return out
	})
	id := OfflinePlayerUUID("x")
	zz.Assert(id[6] == digest[6], "control: the version nibble overwrites digest bits")
}
