package uuid

import (
	zz "go.minekube.com/gate/pkg/internal/zzverif"
)

// OfflinePlayerUUID(name) = MD5("OfflinePlayer:" + name) with version 3 / RFC 4122 variant bits, every
// other digest bit untouched. MD5 itself is replaced by a recorder returning an arbitrary digest.
func VerifHarness_OfflineUUID() {
	max := 4
	if zz.Thorough() {
		max = 8
	}
	zz.MaxLen(max)
	name := zz.String(zz.Choose(max + 1))
	digest := zz.Bytes(16)
	var fed []byte
	calls := 0
	zz.Replace("crypto/md5.Sum", func(data []byte) [16]byte {
		calls++
		fed = append([]byte{}, data...)
		var out [16]byte
		copy(out[:], digest)
		return out
	})
	id := OfflinePlayerUUID(name)
	zz.Assert(calls == 1 && string(fed) == "OfflinePlayer:"+name, "the offline UUID is not the MD5 of \"OfflinePlayer:\" followed by the exact name bytes")
	zz.Assert(id[6]>>4 == 3, "the offline UUID is not version 3")
	zz.Assert(id[8]>>6 == 2, "the offline UUID does not carry the RFC 4122 variant")
	for i := 0; i < 16; i++ {
		switch i {
		case 6:
			zz.Assert(id[i]&0x0f == digest[i]&0x0f, "digest bits were lost in byte 6")
		case 8:
			zz.Assert(id[i]&0x3f == digest[i]&0x3f, "digest bits were lost in byte 8")
		default:
			zz.Assert(id[i] == digest[i], "UUID bytes differ from the MD5 digest")
		}
	}
	zz.Reach("offline-uuid")
}

func VerifMutant_OfflineUUID() {
	digest := zz.Bytes(16)
	zz.Replace("crypto/md5.Sum", func(data []byte) [16]byte {
		var out [16]byte
		copy(out[:], digest)
		return out
	})
	id := OfflinePlayerUUID("x")
	zz.Assert(id[6] == digest[6], "control: the version nibble overwrites digest bits")
}
