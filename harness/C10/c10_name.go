package proxy

import (
	zz "go.minekube.com/gate/pkg/internal/zzverif"
)

func zzValidNameByte(c byte) bool {
	return c >= 'A' && c <= 'Z' || c >= 'a' && c <= 'z' || c >= '0' && c <= '9' || c == '_'
}

func zzValidName(s string) bool {
	if len(s) < 2 || len(s) > 16 {
		return false
	}
	ok := true
	for i := 0; i < len(s); i++ {
		ok = ok && zzValidNameByte(s[i])
	}
	return ok
}

// The login username check (Go's regexp matcher executed symbolically on the compiled
// playerNameRegex) accepts exactly the names of 2..16 characters from [A-Za-z0-9_]: every byte
// string of length 0..3 (quick) / 0..4 (thorough).
func VerifHarness_UsernameShort() {
	max := 3
	if zz.Thorough() {
		max = 4
	}
	zz.MaxLen(max)
	zz.Unwind(400)
	name := zz.String(zz.Choose(max + 1))
	got := playerNameRegex.MatchString(name)
	zz.Assert(got == zzValidName(name), "the username check differs from '2 to 16 characters of A-Z a-z 0-9 _'")
	if got {
		zz.Reach("short-accepted")
	} else {
		zz.Reach("short-rejected")
	}
}

// Boundary lengths: 14..15 fixed valid characters followed by 0..3 arbitrary bytes (lengths 14..18).
func VerifHarness_UsernameBoundary() {
	zz.MaxLen(3)
	zz.Unwind(400)
	prefix := "Abcdefghij0123"
	if zz.Bool() {
		prefix += "_"
	}
	name := prefix + zz.String(zz.Choose(4))
	got := playerNameRegex.MatchString(name)
	zz.Assert(got == zzValidName(name), "the username check differs from '2 to 16 characters of A-Z a-z 0-9 _' at the length boundary")
	if got {
		zz.Reach("boundary-accepted")
	} else {
		zz.Reach("boundary-rejected")
	}
}

func VerifMutant_Username() {
	zz.MaxLen(2)
	zz.Unwind(400)
	name := zz.String(2)
	zz.Assert(playerNameRegex.MatchString(name), "control: not every 2-byte string is a valid name")
}
