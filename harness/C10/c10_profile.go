package profile

import (
	zz "go.minekube.com/gate/pkg/internal/zzverif"
	"go.minekube.com/gate/pkg/util/uuid"
)

// The profile of an offline-mode login carries the name unchanged and the vanilla offline UUID of
// exactly that name (this is the id the client and, without forwarding, the backend compute too).
func VerifHarness_OfflineProfile() {
	zz.MaxLen(3)
	name := zz.String(zz.Choose(4))
	digest := zz.Bytes(16)
	var fed []byte
	zz.Replace("crypto/md5.Sum", func(data []byte) [16]byte {
		fed = append([]byte{}, data...)
		var out [16]byte
		copy(out[:], digest)
		return out
	})
	p := NewOffline(name)
	zz.Assert(p != nil && p.Name == name, "the offline profile does not carry the login name unchanged")
	zz.Assert(string(fed) == "OfflinePlayer:"+name, "the offline profile's UUID is not derived from the login name")
	want := uuid.OfflinePlayerUUID(name)
	zz.Assert(p.ID == want, "the offline profile's UUID is not the vanilla offline UUID of its name")
	zz.Reach("offline-profile")
}
