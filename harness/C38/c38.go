package reload

import (
	"context"
	"errors"
	"time"

	"github.com/fsnotify/fsnotify"
	zz "go.minekube.com/gate/pkg/internal/zzverif"
)

// ---- the environment: a file, a watcher whose notifications may be lost, and two timers the world fires ----

type zzWorld struct {
	file      byte // 0 = missing, 1.. = content
	timerCh   chan time.Time
	tickCh    chan time.Time
	armed     bool
	events    chan fsnotify.Event
	errs      chan error
	watchers  int
	fpCalls   int
	lastFp    contentFingerprint // the fingerprint the loop saw last
	evaluated contentFingerprint // ghost: what the callback was last run for (or the initial content)
	calls     int
	cbFails   bool
}

func (w *zzWorld) fp() contentFingerprint {
	if w.file == 0 {
		return contentFingerprint{state: 2}
	}
	f := contentFingerprint{state: 1}
	f.sum[0] = w.file
	return f
}

type zzWatcher struct{ w *zzWorld }

func (x *zzWatcher) Events() <-chan fsnotify.Event { return x.w.events }
func (x *zzWatcher) Errors() <-chan error          { return x.w.errs }
func (x *zzWatcher) Close() error                  { return nil }

const (
	zzDir  = "/etc/gate"
	zzName = "config.yml"
	zzPath = zzDir + "/" + zzName
)

func (w *zzWorld) install() {
	zz.Replace("go.minekube.com/gate/pkg/internal/reload.fingerprint", func(path string) contentFingerprint {
		zz.Yield() // reading the file takes time: the world may act meanwhile
		w.lastFp = w.fp()
		w.fpCalls++
		zz.GhostSet(w, "fp", w.fpCalls)
		return w.lastFp
	})
	zz.Replace("time.NewTicker", func(d time.Duration) *time.Ticker { return &time.Ticker{C: w.tickCh} })
	zz.Replace("(*time.Ticker).Stop", func(t *time.Ticker) {})
	zz.Replace("time.NewTimer", func(d time.Duration) *time.Timer { w.armed = true; return &time.Timer{C: w.timerCh} })
	zz.Replace("(*time.Timer).Stop", func(t *time.Timer) bool { was := w.armed; w.armed = false; return was })
	zz.Replace("(*time.Timer).Reset", func(t *time.Timer, d time.Duration) bool { was := w.armed; w.armed = true; return was })
	zz.Replace("time.Now", func() time.Time { return time.Unix(1_700_000_000, 0) })
}

// the callback: the property's observation point
func (w *zzWorld) callback() error {
	w.calls++
	zz.Assert(w.lastFp != w.evaluated, "the reload callback ran for content equal to what was last evaluated")
	w.evaluated = w.lastFp
	if w.cbFails {
		return Reject("invalid")
	}
	return nil
}

func (w *zzWorld) tick() {
	select {
	case w.tickCh <- time.Time{}:
	default: // a tick is already pending: the runtime drops this one
	}
}

func (w *zzWorld) fireDebounce() bool {
	if !w.armed {
		return false
	}
	w.armed = false
	w.timerCh <- time.Time{}
	return true
}

// barrier hands the loop an event for another file: it is received only when the loop is back in its
// select, so everything received before it has been processed completely.
func (w *zzWorld) barrier() {
	w.events <- fsnotify.Event{Name: zzDir + "/other.txt", Op: fsnotify.Write}
}

// Any short history of writes, deletions and re-creations, with notifications delivered, lost or
// duplicated, ticks and debounce expiries at arbitrary moments and an optional watcher failure: the
// callback never runs for content equal to what it last evaluated, and once the content stays put, one
// reconciliation tick plus the debounce expiry is enough for the callback to have run for it.
func VerifHarness_ReloadConvergesOnFinalContent() {
	zz.MaxPreempt(2)
	if zz.Thorough() {
		zz.MaxPreempt(3)
	}
	w := &zzWorld{file: 1, timerCh: make(chan time.Time, 1), tickCh: make(chan time.Time, 1),
		events: make(chan fsnotify.Event), errs: make(chan error), cbFails: zz.Bool()}
	w.install()
	w.evaluated = w.fp()
	ctx, cancel := context.WithCancel(context.Background())
	opts := watchOptions{reconcileInterval: time.Second, newWatcher: func(string) (eventWatcher, error) {
		w.watchers++
		if zz.Bool() {
			return nil, errors.New("inotify limit reached")
		}
		return &zzWatcher{w}, nil
	}}
	watching := true
	initial := w.fp() // watchWithOptions fingerprints the file before it starts the loop
	zz.Go(func() { runWatchLoop(ctx, zzPath, zzDir, zzName, initial, &zzWatcher{w}, w.callback, opts) })

	steps := 3 // the thorough tier keeps three actions and allows one more preemption
	notify := func() {
		if watching {
			w.events <- fsnotify.Event{Name: zzPath, Op: fsnotify.Write}
		}
	}
	for i := 0; i < steps; i++ {
		switch zz.Choose(7) {
		case 0: // write / atomic replace with content A or B, noticed by the watcher
			w.file = 1 + byte(zz.Choose(2))
			notify()
		case 1: // the same, but the notification is lost
			w.file = 1 + byte(zz.Choose(2))
		case 2: // delete (noticed or not)
			w.file = 0
			if zz.Bool() {
				notify()
			}
		case 3: // a stale or duplicated notification
			notify()
		case 4:
			w.tick()
		case 5:
			w.fireDebounce()
		case 6:
			if watching { // the watcher fails: the loop drops it and re-attaches on a later tick
				w.errs <- errors.New("overflow")
				watching = false
			}
		}
	}
	// the content now stays unchanged. A tick the loop has processed completely is recognised by a second
	// tick being taken up (the loop reads the file first thing in a tick).
	final := w.fp()
	settle := func() {
		for k := 0; k < 2; k++ {
			old := w.fpCalls
			w.tick()
			zz.WaitGhostNe(w, "fp", old)
		}
	}
	settle()                // one reconciliation tick (and one more to know it is done) ...
	if w.fireDebounce() { // ... plus the debounce expiry
		settle()
	}
	if len(w.timerCh) == 0 {
		zz.Assert(w.lastFp == final, "the loop did not look at the file after it stopped changing")
		zz.Assert(w.evaluated == final, "after the content stayed unchanged for a reconciliation tick and the debounce, the callback had not run for it")
		zz.Reach("converged")
	}
	zz.Assert(w.calls <= steps+1, "the callback ran more often than the content changed")
	cancel()
	zz.Reach("history")
}

func VerifMutant_Reload() {
	zz.MaxPreempt(1)
	w := &zzWorld{file: 1, timerCh: make(chan time.Time, 1), tickCh: make(chan time.Time, 1), events: make(chan fsnotify.Event), errs: make(chan error)}
	w.install()
	w.evaluated = w.fp()
	ctx, cancel := context.WithCancel(context.Background())
	initial := w.fp()
	zz.Go(func() {
		runWatchLoop(ctx, zzPath, zzDir, zzName, initial, &zzWatcher{w}, w.callback, watchOptions{reconcileInterval: time.Second})
	})
	w.file = 2
	w.events <- fsnotify.Event{Name: zzPath, Op: fsnotify.Write}
	w.barrier()
	w.fireDebounce()
	w.barrier()
	w.barrier()
	zz.Assert(w.calls == 0 || len(w.timerCh) == 1, "control: a changed file is reloaded")
	cancel()
}
