package gate

import (
	"context"
	"errors"
	"reflect"

	"go.minekube.com/gate/pkg/edition/java/auth"
	jconfig "go.minekube.com/gate/pkg/edition/java/config"
	liteconfig "go.minekube.com/gate/pkg/edition/java/lite/config"
	jproxy "go.minekube.com/gate/pkg/edition/java/proxy"
	"go.minekube.com/gate/pkg/gate/config"
	zz "go.minekube.com/gate/pkg/internal/zzverif"
)

// ---- stand-ins for the reflection-driven encoders and the hash ----
//
// encoding/json: a configuration's "content" is what the harness varies - the bind address, the
// compression level, the health service flag, whether Lite is enabled, and the routes (first host,
// first backend, strategy). The stand-in Marshal writes exactly that content in a canonical form and
// Unmarshal reads routes back, so "equal JSON" means "equal content" as with the real encoder.

func zzEncRoutes(rs []liteconfig.Route) []byte {
	var b []byte
	for _, r := range rs {
		b = append(b, 'R')
		if len(r.Host) > 0 {
			b = append(b, r.Host[0]...)
		}
		b = append(b, '>')
		if len(r.Backend) > 0 {
			b = append(b, r.Backend[0]...)
		}
		b = append(b, '/')
		b = append(b, r.Strategy...)
		b = append(b, ';')
	}
	return b
}

func zzDecRoutes(b []byte) []liteconfig.Route {
	var out []liteconfig.Route
	i := 0
	for i < len(b) && b[i] == 'R' {
		i++
		j := i
		for b[j] != '>' {
			j++
		}
		host := string(b[i:j])
		i = j + 1
		for b[j] != '/' {
			j++
		}
		backend := string(b[i:j])
		i = j + 1
		for b[j] != ';' {
			j++
		}
		strategy := string(b[i:j])
		i = j + 1
		r := liteconfig.Route{Strategy: liteconfig.Strategy(strategy)}
		if host != "" {
			r.Host = []string{host}
		}
		if backend != "" {
			r.Backend = []string{backend}
		}
		out = append(out, r)
	}
	return out
}

func zzEncConfig(c *config.Config) []byte {
	if c == nil {
		return []byte("null")
	}
	b := []byte("B" + c.Config.Bind + "|")
	b = append(b, byte('0'+c.Config.Compression.Level), '|')
	if c.HealthService.Enabled {
		b = append(b, 'H')
	}
	if c.Config.Lite.Enabled {
		b = append(b, 'L')
	}
	b = append(b, '|')
	return append(b, zzEncRoutes(c.Config.Lite.Routes)...)
}

type zzHashTable struct{ seen [][]byte }

// sum is an ideal hash: equal inputs get equal digests, different inputs different ones.
func (t *zzHashTable) sum(data []byte) (out [32]byte) {
	for i, s := range t.seen {
		if string(s) == string(data) {
			out[0] = byte(i + 1)
			return out
		}
	}
	t.seen = append(t.seen, append([]byte(nil), data...))
	out[0] = byte(len(t.seen))
	return out
}

func zzStubs35() {
	zz.Replace("fmt.Errorf", func(format string, a ...any) error { return errors.New("err") })
	zz.Replace("encoding/json.Marshal", func(v any) ([]byte, error) {
		switch x := v.(type) {
		case *config.Config:
			return zzEncConfig(x), nil
		case []liteconfig.Route:
			return zzEncRoutes(x), nil
		case *liteconfig.Route:
			return zzEncRoutes([]liteconfig.Route{*x}), nil
		}
		zz.Assert(false, "unexpected value marshalled")
		return nil, nil
	})
	zz.Replace("encoding/json.Unmarshal", func(data []byte, v any) error {
		p, ok := v.(*[]liteconfig.Route)
		zz.Assert(ok, "unexpected value unmarshalled")
		*p = zzDecRoutes(data)
		return nil
	})
	ht := &zzHashTable{}
	zz.Replace("crypto/sha256.Sum256", func(data []byte) [32]byte { return ht.sum(data) })
	zz.Replace("go.minekube.com/gate/pkg/edition/java/lite.ResetPingCache", func() {})
}

// ---- configurations ----

func zzRoute(host, backend string) liteconfig.Route {
	return liteconfig.Route{Host: []string{host}, Backend: []string{backend}}
}

func zzConfig35(routes ...liteconfig.Route) *config.Config {
	c := &config.Config{Config: jconfig.DefaultConfig}
	c.Config.Servers = nil
	c.Config.Try = nil
	c.Config.Quota.Connections.Enabled = false
	c.Config.Quota.Logins.Enabled = false
	c.Config.Lite.Enabled = true
	c.Config.Lite.Routes = routes
	return c
}

const (
	zzNil = iota
	zzSame
	zzRoutesA
	zzRoutesB
	zzRoutesTwo
	zzRoutesInvalid
	zzOtherChanged
	zzOtherAndRoutes
	zzOtherInvalid
	zzLiteOff
	zzKinds
)

// zzCandidate builds a candidate relative to the current published configuration.
func zzCandidate(kind int, cur *config.Config) *config.Config {
	if kind == zzNil {
		return nil
	}
	c := *cur
	c.Config.Lite.Routes = append([]liteconfig.Route(nil), cur.Config.Lite.Routes...)
	switch kind {
	case zzRoutesA:
		c.Config.Lite.Routes = []liteconfig.Route{zzRoute("a.example.com", "backend-a:25565")}
	case zzRoutesB:
		c.Config.Lite.Routes = []liteconfig.Route{zzRoute("a.example.com", "backend-b:25565")}
	case zzRoutesTwo:
		c.Config.Lite.Routes = []liteconfig.Route{zzRoute("a.example.com", "backend-a:25565"), zzRoute("*.example.com", "backend-c:25565")}
	case zzRoutesInvalid:
		c.Config.Lite.Routes = []liteconfig.Route{{Host: []string{"a.example.com"}}} // no backend
	case zzOtherChanged:
		c.Config.Compression.Level = 5
	case zzOtherAndRoutes:
		c.HealthService.Enabled = true
		c.HealthService.Bind = "0.0.0.0:9090"
		c.Config.Lite.Routes = []liteconfig.Route{zzRoute("a.example.com", "backend-b:25565")}
	case zzOtherInvalid:
		c.Config.Bind = "nonsense"
	case zzLiteOff:
		c.Config.Lite.Enabled = false
	}
	return &c
}

func zzNewGate(initial *config.Config) *Gate {
	zz.Replace("(*go.minekube.com/gate/pkg/edition/java/proxy.Proxy).initMeter", func(p *jproxy.Proxy) error { return nil })
	jp, err := jproxy.New(jproxy.Options{Config: &initial.Config, Authenticator: zzAuthn{}})
	zz.Assert(err == nil && jp != nil, "the proxy could not be constructed")
	g := &Gate{javaProxy: jp}
	g.currentConfig.Store(initial)
	return g
}

// zzExpect computes the documented outcome of applying candidate to current.
func zzExpect(cur, cand *config.Config) (code string, next *config.Config) {
	if cand == nil {
		return "invalid", cur
	}
	if string(zzEncConfig(cur)) == string(zzEncConfig(cand)) {
		return "unchanged", cur
	}
	if _, errs := cand.Validate(); len(errs) != 0 {
		return "invalid", cur
	}
	curNoRoutes, candNoRoutes := *cur, *cand
	curNoRoutes.Config.Lite.Routes, candNoRoutes.Config.Lite.Routes = nil, nil
	if !cur.Config.Lite.Enabled || !cand.Config.Lite.Enabled || string(zzEncConfig(&curNoRoutes)) != string(zzEncConfig(&candNoRoutes)) {
		return "unsupported", cur
	}
	n := *cur
	n.Config.Lite.Routes = cand.Config.Lite.Routes
	return "applied", &n
}

// A sequence of live applications, unconditional or with an expected version that is fresh, stale or
// garbage: every outcome is the documented one; a rejected candidate leaves configuration, version and
// the proxy's routes untouched; the version is the same string exactly for the same content.
func VerifHarness_SequentialApplies() {
	zzStubs35()
	initial := zzConfig35(zzRoute("a.example.com", "backend-a:25565"))
	g := zzNewGate(initial)
	v0, err := configVersion(initial)
	zz.Assert(err == nil, "no version for the initial configuration")
	versions := map[string]string{string(zzEncConfig(initial)): v0} // content -> version seen
	cur := initial
	stale := "not-a-version"
	steps := 2
	if zz.Thorough() {
		steps = 3
	}
	for s := 0; s < steps; s++ {
		curVersion, _ := configVersion(g.currentConfig.Load())
		cand := zzCandidate(zz.Choose(zzKinds), cur)
		mode := zz.Choose(3) // 0 unconditional, 1 fresh version, 2 stale version
		var res LiveConfigResult
		wantCode, next := zzExpect(cur, cand)
		switch mode {
		case 0:
			res = g.ApplyLiveConfig(cand)
		case 1:
			res = g.ApplyLiveConfigIfVersion(cand, curVersion)
		case 2:
			res = g.ApplyLiveConfigIfVersion(cand, stale)
			if stale != curVersion {
				wantCode, next = "precondition_failed", cur
			}
		}
		zz.Assert(res.Code == wantCode, "a live application did not have the documented outcome (applied / unchanged / invalid / unsupported / precondition_failed)")
		zz.Assert(res.Applied == (wantCode == "applied") && res.Unchanged == (wantCode == "unchanged"), "the result flags contradict the result code")
		published := g.currentConfig.Load()
		zz.Assert(string(zzEncConfig(published)) == string(zzEncConfig(next)), "the published configuration is not the expected complete configuration (a rejected candidate changed it, or an accepted one was not published whole)")
		newVersion, _ := configVersion(published)
		if wantCode != "applied" {
			zz.Assert(published == cur && newVersion == curVersion, "a rejected or unchanged application replaced the configuration or changed the version")
		} else {
			zz.Assert(res.Version == newVersion && newVersion != curVersion, "an applied change did not produce a new version, or the result reports another one")
			// the caller keeps its candidate and may edit it afterwards: the published snapshot is its own copy
			before := string(zzEncConfig(published))
			for i := range cand.Config.Lite.Routes {
				r := &cand.Config.Lite.Routes[i]
				if len(r.Backend) > 0 {
					r.Backend[0] = "edited-later:1"
				}
				if len(r.Host) > 0 {
					r.Host[0] = "edited.example.com"
				}
			}
			after, _ := configVersion(g.currentConfig.Load())
			zz.Assert(string(zzEncConfig(g.currentConfig.Load())) == before && after == newVersion, "editing the candidate after it was applied changed the published configuration or its version (the snapshot shares memory with the caller)")
			pcr := g.javaProxy.Config().Lite.Routes
			zz.Assert(string(zzEncRoutes(pcr)) == string(zzEncRoutes(published.Config.Lite.Routes)), "editing the candidate after it was applied changed the proxy's routes")
			zz.Reach("applied")
		}
		content := string(zzEncConfig(published))
		if v, ok := versions[content]; ok {
			zz.Assert(v == newVersion, "the same configuration content got a different version")
		}
		for c, v := range versions {
			if c != content {
				zz.Assert(v != newVersion, "different configuration content shares a version")
			}
		}
		versions[content] = newVersion
		// the proxy routes follow the published configuration
		pc := g.javaProxy.Config()
		zz.Assert(reflect.DeepEqual(pc.Lite.Routes, published.Config.Lite.Routes) || string(zzEncRoutes(pc.Lite.Routes)) == string(zzEncRoutes(published.Config.Lite.Routes)), "the proxy routes differ from the published configuration")
		stale = curVersion
		cur = published
	}
	zz.Reach("sequence")
}

// Two concurrent conditional appliers holding the same (fresh) version, with different valid route
// changes: exactly one wins, the other is refused with precondition_failed, and the published
// configuration is the winner's, whole.
func VerifHarness_ConcurrentCompareAndSwap() {
	zz.MaxPreempt(2)
	zzStubs35()
	initial := zzConfig35(zzRoute("a.example.com", "backend-a:25565"))
	g := zzNewGate(initial)
	v0, _ := configVersion(initial)
	candA := zzCandidate(zzRoutesB, initial)
	candB := zzCandidate(zzRoutesTwo, initial)
	var ra, rb LiveConfigResult
	zz.Go(func() { ra = g.ApplyLiveConfigIfVersion(candA, v0) })
	zz.Go(func() { rb = g.ApplyLiveConfigIfVersion(candB, v0) })
	zz.WaitAll()
	zz.Assert(ra.Applied != rb.Applied, "two conditional applies with the same expected version both succeeded (or both failed)")
	loser, winner := rb, candA
	if rb.Applied {
		loser, winner = ra, candB
	}
	zz.Assert(loser.Code == "precondition_failed", "the losing conditional apply was not refused with precondition_failed")
	published := g.currentConfig.Load()
	zz.Assert(string(zzEncConfig(published)) == string(zzEncConfig(winner)), "the published configuration is not the winner's complete candidate")
	pv, _ := configVersion(published)
	zz.Assert(loser.Version == pv, "the refused applier was not told the current version")
	zz.Reach("cas")
}

type zzAuthn struct{}

func (zzAuthn) PublicKey() []byte                         { return nil }
func (zzAuthn) Verify(a, b []byte) (bool, error)          { return false, nil }
func (zzAuthn) DecryptSharedSecret([]byte) ([]byte, error) { return nil, nil }
func (zzAuthn) GenerateServerID([]byte) (string, error)    { return "", nil }
func (zzAuthn) AuthenticateJoin(context.Context, string, string, string) (auth.Response, error) {
	return nil, errors.New("unused")
}
func (zzAuthn) SetHasJoinedURLFn(auth.HasJoinedURLFn) {}

func VerifMutant_LiveConfig() {
	zzStubs35()
	initial := zzConfig35(zzRoute("a.example.com", "backend-a:25565"))
	g := zzNewGate(initial)
	res := g.ApplyLiveConfig(zzCandidate(zzRoutesB, initial))
	zz.Assert(!res.Applied, "control: a route-only change is applied")
}
