package auth

import (
	"hash"

	zz "go.minekube.com/gate/pkg/internal/zzverif"
)

// zzSHA stands in for SHA-1: it records what is hashed and returns an arbitrary 20-byte digest.
type zzSHA struct {
	in  []byte
	out []byte
}

func (h *zzSHA) Write(p []byte) (int, error) { h.in = append(h.in, p...); return len(p), nil }
func (h *zzSHA) Sum(b []byte) []byte         { return append(b, h.out...) }
func (h *zzSHA) Reset()                      { h.in = nil }
func (h *zzSHA) Size() int                   { return 20 }
func (h *zzSHA) BlockSize() int              { return 64 }

// zzJavaHex is the reference: new BigInteger(digest).toString(16) of Java, written independently of
// the implementation (borrow-based negation, branch-free hex digits).
func zzJavaHex(d []byte) string {
	neg := d[0]&0x80 != 0
	mag := make([]byte, len(d))
	if neg {
		borrow := 0
		for i := len(d) - 1; i >= 0; i-- {
			v := 0 - int(d[i]) - borrow
			mag[i] = byte(v)
			// branch-free: borrow = 1 iff d[i]+borrow > 0
			borrow = (int(d[i]) + borrow + 255) >> 8
		}
	} else {
		copy(mag, d)
	}
	digits := make([]byte, 0, 2*len(d))
	for _, b := range mag {
		for _, n := range [2]byte{b >> 4, b & 0x0f} {
			digits = append(digits, '0'+n+39*((n+6)>>4))
		}
	}
	i := 0
	for i < len(digits)-1 && digits[i] == '0' {
		i++
	}
	s := string(digits[i:])
	if neg {
		return "-" + s
	}
	return s
}

func VerifHarness_ServerID() {
	zz.MaxLen(20)
	zz.Unwind(64)
	h := &zzSHA{out: zz.Bytes(20)}
	zz.Replace("crypto/sha1.New", func() hash.Hash { return h })
	ns, np := 2, 3
	secret := zz.Bytes(ns)
	pub := zz.Bytes(np)
	a := &authenticator{public: pub}
	// assumption (DESIGN.md C09): the all-zero digest has no known SHA-1 preimage; Java prints "0" for it
	nonzero := false
	for _, b := range h.out {
		nonzero = nonzero || b != 0
	}
	zz.Assume(nonzero)
	id, err := a.GenerateServerID(secret)
	zz.Assert(err == nil, "GenerateServerID failed")
	// the digest must be over secret followed by the public key
	zz.Assert(len(h.in) == ns+np, "hash input has the wrong length")
	for i := 0; i < ns; i++ {
		zz.Assert(h.in[i] == secret[i], "hash input does not start with the shared secret")
	}
	for i := 0; i < np; i++ {
		zz.Assert(h.in[ns+i] == pub[i], "hash input does not end with the public key")
	}
	want := zzJavaHex(h.out)
	zz.Assert(id == want, "server id differs from Java's BigInteger(digest).toString(16)")
	if id[0] == '-' {
		zz.Reach("negative-digest")
	} else {
		zz.Reach("positive-digest")
	}
	if len(id) < 39 {
		zz.Reach("leading-zero-nibbles")
	}
}

// carries across all 20 bytes: digest = 0x80 00 .. 00 (the most negative value)
func VerifHarness_ServerIDCarry() {
	out := make([]byte, 20)
	out[0] = 0x80
	k := zz.Choose(20)
	// any suffix of zero bytes below a symbolic byte
	out[k] |= zz.Byte()
	if k == 0 {
		zz.Assume(out[0]&0x80 != 0)
	}
	h := &zzSHA{out: out}
	zz.Replace("crypto/sha1.New", func() hash.Hash { return h })
	a := &authenticator{}
	id, err := a.GenerateServerID(nil)
	zz.Assert(err == nil && id == zzJavaHex(out), "server id differs from the reference on a long carry chain")
	zz.Reach("carry")
}

func VerifMutant_ServerID() {
	h := &zzSHA{out: zz.Bytes(20)}
	zz.MaxLen(20)
	zz.Replace("crypto/sha1.New", func() hash.Hash { return h })
	a := &authenticator{}
	id, _ := a.GenerateServerID(nil)
	// control: ones' complement instead of two's complement must be caught
	d := append([]byte(nil), h.out...)
	zz.Assume(d[0]&0x80 != 0)
	for i := range d {
		d[i] = ^d[i]
	}
	d[0] &= 0x7f
	zz.Assert(id == "-"+zzJavaHex(d), "control")
}
