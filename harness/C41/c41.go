package connectutil

import (
	"bytes"

	"go.minekube.com/connect"
	"google.golang.org/protobuf/reflect/protoreflect"

	zz "go.minekube.com/gate/pkg/internal/zzverif"
)

// ---- a protoreflect.Message whose descriptor knows none of fields 6..12 (as in the shipped build) and
// whose unknown-field region is the buffer under test ----

type zzFields struct{ protoreflect.FieldDescriptors }

func (zzFields) ByNumber(protoreflect.FieldNumber) protoreflect.FieldDescriptor { return nil }

type zzDesc struct{ protoreflect.MessageDescriptor }

func (zzDesc) Fields() protoreflect.FieldDescriptors { return zzFields{} }

type zzMsg struct {
	protoreflect.Message
	unknown []byte
}

func (m *zzMsg) Descriptor() protoreflect.MessageDescriptor { return zzDesc{} }
func (m *zzMsg) GetUnknown() protoreflect.RawFields          { return m.unknown }

func zzExtract(raw []byte) (*SessionPrincipalWire, error) {
	zz.ReplaceSym("(*buf.build/gen/go/minekube/connect/protocolbuffers/go/minekube/connect/v1alpha1.Session).ProtoReflect", func(s *connect.Session) protoreflect.Message {
		return &zzMsg{unknown: raw}
	})
	if zz.Native() {
		s := &connect.Session{}
		s.ProtoReflect().SetUnknown(raw)
		return ExtractSessionPrincipalWire(s)
	}
	return ExtractSessionPrincipalWire(&connect.Session{})
}

// ---- reference protobuf scan (wire format spec), independent of protowire ----

type zzRef struct {
	reject   bool
	outside  bool // the input leaves the domain of the property (see zzReference)
	found    bool
	protocol int32
	endpoint []byte
	org      []byte
	nonce    []byte
	srcVer   int32
	policy   int64
	envelope []byte
	envCount int
}

func zzVarint(b []byte) (v uint64, n int, ok bool) {
	for i := 0; i < 10; i++ {
		if i >= len(b) {
			return 0, 0, false
		}
		c := b[i]
		if i == 9 && c > 1 {
			return 0, 0, false // overflows 64 bits
		}
		v |= uint64(c&0x7f) << (7 * uint(i))
		if c&0x80 == 0 {
			return v, i + 1, true
		}
	}
	return 0, 0, false
}

// zzSkip returns the length of a field value of the given wire type (after its tag), or ok=false.
func zzSkip(num uint64, typ uint64, b []byte, depth int) (n int, ok bool) {
	switch typ {
	case 0:
		_, n, ok = zzVarint(b)
		return n, ok
	case 1:
		return 8, len(b) >= 8
	case 5:
		return 4, len(b) >= 4
	case 2:
		l, n, ok := zzVarint(b)
		if !ok || l > uint64(len(b)-n) {
			return 0, false
		}
		return n + int(l), true
	case 3: // group: fields until the matching end-group tag
		if depth > 3 {
			return 0, false
		}
		pos := 0
		for {
			tag, tn, ok := zzVarint(b[pos:])
			if !ok || tag>>3 == 0 || tag>>3 > 1<<29-1 {
				return 0, false
			}
			pos += tn
			if tag&7 == 4 {
				if tag>>3 != num {
					return 0, false
				}
				return pos, true
			}
			vn, ok := zzSkip(tag>>3, tag&7, b[pos:], depth+1)
			if !ok {
				return 0, false
			}
			pos += vn
		}
	}
	return 0, false // 4 (stray end group), 6, 7
}

func zzReference(raw []byte) *zzRef {
	r := &zzRef{}
	pos := 0
	for pos < len(raw) {
		tag, n, ok := zzVarint(raw[pos:])
		if ok && tag>>3 > 1<<29-1 && tag>>3 <= 1<<31-1 {
			// a field number above the protobuf maximum (2^29-1) that protowire still tolerates: the
			// message decoder refuses such tags before the unknown-field region exists, and the
			// property speaks about fields 1..15 - outside the claim, neither verdict is demanded
			r.outside = true
			return r
		}
		if !ok || tag>>3 == 0 || tag>>3 > 1<<29-1 {
			r.reject = true
			return r
		}
		pos += n
		num, typ := tag>>3, tag&7
		if num < 6 || num > 12 {
			vn, ok := zzSkip(num, typ, raw[pos:], 0)
			if !ok {
				r.reject = true
				return r
			}
			pos += vn
			continue
		}
		wantBytes := num == 7 || num == 8 || num == 9 || num == 12
		if wantBytes != (typ == 2) || (!wantBytes && typ != 0) {
			r.reject = true // a principal field with the wrong wire type
			return r
		}
		if wantBytes {
			l, n, ok := zzVarint(raw[pos:])
			if !ok || l > uint64(len(raw)-pos-n) {
				r.reject = true
				return r
			}
			v := raw[pos+n : pos+n+int(l)]
			pos += n + int(l)
			switch num {
			case 7:
				r.endpoint, r.found = v, true
			case 8:
				r.org, r.found = v, true
			case 9:
				r.nonce, r.found = v, true
			case 12:
				r.envCount++
				if r.envCount > 1 || len(v) == 0 || len(v) > 16*1024 {
					r.reject = true
					return r
				}
				r.envelope, r.found = v, true
			}
			continue
		}
		v, n, ok := zzVarint(raw[pos:])
		if !ok {
			r.reject = true
			return r
		}
		pos += n
		switch num {
		case 6:
			r.protocol, r.found = int32(v), true
		case 10:
			r.srcVer, r.found = int32(v), true
		case 11:
			r.policy, r.found = int64(v), true
		}
	}
	if r.envelope != nil && len(r.nonce) != 16 {
		r.reject = true
	}
	return r
}

func zzCompare(raw []byte) {
	got, err := zzExtract(raw)
	want := zzReference(raw)
	zz.Assume(!want.outside)
	switch {
	case want.reject:
		zz.Assert(err != nil, "a proposal the reference parser rejects (second/empty/oversized envelope, wrong wire type, malformed encoding, envelope without 16-byte nonce) was accepted or downgraded to 'no principal'")
		zz.Reach("reject")
	case !want.found:
		zz.Assert(err == nil && got == nil, "a proposal without principal fields was not reported as such")
		zz.Reach("no-principal")
	default:
		zz.Assert(err == nil && got != nil, "a well-formed proposal with principal fields was rejected or dropped")
		zz.Assert(got.Protocol == want.protocol && got.SourceProtocolVersion == want.srcVer && got.PolicyRevision == want.policy, "a scalar principal field differs from the reference parser (last value wins)")
		zz.Assert(got.EndpointID == string(want.endpoint) && got.OrganizationID == string(want.org), "a string principal field differs from the reference parser")
		zz.Assert(bytes.Equal(got.Envelope, want.envelope), "the envelope differs from the reference parser")
		if want.envelope != nil {
			zz.Assert(bytes.Equal(got.ConnectSessionNonce[:], want.nonce), "the session nonce differs from the reference parser")
		}
		zz.Reach("principal")
	}
}

// Every byte string of up to 5 (quick) / 6 (thorough) bytes as the unknown-field region.
func VerifHarness_RawBytes() {
	max := 5
	if zz.Thorough() {
		max = 6
	}
	zz.MaxLen(max)
	zz.Unwind(40)
	zzCompare(zz.Bytes(zz.Choose(max + 1)))
}

// Structured proposals: up to 2 fields with symbolic number (1..15) and wire type (0..7) and small
// symbolic values, optionally a 16-byte nonce and an envelope to reach the accept path, optionally
// truncated at an arbitrary position.
func VerifHarness_Fields() {
	zz.MaxLen(40)
	zz.Unwind(64)
	var raw []byte
	if zz.Bool() {
		raw = append(raw, 9<<3|2, 16)
		raw = append(raw, zz.Bytes(16)...)
	}
	// the thorough tier differs in the raw-bytes harness (6 bytes); three structured fields are about
	// 2 million paths and did not finish within the 50-minute budget
	n := 1 + zz.Choose(2)
	for i := 0; i < n; i++ {
		num := zz.Byte()
		zz.Assume(num >= 1 && num <= 15)
		typ := zz.Byte()
		zz.Assume(typ < 8)
		raw = append(raw, num<<3|typ)
		switch zz.Choose(3) {
		case 0: // one-byte value / length 0
			raw = append(raw, zz.Byte()&0x7f)
		case 1: // two-byte varint
			raw = append(raw, zz.Byte()|0x80, zz.Byte()&0x7f)
		case 2: // length 1 + one byte
			raw = append(raw, 1, zz.Byte())
		}
	}
	if zz.Bool() {
		cut := zz.Choose(len(raw))
		raw = raw[:cut]
	}
	zzCompare(raw)
}

func VerifMutant_Principal() {
	// control: two envelopes must be rejected
	raw := []byte{9<<3 | 2, 16}
	raw = append(raw, make([]byte, 16)...)
	raw = append(raw, 12<<3|2, 1, 'x', 12<<3|2, 1, 'y')
	_, err := zzExtract(raw)
	zz.Assert(err == nil, "control: a second envelope must be rejected")
}
