package velocity

import (
	"crypto/rsa"
	"hash"
	"time"

	"go.minekube.com/gate/pkg/edition/java/profile"
	"go.minekube.com/gate/pkg/edition/java/proto/version"
	"go.minekube.com/gate/pkg/edition/java/proxy/crypto"
	"go.minekube.com/gate/pkg/edition/java/proxy/crypto/keyrevision"
	"go.minekube.com/gate/pkg/gate/proto"
	zz "go.minekube.com/gate/pkg/internal/zzverif"
	"go.minekube.com/gate/pkg/util/uuid"
)

type zzKey struct {
	rev    keyrevision.Revision
	holder uuid.UUID
	pub    []byte
	sig    []byte
	expiry time.Time
}

func (k *zzKey) Signer() *rsa.PublicKey                       { return nil }
func (k *zzKey) ExpiryTemporal() time.Time                    { return k.expiry }
func (k *zzKey) Expired() bool                                { return false }
func (k *zzKey) Signature() []byte                            { return k.sig }
func (k *zzKey) SignatureValid() bool                         { return true }
func (k *zzKey) Salt() []byte                                 { return nil }
func (k *zzKey) SignedPublicKey() *rsa.PublicKey              { return nil }
func (k *zzKey) SignedPublicKeyBytes() []byte                 { return k.pub }
func (k *zzKey) VerifyDataSignature([]byte, ...[]byte) bool   { return true }
func (k *zzKey) SignatureHolder() uuid.UUID                   { return k.holder }
func (k *zzKey) KeyRevision() keyrevision.Revision            { return k.rev }

type zzPlayer struct {
	id    uuid.UUID
	name  string
	props []profile.Property
	proto proto.Protocol
	key   crypto.IdentifiedKey
}

func (p *zzPlayer) ID() uuid.UUID       { return p.id }
func (p *zzPlayer) Username() string    { return p.name }
func (p *zzPlayer) GameProfile() profile.GameProfile {
	return profile.GameProfile{ID: p.id, Name: p.name, Properties: p.props}
}
func (p *zzPlayer) Protocol() proto.Protocol             { return p.proto }
func (p *zzPlayer) IdentifiedKey() crypto.IdentifiedKey { return p.key }

// zzVelocityVersion is Velocity's VelocityServerConnection.findForwardingVersion as a decision table.
// keyRev: 0 = no key, 1 = GENERIC_V1, 2 = LINKED_V2.
func zzVelocityVersion(requested int, clientProto proto.Protocol, keyRev int) int {
	r := requested
	if r > 4 {
		r = 4
	}
	if r <= 1 {
		return 1
	}
	if clientProto >= version.Minecraft_1_19_3.Protocol {
		if r >= 4 {
			return 4
		}
		return 1
	}
	switch keyRev {
	case 1:
		return 2
	case 2:
		if r >= 3 {
			return 3
		}
		return 1
	}
	return 1
}

func zzSymKey() (crypto.IdentifiedKey, int) {
	switch zz.Choose(3) {
	case 1:
		return &zzKey{rev: keyrevision.GenericV1}, 1
	case 2:
		return &zzKey{rev: keyrevision.LinkedV2}, 2
	}
	return nil, 0
}

func VerifHarness_ForwardingVersion() {
	requested := zz.Int()
	pr := proto.Protocol(zz.Int32())
	key, rev := zzSymKey()
	got := findForwardingVersion(requested, &zzPlayer{proto: pr, key: key})
	zz.Assert(got == zzVelocityVersion(requested, pr, rev), "forwarding version differs from Velocity's choice")
	zz.Assert(got >= 1 && got <= 4, "forwarding version outside 1..4")
	switch got {
	case 1:
		zz.Reach("v1")
	case 2:
		zz.Reach("v2")
	case 3:
		zz.Reach("v3")
	case 4:
		zz.Reach("v4")
	}
}

// zzMAC stands in for HMAC-SHA256: it records key and message and returns an uninterpreted
// function of both, so equality of tags follows only from equality of (key, message).
type zzMAC struct {
	key []byte
	msg []byte
}

func (m *zzMAC) Write(p []byte) (int, error) { m.msg = append(m.msg, p...); return len(p), nil }
func (m *zzMAC) Sum(b []byte) []byte {
	in := append(append([]byte{byte(len(m.key))}, m.key...), m.msg...)
	return append(b, zz.UFBytes("hmacsha256", in, 32)...)
}
func (m *zzMAC) Reset()         { m.msg = nil }
func (m *zzMAC) Size() int      { return 32 }
func (m *zzMAC) BlockSize() int { return 64 }

// ---- reference parser: how a Paper backend reads the payload ----

type zzBuf struct {
	b   []byte
	bad bool
}

func (r *zzBuf) byte1() byte {
	if len(r.b) == 0 {
		r.bad = true
		return 0
	}
	c := r.b[0]
	r.b = r.b[1:]
	return c
}
func (r *zzBuf) take(n int) []byte {
	if n < 0 || n > len(r.b) {
		r.bad = true
		return nil
	}
	x := r.b[:n]
	r.b = r.b[n:]
	return x
}
func (r *zzBuf) varint() int {
	var v uint32
	for i := 0; i < 5; i++ {
		c := r.byte1()
		v |= uint32(c&0x7f) << (7 * uint(i))
		if c&0x80 == 0 {
			return int(int32(v))
		}
	}
	r.bad = true
	return 0
}
func (r *zzBuf) utf() string { return string(r.take(r.varint())) }
func (r *zzBuf) long() int64 {
	b := r.take(8)
	if b == nil {
		return 0
	}
	var v uint64
	for i := 0; i < 8; i++ {
		v = v<<8 | uint64(b[i])
	}
	return int64(v)
}

func zzSize() int {
	if zz.Thorough() {
		return 3
	}
	return 2
}

// profile-heavy case: no key, symbolic lengths of IP, name and property fields
func VerifHarness_ForwardingDataProfile() {
	n := zzSize()
	zz.MaxLen(16)
	zz.Unwind(128)
	sl := func(max int) int { k := zz.Int(); zz.Assume(k >= 0 && k <= max); return k }
	secret := zz.Bytes(2)
	address := zz.String(sl(n))
	pl := &zzPlayer{name: zz.String(sl(n)), proto: proto.Protocol(zz.Int32())}
	copy(pl.id[:], zz.Bytes(16))
	np := sl(n - 1)
	for i := 0; i < np; i++ {
		pl.props = append(pl.props, profile.Property{Name: zz.String(sl(1)), Value: zz.String(1), Signature: zz.String(sl(1))})
	}
	zzForwardingCase(secret, address, pl, nil, 0)
}

// key-heavy case: key revision, key bytes and signer UUID symbolic; small profile
func VerifHarness_ForwardingDataKey() {
	zz.MaxLen(16)
	zz.Unwind(128)
	sl := func(max int) int { k := zz.Int(); zz.Assume(k >= 0 && k <= max); return k }
	secret := zz.Bytes(sl(2))
	address := zz.String(1)
	pl := &zzPlayer{name: zz.String(1), proto: proto.Protocol(zz.Int32())}
	copy(pl.id[:], zz.Bytes(16))
	key, rev := zzSymKey()
	var zk *zzKey
	if key != nil {
		zk = key.(*zzKey)
		zk.pub = zz.Bytes(sl(2))
		zk.sig = zz.Bytes(sl(1))
		zk.expiry = time.UnixMilli(1700000000123)
		if zz.Bool() {
			copy(zk.holder[:], zz.Bytes(16))
		}
		pl.key = key
	}
	ver := zzForwardingCase(secret, address, pl, zk, rev)
	if ver == 2 {
		zz.Reach("v2-payload")
	}
	if ver == 3 && zk.holder != uuid.Nil {
		zz.Reach("v3-payload-with-holder")
	}
	if ver == 4 {
		zz.Reach("v4-payload")
	}
}

func zzForwardingCase(secret []byte, address string, pl *zzPlayer, zk *zzKey, rev int) int {
	var mac *zzMAC
	zz.Replace("crypto/hmac.New", func(h func() hash.Hash, key []byte) hash.Hash {
		mac = &zzMAC{key: append([]byte(nil), key...)}
		return mac
	})
	requested := zz.Int()
	zz.Assume(requested >= 0 && requested <= 255)

	data, err := CreateForwardingData(secret, address, pl, requested)
	zz.Assert(err == nil, "CreateForwardingData failed")
	zz.Assert(len(data) >= 32, "forwarding payload is shorter than the signature")

	// authenticity: tag = HMAC(secret, everything after the tag)
	zz.Assert(mac != nil && string(mac.key) == string(secret), "payload is not authenticated under the configured secret")
	zz.Assert(string(mac.msg) == string(data[32:]), "the HMAC does not cover exactly the bytes after the signature")
	zz.Assert(string(data[:32]) == string(mac.Sum(nil)), "payload does not start with the HMAC tag")

	// Paper-side parse
	r := &zzBuf{b: data[32:]}
	ver := r.varint()
	zz.Assert(ver == zzVelocityVersion(requested, pl.proto, rev), "payload carries a forwarding version different from Velocity's choice")
	zz.Assert(r.utf() == address, "forwarded IP differs")
	id := r.take(16)
	zz.Assert(!r.bad && string(id) == string(pl.id[:]), "forwarded UUID differs")
	zz.Assert(r.utf() == pl.name, "forwarded name differs")
	cnt := r.varint()
	zz.Assert(cnt == len(pl.props), "forwarded property count differs")
	for i := 0; i < cnt && !r.bad; i++ {
		name, value := r.utf(), r.utf()
		sig := ""
		if r.byte1() != 0 {
			sig = r.utf()
			zz.Assert(sig != "", "an empty signature was flagged as present")
		}
		zz.Assert(name == pl.props[i].Name && value == pl.props[i].Value && sig == pl.props[i].Signature, "forwarded property differs")
	}
	if ver >= 2 && ver < 4 {
		zz.Assert(r.long() == zk.expiry.UnixMilli(), "forwarded key expiry differs")
		zz.Assert(string(r.take(r.varint())) == string(zk.pub), "forwarded public key differs")
		zz.Assert(string(r.take(r.varint())) == string(zk.sig), "forwarded key signature differs")
		if ver >= 3 {
			if r.byte1() != 0 {
				zz.Assert(string(r.take(16)) == string(zk.holder[:]) && zk.holder != uuid.Nil, "forwarded signer UUID differs")
			} else {
				zz.Assert(zk.holder == uuid.Nil, "signer UUID was dropped")
			}
		}
	}
	zz.Assert(!r.bad, "payload is truncated for a Paper-style parser")
	zz.Assert(len(r.b) == 0, "payload has trailing bytes a Paper-style parser does not expect")
	zz.Reach("parsed")
	return ver
}

func VerifMutant_ForwardingVersion() {
	requested := zz.Int()
	pr := proto.Protocol(zz.Int32())
	key, _ := zzSymKey()
	got := findForwardingVersion(requested, &zzPlayer{proto: pr, key: key})
	zz.Assert(got != 3, "control: version 3 must be reachable")
}
