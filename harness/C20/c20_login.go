package proxy

import (
	"context"

	"github.com/go-logr/logr"
	"go.minekube.com/gate/pkg/edition/java/config"
	"go.minekube.com/gate/pkg/edition/java/internal/velocity"
	"go.minekube.com/gate/pkg/edition/java/profile"
	"go.minekube.com/gate/pkg/edition/java/proto/packet"
	"go.minekube.com/gate/pkg/edition/java/proto/state"
	"go.minekube.com/gate/pkg/edition/java/proxy/phase"
	zz "go.minekube.com/gate/pkg/internal/zzverif"
	"go.minekube.com/gate/pkg/util/netutil"
)

// One player logs in to two backends one after the other (an initial join and a switch). Each backend
// either asks for the forwarding data during login or does not. In velocity mode a backend that
// completes login without having asked on *its own* connection is refused: the request is answered
// with a disconnect result and the backend connection is closed; a backend that asked is answered with
// the forwarding data and the login proceeds. In the other modes nothing is refused for this reason.
func VerifHarness_BackendMustRequestForwarding() {
	cfg := config.DefaultConfig
	velocityMode := zz.Bool()
	if velocityMode {
		cfg.Forwarding.Mode = config.VelocityForwardingMode
		cfg.Forwarding.VelocitySecret = "s3cret"
	} else {
		cfg.Forwarding.Mode = config.LegacyForwardingMode
	}
	ev := &zzEvents{}
	px := zzProxy(&cfg, ev)
	client := newZZConn(763, state.Play)
	deps := &sessionHandlerDeps{proxy: px, eventMgr: ev, configProvider: &zzConfigProvider{cfg: &cfg}}
	pl := &connectedPlayer{MinecraftConn: client, log: logr.Discard(), connPhase: phase.VanillaClientPhase,
		profile: &profile.GameProfile{Name: "alice"}, sessionHandlerDeps: deps}
	zz.Replace("go.minekube.com/gate/pkg/edition/java/internal/velocity.CreateForwardingData", func(secret []byte, address string, p velocity.ConnectedPlayer, requested int) ([]byte, error) {
		return []byte{0xfd, byte(requested)}, nil
	})
	for i, name := range []string{"a", "b"} {
		server := newRegisteredServer(NewServerInfo(name, netutil.NewAddr("10.0.0."+string(rune('1'+i))+":25565", "tcp")))
		sc := newServerConnection(server, nil, pl)
		backend := newZZConn(763, state.Login)
		sc.connection = backend
		results := make(chan *connResponse, 1)
		h := &backendLoginSessionHandler{sessionHandlerDeps: deps, serverConn: sc, requestCtx: &connRequestCxt{Context: context.Background(), response: results}, log: logr.Discard()}
		asked := zz.Bool()
		if asked {
			h.handleLoginPluginMessage(&packet.LoginPluginMessage{ID: 7, Channel: velocity.IpForwardingChannel, Data: []byte{4}})
		}
		h.handleServerLoginSuccess()
		answered := 0
		for _, o := range backend.log {
			if r, ok := o.packet.(*packet.LoginPluginResponse); ok {
				answered++
				if velocityMode {
					zz.Assert(asked && r.ID == 7 && r.Success && len(r.Data) == 2 && r.Data[1] == 4, "the forwarding request was not answered with the forwarding data for the requested version")
				} else {
					zz.Assert(asked && r.ID == 7 && !r.Success, "outside velocity mode the forwarding request must be declined like any unknown login plugin message")
				}
			}
		}
		if velocityMode && asked {
			zz.Assert(answered == 1, "a backend that asked for the forwarding data was not answered exactly once")
		}
		refused := false
		select {
		case r := <-results:
			refused = r.error != nil || (r.connectionResult != nil && r.Status() == ServerDisconnectedConnectionStatus)
		default:
		}
		if velocityMode && !asked {
			zz.Assert(refused && backend.closed > 0, "a backend that completed login without requesting the forwarding data on this connection was not refused")
			zz.Reach("refused")
		} else {
			zz.Assert(!refused && backend.closed == 0, "a backend login was refused although forwarding data was requested (or the mode does not require it)")
			zz.Reach("accepted")
		}
	}
}

