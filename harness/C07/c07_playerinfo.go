package playerinfo

import (
	"bytes"

	"go.minekube.com/gate/pkg/edition/java/profile"
	"go.minekube.com/gate/pkg/gate/proto"
	zz "go.minekube.com/gate/pkg/internal/zzverif"
	"go.minekube.com/gate/pkg/util/uuid"
)

// ---- an independent reader of the vanilla wire format (1.19.3+ player info update/remove) ----

type zzRd struct {
	b   []byte
	pos int
	bad bool
}

func (r *zzRd) byte1() byte {
	if r.pos >= len(r.b) {
		r.bad = true
		return 0
	}
	c := r.b[r.pos]
	r.pos++
	return c
}
func (r *zzRd) varint() int32 {
	var u uint32
	for i := 0; i < 5; i++ {
		c := r.byte1()
		u |= uint32(c&0x7f) << (7 * uint(i))
		if c&0x80 == 0 {
			return int32(u)
		}
	}
	r.bad = true
	return 0
}
func (r *zzRd) bytesN(n int) []byte {
	if n < 0 || r.pos+n > len(r.b) {
		r.bad = true
		return nil
	}
	out := r.b[r.pos : r.pos+n]
	r.pos += n
	return out
}
func (r *zzRd) str() string { return string(r.bytesN(int(r.varint()))) }
func (r *zzRd) uuid() (id uuid.UUID) {
	copy(id[:], r.bytesN(16))
	return id
}

type zzVEntry struct {
	id       uuid.UUID
	name     string
	nprops   int32
	gameMode int32
	listed   bool
	latency  int32
	order    int32
	hat      bool
}

// zzVanillaUpsert decodes a player-info update the way the vanilla client does: a bit set of actions,
// then per entry the UUID followed by the data of every set action in the enum's fixed order.
func zzVanillaUpsert(b []byte) (mask byte, entries []zzVEntry, ok bool) {
	r := &zzRd{b: b}
	mask = r.byte1()
	n := int(r.varint())
	for i := 0; i < n && !r.bad; i++ {
		var e zzVEntry
		e.id = r.uuid()
		if mask&1 != 0 { // ADD_PLAYER
			e.name = r.str()
			e.nprops = r.varint()
			if e.nprops != 0 {
				r.bad = true // the harness sends no properties
			}
		}
		if mask&2 != 0 { // INITIALIZE_CHAT
			if r.byte1() != 0 {
				r.bad = true // the harness sends no chat session
			}
		}
		if mask&4 != 0 {
			e.gameMode = r.varint()
		}
		if mask&8 != 0 {
			e.listed = r.byte1() != 0
		}
		if mask&16 != 0 {
			e.latency = r.varint()
		}
		if mask&32 != 0 { // UPDATE_DISPLAY_NAME
			if r.byte1() != 0 {
				r.bad = true // the harness sends no display name
			}
		}
		if mask&64 != 0 {
			e.order = r.varint()
		}
		if mask&128 != 0 {
			e.hat = r.byte1() != 0
		}
		entries = append(entries, e)
	}
	return mask, entries, !r.bad && r.pos == len(b)
}

func zzBits(m byte) int {
	n := 0
	for ; m != 0; m &= m - 1 {
		n++
	}
	return n
}

func zzActionBit(a UpsertAction) byte {
	for i, x := range UpsertActions {
		if x == a {
			return 1 << uint(i)
		}
	}
	return 0
}

// A player-info update built through the API with its actions in an arbitrary order decodes, by the
// vanilla rules, to exactly the intended values for every entry.
func VerifHarness_UpsertVanillaDecode() {
	zz.MaxLen(2)
	if zz.Thorough() {
		zzUpsertCheck(3, 1, 2)
	} else {
		zzUpsertCheck(2, 1, 1)
	}
}

// The same with several entries in one update (every entry carries the action data in the fixed order).
func VerifHarness_UpsertSeveralEntries() {
	zz.MaxLen(2)
	if zz.Thorough() {
		zzUpsertCheck(2, 3, 3)
	} else {
		zzUpsertCheck(2, 2, 2)
	}
}

func zzUpsertCheck(maxActions, minEntries, maxEntries int) {
	nActions := 1 + zz.Choose(maxActions)
	var set []UpsertAction
	var mask byte
	for i := 0; i < nActions; i++ {
		a := UpsertActions[zz.Choose(len(UpsertActions))]
		// the same action may be listed twice by a caller: it still has one bit and one payload
		mask |= zzActionBit(a)
		set = append(set, a)
	}
	nEntries := minEntries + zz.Choose(maxEntries-minEntries+1)
	u := &Upsert{ActionSet: set}
	for i := 0; i < nEntries; i++ {
		e := &Entry{GameMode: int(zz.Byte() & 3), Listed: zz.Bool(), Latency: int(zz.Int16()), ListOrder: int(zz.Int16()), ShowHat: zz.Bool()}
		e.ProfileID[0], e.ProfileID[15] = zz.Byte(), byte(i)
		e.Profile = profile.GameProfile{ID: e.ProfileID, Name: "p" + string([]byte{'a' + zz.Byte()&7})}
		u.Entries = append(u.Entries, e)
	}
	var buf bytes.Buffer
	err := u.Encode(&proto.PacketContext{Direction: proto.ClientBound, Protocol: 769}, &buf)
	zz.Assert(err == nil, "encoding a player-info update failed")
	gotMask, got, ok := zzVanillaUpsert(buf.Bytes())
	zz.Assert(ok, "a vanilla client cannot decode the player-info update (action data not in the protocol's fixed order, or trailing bytes)")
	zz.Assert(gotMask == mask && len(got) == nEntries, "the action set or entry count of the player-info update is wrong")
	for i, e := range u.Entries {
		g := got[i]
		zz.Assert(g.id == e.ProfileID, "an entry's UUID is wrong")
		if mask&1 != 0 {
			zz.Assert(g.name == e.Profile.Name, "a vanilla client reads a different player name")
		}
		if mask&4 != 0 {
			zz.Assert(int(g.gameMode) == e.GameMode, "a vanilla client reads a different game mode")
		}
		if mask&8 != 0 {
			zz.Assert(g.listed == e.Listed, "a vanilla client reads a different listed flag")
		}
		if mask&16 != 0 {
			zz.Assert(int(g.latency) == e.Latency, "a vanilla client reads a different latency")
		}
		if mask&64 != 0 {
			zz.Assert(int(g.order) == e.ListOrder, "a vanilla client reads a different list order")
		}
		if mask&128 != 0 {
			zz.Assert(g.hat == e.ShowHat, "a vanilla client reads a different hat flag")
		}
	}
	// and the proxy's own decoder reads the same packet back to the same values (C04)
	var back Upsert
	zz.Assert(back.Decode(&proto.PacketContext{Direction: proto.ClientBound, Protocol: 769}, bytes.NewReader(buf.Bytes())) == nil, "the proxy cannot decode its own player-info update")
	zz.Assert(len(back.Entries) == nEntries && len(back.ActionSet) == zzBits(mask), "the proxy's decoder sees a different action set or entry count")
	for i, e := range u.Entries {
		b := back.Entries[i]
		zz.Assert(b.ProfileID == e.ProfileID, "round trip changed an entry's UUID")
		if mask&4 != 0 {
			zz.Assert(b.GameMode == e.GameMode, "round trip changed the game mode")
		}
		if mask&16 != 0 {
			zz.Assert(b.Latency == e.Latency, "round trip changed the latency")
		}
		if mask&8 != 0 {
			zz.Assert(b.Listed == e.Listed, "round trip changed the listed flag")
		}
	}
	zz.Reach("upsert")
}

// Player-info remove: VarInt count followed by the UUIDs.
func VerifHarness_RemoveVanillaDecode() {
	n := zz.Choose(3)
	r := &Remove{}
	for i := 0; i < n; i++ {
		var id uuid.UUID
		id[0], id[15] = zz.Byte(), zz.Byte()
		r.PlayersToRemove = append(r.PlayersToRemove, id)
	}
	var buf bytes.Buffer
	zz.Assert(r.Encode(&proto.PacketContext{Protocol: 769}, &buf) == nil, "encoding a player-info remove failed")
	rd := &zzRd{b: buf.Bytes()}
	cnt := int(rd.varint())
	zz.Assert(cnt == n, "a vanilla client reads a different number of players to remove")
	for i := 0; i < n; i++ {
		zz.Assert(rd.uuid() == r.PlayersToRemove[i], "a vanilla client reads a different UUID to remove")
	}
	zz.Assert(!rd.bad && rd.pos == len(rd.b), "the player-info remove has trailing or missing bytes")
	var back Remove
	zz.Assert(back.Decode(&proto.PacketContext{Protocol: 769}, bytes.NewReader(buf.Bytes())) == nil && len(back.PlayersToRemove) == n, "the proxy cannot decode its own player-info remove")
	zz.Reach("remove")
}

func VerifMutant_Upsert() {
	u := &Upsert{ActionSet: []UpsertAction{UpdateLatencyAction}, Entries: []*Entry{{Latency: int(zz.Int16())}}}
	var buf bytes.Buffer
	_ = u.Encode(&proto.PacketContext{Protocol: 769}, &buf)
	mask, _, _ := zzVanillaUpsert(buf.Bytes())
	zz.Assert(mask == 0, "control: the latency bit must be set")
}
