package plugin

import (
	"bytes"

	"go.minekube.com/gate/pkg/gate/proto"
	zz "go.minekube.com/gate/pkg/internal/zzverif"
)

// Plugin message: channel string, then the raw body to the end of the packet (1.8+) or, for 1.7, a
// 2-byte short length (optionally extended by a third byte for Forge) followed by the body.
func VerifHarness_PluginMessageFraming() {
	zz.MaxLen(4)
	p := zz.Int32()
	zz.Assume(p >= 4 && p <= 800)
	c := &proto.PacketContext{Direction: proto.ClientBound, Protocol: proto.Protocol(p)}
	m := &Message{Channel: "a:b", Data: zz.Bytes(zz.Choose(5))}
	if zz.Bool() {
		m.Channel = "MC|Brand" // a legacy channel name, rewritten for 1.13+ clients
	}
	var buf bytes.Buffer
	zz.Assert(m.Encode(c, &buf) == nil, "encoding a plugin message failed")
	b := buf.Bytes()
	// channel
	zz.Assert(len(b) > 0 && int(b[0]) < len(b), "the channel string is malformed")
	ch := string(b[1 : 1+int(b[0])])
	rest := b[1+int(b[0]):]
	if p >= 393 {
		want := m.Channel
		if want == "MC|Brand" {
			want = "minecraft:brand"
		}
		zz.Assert(ch == want, "a 1.13+ peer reads a different channel name")
	} else {
		zz.Assert(ch == m.Channel, "a pre-1.13 peer reads a different channel name")
	}
	if p >= 47 {
		zz.Assert(bytes.Equal(rest, m.Data), "a 1.8+ peer reads a different plugin message body")
		zz.Reach("plugin-1.8")
	} else {
		zz.Assert(len(rest) == 2+len(m.Data) && int(rest[0])<<8|int(rest[1]) == len(m.Data) && bytes.Equal(rest[2:], m.Data), "a 1.7 peer reads a different plugin message body (2-byte short length prefix)")
		zz.Reach("plugin-1.7")
	}
	var back Message
	zz.Assert(back.Decode(c, bytes.NewReader(b)) == nil && bytes.Equal(back.Data, m.Data), "the plugin message does not round-trip")
}

// 1.7 plugin messages with bodies around the boundaries of the Forge "extended short" length prefix: up to
// 32767 bytes the prefix is the plain 2-byte short; from 32768 on the short carries the low 15 bits with
// the top bit set and a third byte carries bits 15..22.
func VerifHarness_PluginMessage17Large() {
	p := zz.Int32()
	zz.Assume(p >= 4 && p < 47)
	c := &proto.PacketContext{Direction: proto.ClientBound, Protocol: proto.Protocol(p)}
	if zz.Bool() {
		c.Direction = proto.ServerBound
	}
	sizes := []int{127, 128, 255, 256, 32766, 32767, 32768, 32769, 65535, 65536, 65537, 98304, 1 << 20}
	n := sizes[zz.Choose(len(sizes))]
	data := make([]byte, n)
	data[0], data[n-1] = zz.Byte(), zz.Byte()
	m := &Message{Channel: "FML", Data: data}
	var buf bytes.Buffer
	zz.Assert(m.Encode(c, &buf) == nil, "encoding a large 1.7 plugin message failed")
	b := buf.Bytes()
	zz.Assert(len(b) > 4 && b[0] == 3 && string(b[1:4]) == "FML", "the channel string is malformed")
	rest := b[4:]
	// reference reader of the length prefix
	low := int(rest[0])<<8 | int(rest[1])
	got, hdr := low, 2
	if low&0x8000 != 0 {
		got, hdr = low&0x7FFF|int(rest[2])<<15, 3
	}
	zz.Assert(got == n, "a 1.7 peer reads a different body length from the (extended) short prefix")
	zz.Assert((n <= 0x7FFF) == (hdr == 2), "the third length byte is present exactly for bodies of 32768 bytes and more")
	zz.Assert(len(rest) == hdr+n && rest[hdr] == data[0] && rest[len(rest)-1] == data[n-1], "a 1.7 peer reads a different plugin message body")
	var back Message
	zz.Assert(back.Decode(c, bytes.NewReader(b)) == nil && len(back.Data) == n && back.Data[0] == data[0] && back.Data[n-1] == data[n-1], "the large plugin message does not round-trip")
	zz.Reach("plugin-1.7-large")
}
