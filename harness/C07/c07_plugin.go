package plugin

import (
	"bytes"

	"go.minekube.com/gate/pkg/gate/proto"
	zz "go.minekube.com/gate/pkg/internal/zzverif"
)

// Plugin message: channel string, then the raw body to the end of the packet (1.8+) or, for 1.7, a
// 2-byte short length (optionally extended by a third byte for Forge) followed by the body.
func VerifHarness_PluginMessageFraming() {
	zz.MaxLen(4)
	p := zz.Int32()
	zz.Assume(p >= 4 && p <= 800)
	c := &proto.PacketContext{Direction: proto.ClientBound, Protocol: proto.Protocol(p)}
	m := &Message{Channel: "a:b", Data: zz.Bytes(zz.Choose(5))}
	if zz.Bool() {
		m.Channel = "MC|Brand" // a legacy channel name, rewritten for 1.13+ clients
	}
	var buf bytes.Buffer
	zz.Assert(m.Encode(c, &buf) == nil, "encoding a plugin message failed")
	b := buf.Bytes()
	// channel
	zz.Assert(len(b) > 0 && int(b[0]) < len(b), "the channel string is malformed")
	ch := string(b[1 : 1+int(b[0])])
	rest := b[1+int(b[0]):]
	if p >= 393 {
		want := m.Channel
		if want == "MC|Brand" {
			want = "minecraft:brand"
		}
		zz.Assert(ch == want, "a 1.13+ peer reads a different channel name")
	} else {
		zz.Assert(ch == m.Channel, "a pre-1.13 peer reads a different channel name")
	}
	if p >= 47 {
		zz.Assert(bytes.Equal(rest, m.Data), "a 1.8+ peer reads a different plugin message body")
		zz.Reach("plugin-1.8")
	} else {
		zz.Assert(len(rest) == 2+len(m.Data) && int(rest[0])<<8|int(rest[1]) == len(m.Data) && bytes.Equal(rest[2:], m.Data), "a 1.7 peer reads a different plugin message body (2-byte short length prefix)")
		zz.Reach("plugin-1.7")
	}
	var back Message
	zz.Assert(back.Decode(c, bytes.NewReader(b)) == nil && bytes.Equal(back.Data, m.Data), "the plugin message does not round-trip")
}
