package packet

import (
	"bytes"
	"crypto/rsa"
	"time"

	"go.minekube.com/gate/pkg/edition/java/proxy/crypto"
	"go.minekube.com/gate/pkg/edition/java/proxy/crypto/keyrevision"
	"go.minekube.com/gate/pkg/gate/proto"
	zz "go.minekube.com/gate/pkg/internal/zzverif"
	"go.minekube.com/gate/pkg/util/uuid"
)

// zzKey is a player key whose codec-relevant parts (expiry, key bytes, signature, bound holder) are
// harness values; signature checking is not part of the wire format.
type zzKey struct {
	expiry time.Time
	pub    []byte
	sig    []byte
	holder uuid.UUID
}

func (k *zzKey) Signer() *rsa.PublicKey                    { return nil }
func (k *zzKey) ExpiryTemporal() time.Time                 { return k.expiry }
func (k *zzKey) Expired() bool                             { return false }
func (k *zzKey) Signature() []byte                         { return k.sig }
func (k *zzKey) SignatureValid() bool                      { return true }
func (k *zzKey) Salt() []byte                              { return nil }
func (k *zzKey) SignedPublicKey() *rsa.PublicKey           { return nil }
func (k *zzKey) SignedPublicKeyBytes() []byte              { return k.pub }
func (k *zzKey) VerifyDataSignature([]byte, ...[]byte) bool { return true }
func (k *zzKey) SignatureHolder() uuid.UUID                { return k.holder }
func (k *zzKey) KeyRevision() keyrevision.Revision         { return keyrevision.LinkedV2 }

var _ crypto.IdentifiedKey = (*zzKey)(nil)

// Login start carrying a player key (1.19-1.19.2): name, "has key", expiry (long), key and signature as
// VarInt-prefixed arrays; then (1.19.1+) the optional holder id, which is the holder the key is bound to
// if it has one and the packet's HolderID otherwise.
func VerifHarness_ServerLoginWithKey() {
	zz.MaxLen(3)
	c := &proto.PacketContext{Direction: proto.ServerBound, Protocol: zzProto()}
	key := &zzKey{expiry: time.UnixMilli(1_700_000_000_123).UTC(), pub: zz.Bytes(1 + zz.Choose(3)), sig: zz.Bytes(1 + zz.Choose(3))}
	if zz.Bool() {
		key.holder[0], key.holder[9] = zz.Byte()|1, zz.Byte()
	}
	s := &ServerLogin{Username: "n" + zzShortStr(2), PlayerKey: key}
	if zz.Bool() {
		s.HolderID[3], s.HolderID[15] = zz.Byte(), zz.Byte()|1
	}
	b := zzEnc(s, c)
	r := &zzRd{b: b}
	zz.Assert(r.str() == s.Username, "a vanilla server reads a different user name")
	p := c.Protocol
	keyed := p >= 759 && p < 761
	if keyed {
		zz.Assert(r.u8() == 1, "the login start does not announce its player key")
		zz.Assert(r.i64() == 1_700_000_000_123, "a vanilla server reads a different key expiry")
		zz.Assert(bytes.Equal(r.n(int(r.varint())), key.pub), "a vanilla server reads a different public key")
		zz.Assert(bytes.Equal(r.n(int(r.varint())), key.sig), "a vanilla server reads a different key signature")
		zz.Reach("login-key")
	}
	want := s.HolderID
	if key.holder != uuid.Nil {
		want = key.holder
	}
	if p >= 764 {
		zz.Assert(r.uuid() == s.HolderID, "a vanilla server reads a different profile id")
	} else if p >= 760 {
		has := r.u8()
		if want != uuid.Nil {
			zz.Assert(has == 1 && r.uuid() == want, "a vanilla server reads a different optional profile id (key holder, else the packet's holder id)")
			zz.Reach("login-key-holder")
		} else {
			zz.Assert(has == 0, "the login start announces a profile id that is not there")
		}
	}
	zz.Assert(r.done(), "the login start has trailing or missing bytes")

	// round trip through the proxy's own decoder; parsing the DER key is replaced by a constructor
	// that keeps the decoded parts
	zz.Replace("go.minekube.com/gate/pkg/edition/java/proxy/crypto.NewIdentifiedKey", func(rev keyrevision.Revision, k []byte, expiry int64, sig []byte) (crypto.IdentifiedKey, error) {
		return &zzKey{expiry: time.UnixMilli(expiry).UTC(), pub: k, sig: sig}, nil
	})
	var back ServerLogin
	zz.Assert(back.Decode(c, bytes.NewReader(b)) == nil && back.Username == s.Username, "the keyed login start does not round-trip")
	zz.Assert((back.PlayerKey != nil) == keyed, "the player key is decoded exactly in 1.19-1.19.2")
	if keyed {
		bk := back.PlayerKey.(*zzKey)
		zz.Assert(bytes.Equal(bk.pub, key.pub) && bytes.Equal(bk.sig, key.sig) && bk.expiry.Equal(key.expiry), "the player key does not round-trip")
	}
	if p >= 764 {
		zz.Assert(back.HolderID == s.HolderID, "the profile id does not round-trip")
	} else if p >= 760 {
		zz.Assert(back.HolderID == want, "the optional profile id does not round-trip")
	}
	var again bytes.Buffer
	zz.Assert(back.Encode(c, &again) == nil && bytes.Equal(again.Bytes(), b), "re-encoding the decoded login start gives different bytes")
}
