package packet

import (
	"bytes"

	"go.minekube.com/gate/pkg/gate/proto"
	zz "go.minekube.com/gate/pkg/internal/zzverif"
	"go.minekube.com/gate/pkg/util/uuid"
)

// ---- an independent reader of the vanilla wire primitives ----

type zzRd struct {
	b   []byte
	pos int
	bad bool
}

func (r *zzRd) u8() byte {
	if r.pos >= len(r.b) {
		r.bad = true
		return 0
	}
	c := r.b[r.pos]
	r.pos++
	return c
}
func (r *zzRd) varint() int32 {
	var u uint32
	for i := 0; i < 5; i++ {
		c := r.u8()
		u |= uint32(c&0x7f) << (7 * uint(i))
		if c&0x80 == 0 {
			return int32(u)
		}
	}
	r.bad = true
	return 0
}
func (r *zzRd) n(k int) []byte {
	if k < 0 || r.pos+k > len(r.b) {
		r.bad = true
		return nil
	}
	out := r.b[r.pos : r.pos+k]
	r.pos += k
	return out
}
func (r *zzRd) str() string { return string(r.n(int(r.varint()))) }
func (r *zzRd) u16() uint16 {
	b := r.n(2)
	if b == nil {
		return 0
	}
	return uint16(b[0])<<8 | uint16(b[1])
}
func (r *zzRd) i32() int32 {
	b := r.n(4)
	if b == nil {
		return 0
	}
	return int32(uint32(b[0])<<24 | uint32(b[1])<<16 | uint32(b[2])<<8 | uint32(b[3]))
}
func (r *zzRd) i64() int64 {
	hi, lo := r.i32(), r.i32()
	return int64(hi)<<32 | int64(uint32(lo))
}
func (r *zzRd) uuid() (id uuid.UUID) {
	copy(id[:], r.n(16))
	return id
}
func (r *zzRd) done() bool { return !r.bad && r.pos == len(r.b) }

// zzProto is a symbolic protocol number drawn from the supported range (every value in between counts:
// version predicates are comparisons, so each path covers a whole interval of versions).
func zzProto() proto.Protocol {
	p := zz.Int32()
	zz.Assume(p >= 4 && p <= 800)
	return proto.Protocol(p)
}

func zzEnc(p proto.Packet, c *proto.PacketContext) []byte {
	var buf bytes.Buffer
	zz.Assert(p.Encode(c, &buf) == nil, "encoding a packet the proxy builds itself failed")
	return buf.Bytes()
}

func zzShortStr(max int) string { return zz.String(zz.Choose(max + 1)) }

// Handshake: VarInt protocol, String address, unsigned short port, VarInt next state.
func VerifHarness_Handshake() {
	zz.MaxLen(3)
	h := &Handshake{ProtocolVersion: int(zz.Int32()), ServerAddress: zzShortStr(3), Port: int(zz.Uint16()), NextStatus: 1 + zz.Choose(3)}
	c := &proto.PacketContext{Direction: proto.ServerBound, Protocol: zzProto()}
	b := zzEnc(h, c)
	r := &zzRd{b: b}
	zz.Assert(int(r.varint()) == h.ProtocolVersion && r.str() == h.ServerAddress && int(r.u16()) == h.Port && int(r.varint()) == h.NextStatus && r.done(), "a vanilla server decodes the handshake differently")
	var back Handshake
	zz.Assert(back.Decode(c, bytes.NewReader(b)) == nil && back == *h, "the handshake does not round-trip")
	zz.Assert(bytes.Equal(zzEnc(&back, c), b), "re-encoding the decoded handshake changes its bytes")
	zz.Reach("handshake")
}

// KeepAlive: long (1.12.2+), VarInt (1.8+), int (1.7).
func VerifHarness_KeepAlive() {
	c := &proto.PacketContext{Protocol: zzProto()}
	id := zz.Int64()
	switch {
	case c.Protocol >= 340:
	case c.Protocol >= 47:
		zz.Assume(id == int64(int32(id))) // the field is 32 bit wide before 1.12.2
	default:
		zz.Assume(id == int64(int32(id)))
	}
	k := &KeepAlive{RandomID: id}
	b := zzEnc(k, c)
	r := &zzRd{b: b}
	var got int64
	switch {
	case c.Protocol >= 340:
		got = r.i64()
		zz.Reach("keepalive-long")
	case c.Protocol >= 47:
		got = int64(r.varint())
		zz.Reach("keepalive-varint")
	default:
		got = int64(r.i32())
		zz.Reach("keepalive-int")
	}
	zz.Assert(got == id && r.done(), "a vanilla peer decodes the keep-alive id differently")
	var back KeepAlive
	zz.Assert(back.Decode(c, bytes.NewReader(b)) == nil && back.RandomID == id, "the keep-alive does not round-trip")
}

// Login start: name, then (1.19-1.19.2) "has key" = false, then the holder UUID: optional in
// 1.19.1-1.20.1, mandatory from 1.20.2.
func VerifHarness_ServerLogin() {
	zz.MaxLen(3)
	c := &proto.PacketContext{Direction: proto.ServerBound, Protocol: zzProto()}
	s := &ServerLogin{Username: "n" + zzShortStr(2)}
	s.HolderID[0], s.HolderID[15] = zz.Byte(), zz.Byte()
	b := zzEnc(s, c)
	r := &zzRd{b: b}
	zz.Assert(r.str() == s.Username, "a vanilla server reads a different user name")
	p := c.Protocol
	if p >= 759 && p < 761 {
		zz.Assert(r.u8() == 0, "the login start announces a player key that is not there")
	}
	if p >= 764 {
		zz.Assert(r.uuid() == s.HolderID, "a vanilla server reads a different profile id")
		zz.Reach("login-uuid")
	} else if p >= 760 {
		has := r.u8()
		if s.HolderID != uuid.Nil {
			zz.Assert(has == 1 && r.uuid() == s.HolderID, "a vanilla server reads a different optional profile id")
		} else {
			zz.Assert(has == 0, "the login start announces a profile id that is not there")
		}
		zz.Reach("login-optional-uuid")
	} else {
		zz.Reach("login-name-only")
	}
	zz.Assert(r.done(), "the login start has trailing or missing bytes")
	var back ServerLogin
	zz.Assert(back.Decode(c, bytes.NewReader(b)) == nil && back.Username == s.Username && back.PlayerKey == nil, "the login start does not round-trip")
	if p >= 760 {
		zz.Assert(back.HolderID == s.HolderID, "the login start's profile id does not round-trip")
	}
}

// Login success: UUID as 16 bytes (1.16+), dashed text (1.7.6+) or undashed text; name; empty
// property list (1.19+); strict-error flag (1.20.5/1.21 only); session id (26.2+).
func VerifHarness_ServerLoginSuccess() {
	zz.MaxLen(3)
	c := &proto.PacketContext{Direction: proto.ClientBound, Protocol: zzProto()}
	s := &ServerLoginSuccess{Username: "n" + zzShortStr(2)}
	s.UUID[0], s.UUID[7], s.UUID[15] = zz.Byte(), zz.Byte(), zz.Byte()
	s.SessionID[3] = zz.Byte()
	b := zzEnc(s, c)
	r := &zzRd{b: b}
	p := c.Protocol
	switch {
	case p >= 735:
		zz.Assert(r.uuid() == s.UUID, "a vanilla client reads a different UUID")
		zz.Reach("success-binary-uuid")
	case p >= 5:
		zz.Assert(r.str() == s.UUID.String(), "a 1.7.6-1.15 client reads a different (dashed) UUID")
		zz.Reach("success-dashed-uuid")
	default:
		zz.Assert(r.str() == s.UUID.Undashed(), "a 1.7.2 client reads a different (undashed) UUID")
		zz.Reach("success-undashed-uuid")
	}
	zz.Assert(r.str() == s.Username, "a vanilla client reads a different user name")
	if p >= 759 {
		zz.Assert(r.varint() == 0, "the property list is not empty")
	}
	if p == 766 || p == 767 {
		zz.Assert(r.u8() == 1, "the strict error handling flag is missing")
	}
	if p >= 776 {
		zz.Assert(r.uuid() == s.SessionID, "a vanilla client reads a different session id")
	}
	zz.Assert(r.done(), "the login success has trailing or missing bytes")
	var back ServerLoginSuccess
	zz.Assert(back.Decode(c, bytes.NewReader(b)) == nil && back.UUID == s.UUID && back.Username == s.Username, "the login success does not round-trip")
}

// Encryption request: server id, key and token as VarInt-prefixed arrays (1.8+) or short-prefixed
// arrays (1.7), and from 1.20.5 the "should authenticate" flag.
func VerifHarness_EncryptionRequest() {
	zz.MaxLen(3)
	c := &proto.PacketContext{Direction: proto.ClientBound, Protocol: zzProto()}
	e := &EncryptionRequest{ServerID: zzShortStr(2), PublicKey: zz.Bytes(zz.Choose(4)), VerifyToken: zz.Bytes(zz.Choose(4)), DisableAuthenticate: zz.Bool()}
	b := zzEnc(e, c)
	r := &zzRd{b: b}
	zz.Assert(r.str() == e.ServerID, "a vanilla client reads a different server id")
	if c.Protocol >= 47 {
		zz.Assert(bytes.Equal(r.n(int(r.varint())), e.PublicKey) && bytes.Equal(r.n(int(r.varint())), e.VerifyToken), "a vanilla client reads a different key or token")
		if c.Protocol >= 766 {
			zz.Assert((r.u8() == 1) == !e.DisableAuthenticate, "a vanilla client reads a different authentication flag")
		}
		zz.Reach("encryption-modern")
	} else {
		zz.Assert(bytes.Equal(r.n(int(r.u16())), e.PublicKey) && bytes.Equal(r.n(int(r.u16())), e.VerifyToken), "a 1.7 client reads a different key or token (short-prefixed arrays)")
		zz.Reach("encryption-1.7")
	}
	zz.Assert(r.done(), "the encryption request has trailing or missing bytes")
	var back EncryptionRequest
	zz.Assert(back.Decode(c, bytes.NewReader(b)) == nil && back.ServerID == e.ServerID && bytes.Equal(back.PublicKey, e.PublicKey) && bytes.Equal(back.VerifyToken, e.VerifyToken), "the encryption request does not round-trip")
}

// Set compression, login plugin message, transfer, status ping.
func VerifHarness_SmallPackets() {
	zz.MaxLen(3)
	c := &proto.PacketContext{Protocol: zzProto()}
	switch zz.Choose(4) {
	case 0:
		s := &SetCompression{Threshold: int(zz.Int32())}
		r := &zzRd{b: zzEnc(s, c)}
		zz.Assert(int(r.varint()) == s.Threshold && r.done(), "a vanilla client reads a different compression threshold")
		var back SetCompression
		zz.Assert(back.Decode(c, bytes.NewReader(r.b)) == nil && back == *s, "set compression does not round-trip")
		zz.Reach("set-compression")
	case 1:
		m := &LoginPluginMessage{ID: int(zz.Int32()), Channel: zzShortStr(3), Data: zz.Bytes(zz.Choose(4))}
		r := &zzRd{b: zzEnc(m, c)}
		zz.Assert(int(r.varint()) == m.ID && r.str() == m.Channel && bytes.Equal(r.n(len(r.b)-r.pos), m.Data) && r.done(), "a vanilla client reads a different login plugin message")
		var back LoginPluginMessage
		zz.Assert(back.Decode(c, bytes.NewReader(r.b)) == nil && back.ID == m.ID && back.Channel == m.Channel && bytes.Equal(back.Data, m.Data), "the login plugin message does not round-trip")
		zz.Reach("login-plugin-message")
	case 2:
		t := &Transfer{Host: zzShortStr(3), Port: int(zz.Int32())}
		r := &zzRd{b: zzEnc(t, c)}
		zz.Assert(r.str() == t.Host && int(r.varint()) == t.Port && r.done(), "a vanilla client reads a different transfer target")
		var back Transfer
		zz.Assert(back.Decode(c, bytes.NewReader(r.b)) == nil && back == *t, "the transfer packet does not round-trip")
		zz.Reach("transfer")
	case 3:
		s := &StatusResponse{Status: zzShortStr(3)}
		r := &zzRd{b: zzEnc(s, c)}
		zz.Assert(r.str() == s.Status && r.done(), "a vanilla client reads a different status document")
		zz.Reach("status-response")
	}
}

func VerifMutant_Packets() {
	c := &proto.PacketContext{Protocol: zzProto()}
	k := &KeepAlive{RandomID: 7}
	zz.Assert(len(zzEnc(k, c)) == 8, "control: before 1.12.2 the keep-alive id is not a long")
}
