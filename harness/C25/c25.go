package proxy

import (
	"bytes"
	"strings"

	"github.com/go-logr/logr"
	"github.com/robinbraemer/event"
	"go.minekube.com/gate/pkg/edition/java/config"
	"go.minekube.com/gate/pkg/edition/java/proto/packet/plugin"
	"go.minekube.com/gate/pkg/edition/java/proto/state"
	"go.minekube.com/gate/pkg/edition/java/proxy/bungeecord"
	"go.minekube.com/gate/pkg/edition/java/proxy/message"
	"go.minekube.com/gate/pkg/edition/java/proxy/phase"
	"go.minekube.com/gate/pkg/gate/proto"
	zz "go.minekube.com/gate/pkg/internal/zzverif"
	"go.minekube.com/gate/pkg/util/netutil"
	"go.minekube.com/gate/pkg/util/sets"
)

type zzC25 struct {
	ev       *zzEvents
	px       *Proxy
	client   *zzConn // the player's connection
	backend  *zzConn // the connection to the backend
	player   *connectedPlayer
	server   *serverConnection
	seenData [][]byte // what PluginMessageEvent handlers saw through Data()
}

// zzC25World: a player in play (or configuration) on a backend; the channel "my:chan" is registered with
// the proxy so messages on it raise PluginMessageEvent; handlers record Data() and allow forwarding.
func zzC25World(clientState, backendState *state.Registry) *zzC25 {
	w := &zzC25{}
	cfg := config.DefaultConfig
	w.ev = &zzEvents{}
	w.ev.onFire = func(e event.Event) {
		if pme, ok := e.(*PluginMessageEvent); ok {
			w.seenData = append(w.seenData, append([]byte(nil), pme.Data()...))
			pme.SetForward(true)
		}
	}
	w.px = zzProxy(&cfg, w.ev)
	w.px.channelRegistrar = message.NewChannelRegistrar()
	id, _ := message.ChannelIdentifierFrom("my:chan")
	w.px.channelRegistrar.Register(id)
	w.client = newZZConn(767, clientState)
	w.backend = newZZConn(767, backendState)
	w.player = &connectedPlayer{MinecraftConn: w.client, log: logr.Discard(), connPhase: phase.VanillaClientPhase,
		clientsideChannels: sets.NewCappedSet[string](maxClientsidePluginChannels),
		sessionHandlerDeps: &sessionHandlerDeps{proxy: w.px, eventMgr: w.ev, configProvider: &zzConfigProvider{cfg: &cfg}}}
	w.server = &serverConnection{server: newRegisteredServer(NewServerInfo("lobby", netutil.NewAddr("10.0.0.2:25565", "tcp"))), player: w.player, log: logr.Discard(),
		connection: w.backend, connPhase: phase.VanillaBackendPhase}
	w.player.connectedServer_ = w.server
	return w
}

func zzPluginPackets(c *zzConn) []*plugin.Message {
	var out []*plugin.Message
	for _, o := range c.log {
		if pm, ok := o.packet.(*plugin.Message); ok {
			out = append(out, pm)
		}
	}
	return out
}

func zzCountEvents[T any](ev *zzEvents) (n int, last T) {
	for _, e := range ev.fired {
		if t, ok := e.(T); ok {
			n++
			last = t
		}
	}
	return
}

// A channel registration (or unregistration) from the client: when it is forwarded to the backend,
// exactly one register (unregister) event is raised, listing the packet's channels.
func VerifHarness_ClientRegisterEvent() {
	zz.MaxLen(4)
	w := zzC25World(state.Play, state.Play)
	h := &clientPlaySessionHandler{player: w.player, log: logr.Discard(), log1: logr.Discard()}
	if zz.Bool() {
		w.backend.writeErr = errZZWrite // the write to the backend fails: nothing is forwarded
	}
	names := []string{"a:b", "c:d"}
	legacy := zz.Bool() // a pre-1.13 client uses the legacy channel names and un-namespaced channels
	if legacy {
		names = []string{"ab", "cd"}
	}
	n := 1 + zz.Choose(2)
	data := strings.Join(names[:n], "\x00")
	unregister := zz.Bool()
	ch := "minecraft:register"
	if unregister {
		ch = "minecraft:unregister"
	}
	if legacy {
		w.client.protocol = 340
		ch = "REGISTER"
		if unregister {
			ch = "UNREGISTER"
		}
	}
	p := &plugin.Message{Channel: ch, Data: []byte(data)}
	h.handlePluginMessage(p)
	forwarded := 0
	if w.backend.writeErr == nil {
		forwarded = len(zzPluginPackets(w.backend))
		zz.Assert(forwarded == 1 && zzPluginPackets(w.backend)[0] == p, "the (un)registration was not forwarded to the backend as it came")
	}
	regs, lastReg := zzCountEvents[*PlayerChannelRegisterEvent](w.ev)
	unregs, lastUnreg := zzCountEvents[*PlayerChannelUnregisterEvent](w.ev)
	if unregister {
		zz.Assert(regs == 0, "an unregistration raised a register event")
		if forwarded == 1 {
			zz.Assert(unregs == 1 && len(lastUnreg.channels) == n, "a forwarded unregistration did not raise exactly one unregister event with the packet's channels")
			zz.Reach("unregister")
		}
		return
	}
	zz.Assert(unregs == 0, "a registration raised an unregister event")
	if forwarded == 1 {
		zz.Assert(regs == 1, "a channel registration forwarded to the backend did not raise exactly one channel-register event")
		zz.Assert(len(lastReg.channels) == n && (legacy || lastReg.channels[0].ID() == "a:b") && lastReg.player == Player(w.player), "the register event does not list the packet's channels for this player")
		zz.Assert(w.player.clientsideChannels.Len() == n, "the player's known channels were not updated")
		zz.Reach("register")
	} else {
		zz.Assert(regs <= 1, "a registration raised more than one event")
		zz.Reach("register-not-forwarded")
	}
}

func zzBody() []byte { return zz.Bytes(zz.Choose(4)) }

// zzRaw is the raw packet as the decoder hands it over: packet id, channel string, body.
func zzRaw(channel string, body []byte) []byte {
	raw := []byte{0x19, byte(len(channel))}
	raw = append(raw, channel...)
	return append(raw, body...)
}

// A plugin message on a channel the proxy listens to, in each phase and direction: the event's Data() is
// exactly the message body, and what reaches the other side is that channel with that body.
func VerifHarness_PluginMessageEventData() {
	zz.MaxLen(3)
	body := zzBody()
	p := &plugin.Message{Channel: "my:chan", Data: append([]byte(nil), body...)}
	pc := &proto.PacketContext{Direction: proto.ClientBound, Protocol: 767, PacketID: 0x19, Packet: p, Payload: zzRaw("my:chan", body)}
	var w *zzC25
	var out *zzConn
	switch zz.Choose(4) {
	case 0: // client -> backend, play
		w = zzC25World(state.Play, state.Play)
		h := &clientPlaySessionHandler{player: w.player, log: logr.Discard(), log1: logr.Discard()}
		h.handlePluginMessage(p)
		out = w.backend
		zz.Reach("client-play")
	case 1: // backend -> client, play
		w = zzC25World(state.Play, state.Play)
		h := &backendPlaySessionHandler{serverConn: w.server, bungeeCordMessageResponder: bungeecord.NopMessageResponder, log: logr.Discard()}
		h.handlePluginMessage(p, pc)
		out = w.client
		zz.Reach("backend-play")
	case 2: // backend -> client, configuration
		w = zzC25World(state.Config, state.Config)
		h := &backendConfigSessionHandler{serverConn: w.server, log: logr.Discard()}
		h.handlePluginMessage(pc, p)
		out = w.client
		zz.Reach("backend-config")
	case 3: // client -> backend, configuration
		w = zzC25World(state.Config, state.Config)
		h := &clientConfigSessionHandler{player: w.player, log: logr.Discard()}
		h.mu.readyServer = w.server // the backend is ready: messages are not queued
		h.handlePluginMessage(p)
		out = w.backend
		zz.Reach("client-config")
	}
	n, _ := zzCountEvents[*PluginMessageEvent](w.ev)
	zz.Assert(n == 1 && len(w.seenData) == 1, "a plugin message on a listened channel did not raise exactly one plugin-message event")
	zz.Assert(bytes.Equal(w.seenData[0], body), "the plugin-message event does not expose exactly the message body (it exposes the raw packet or something else)")
	// what went out: either a plugin message packet or the raw payload
	sentPackets := zzPluginPackets(out)
	var sentRaw [][]byte
	for _, o := range out.log {
		if o.kind == "write" || o.kind == "buffer-payload" {
			sentRaw = append(sentRaw, o.payload)
		}
	}
	zz.Assert(len(sentPackets)+len(sentRaw) == 1, "the allowed plugin message was not passed on exactly once")
	if len(sentPackets) == 1 {
		zz.Assert(sentPackets[0].Channel == "my:chan" && bytes.Equal(sentPackets[0].Data, body), "the data passed on is not the data the handler saw")
	} else {
		zz.Assert(bytes.Equal(sentRaw[0], pc.Payload), "the raw payload passed on is not the packet that came in")
	}
}

// A handler that denies the event: nothing is passed on.
func VerifHarness_DeniedMessageIsDropped() {
	zz.MaxLen(3)
	body := zzBody()
	p := &plugin.Message{Channel: "my:chan", Data: body}
	pc := &proto.PacketContext{Direction: proto.ClientBound, Protocol: 767, PacketID: 0x19, Packet: p, Payload: zzRaw("my:chan", body)}
	w := zzC25World(state.Play, state.Play)
	w.ev.onFire = func(e event.Event) {
		if pme, ok := e.(*PluginMessageEvent); ok {
			pme.SetForward(false)
		}
	}
	var out *zzConn
	if zz.Bool() {
		(&clientPlaySessionHandler{player: w.player, log: logr.Discard(), log1: logr.Discard()}).handlePluginMessage(p)
		out = w.backend
	} else {
		(&backendPlaySessionHandler{serverConn: w.server, bungeeCordMessageResponder: bungeecord.NopMessageResponder, log: logr.Discard()}).handlePluginMessage(p, pc)
		out = w.client
	}
	zz.Assert(len(out.log) == 0, "a plugin message a handler denied was passed on")
	zz.Reach("denied")
}

// A plugin message on a channel the proxy does not listen to raises no plugin-message event and is
// passed on as it came, in every phase and direction.
func VerifHarness_UnlistenedChannelPassesThrough() {
	zz.MaxLen(3)
	body := zzBody()
	p := &plugin.Message{Channel: "other:x", Data: append([]byte(nil), body...)}
	pc := &proto.PacketContext{Direction: proto.ClientBound, Protocol: 767, PacketID: 0x19, Packet: p, Payload: zzRaw("other:x", body)}
	var w *zzC25
	var out *zzConn
	switch zz.Choose(4) {
	case 0:
		w = zzC25World(state.Play, state.Play)
		(&clientPlaySessionHandler{player: w.player, log: logr.Discard(), log1: logr.Discard()}).handlePluginMessage(p)
		out = w.backend
	case 1:
		w = zzC25World(state.Play, state.Play)
		(&backendPlaySessionHandler{serverConn: w.server, bungeeCordMessageResponder: bungeecord.NopMessageResponder, log: logr.Discard()}).handlePluginMessage(p, pc)
		out = w.client
	case 2:
		w = zzC25World(state.Config, state.Config)
		(&backendConfigSessionHandler{serverConn: w.server, log: logr.Discard()}).handlePluginMessage(pc, p)
		out = w.client
	case 3:
		w = zzC25World(state.Config, state.Config)
		h := &clientConfigSessionHandler{player: w.player, log: logr.Discard()}
		h.mu.readyServer = w.server
		h.handlePluginMessage(p)
		out = w.backend
	}
	n, _ := zzCountEvents[*PluginMessageEvent](w.ev)
	zz.Assert(n == 0, "a message on a channel nobody listens to raised a plugin-message event")
	zz.Assert(len(out.log) == 1, "a message on an unlistened channel was not passed on exactly once")
	o := out.log[0]
	if pm, ok := o.packet.(*plugin.Message); ok {
		zz.Assert(pm.Channel == "other:x" && bytes.Equal(pm.Data, body), "the message passed on differs from the one that came in")
	} else {
		zz.Assert(bytes.Equal(o.payload, pc.Payload), "the raw payload passed on differs from the packet that came in")
	}
	zz.Reach("pass-through")
}

// Two registrations in a row (the second may repeat the first, be empty, or carry an identifier that
// does not parse): each one that is forwarded raises its own register event.
func VerifHarness_EveryForwardedRegistrationRaisesAnEvent() {
	w := zzC25World(state.Play, state.Play)
	h := &clientPlaySessionHandler{player: w.player, log: logr.Discard(), log1: logr.Discard()}
	payloads := []string{"a:b", "a:b\x00c:d", "c:d", "", "not a channel!", "a:b\x00a:b"}
	for i := 0; i < 2; i++ {
		h.handlePluginMessage(&plugin.Message{Channel: "minecraft:register", Data: []byte(payloads[zz.Choose(len(payloads))])})
		regs, _ := zzCountEvents[*PlayerChannelRegisterEvent](w.ev)
		zz.Assert(len(zzPluginPackets(w.backend)) == i+1, "a registration was not forwarded to the backend")
		zz.Assert(regs == i+1, "a channel registration forwarded to the backend did not raise exactly one channel-register event")
	}
	zz.Reach("two-registrations")
}

// Two messages in a row in the same direction, with a handler that keeps the events: each event keeps
// exposing its own body, and each forwarded packet keeps carrying it, after the next message was handled.
func VerifHarness_EventsKeepTheirOwnBody() {
	zz.MaxLen(3)
	w := zzC25World(state.Play, state.Play)
	var kept []*PluginMessageEvent
	w.ev.onFire = func(e event.Event) {
		if pme, ok := e.(*PluginMessageEvent); ok {
			kept = append(kept, pme)
			pme.SetForward(true)
		}
	}
	bodies := [][]byte{zz.Bytes(1 + zz.Choose(3)), zz.Bytes(1 + zz.Choose(3))}
	toClient := zz.Bool()
	cph := &clientPlaySessionHandler{player: w.player, log: logr.Discard(), log1: logr.Discard()}
	bph := &backendPlaySessionHandler{serverConn: w.server, bungeeCordMessageResponder: bungeecord.NopMessageResponder, log: logr.Discard()}
	out := w.backend
	if toClient {
		out = w.client
	}
	for _, b := range bodies {
		p := &plugin.Message{Channel: "my:chan", Data: append([]byte(nil), b...)}
		if toClient {
			bph.handlePluginMessage(p, &proto.PacketContext{Direction: proto.ClientBound, Protocol: 767, PacketID: 0x19, Packet: p, Payload: zzRaw("my:chan", b)})
		} else {
			cph.handlePluginMessage(p)
		}
	}
	sent := zzPluginPackets(out)
	zz.Assert(len(kept) == 2 && len(sent) == 2, "two messages did not raise two events and two forwarded packets")
	for i, b := range bodies {
		zz.Assert(bytes.Equal(kept[i].Data(), b), "an event no longer exposes its own message body after the next message was handled")
		zz.Assert(bytes.Equal(sent[i].Data, b), "a forwarded message no longer carries its own body after the next message was handled")
	}
	zz.Reach("two-messages")
}

func VerifMutant_PluginEvents() {
	w := zzC25World(state.Play, state.Play)
	(&clientPlaySessionHandler{player: w.player, log: logr.Discard(), log1: logr.Discard()}).handlePluginMessage(&plugin.Message{Channel: "my:chan", Data: []byte{1}})
	n, _ := zzCountEvents[*PluginMessageEvent](w.ev)
	zz.Assert(n == 0, "control: a message on a listened channel raises an event")
}
