package util

import (
	"bytes"
	"io"
	"math"

	"go.minekube.com/gate/pkg/edition/java/profile"
	zz "go.minekube.com/gate/pkg/internal/zzverif"
	"go.minekube.com/gate/pkg/util/uuid"
)

// plainReader is an io.Reader that is NOT an io.ByteReader and hands out whatever is left
// (fewer bytes than asked for when the stream is short), like a socket at end of stream.
type zzPlainReader struct {
	b []byte
}

func (r *zzPlainReader) Read(p []byte) (int, error) {
	if len(r.b) == 0 {
		return 0, io.EOF
	}
	n := copy(p, r.b)
	r.b = r.b[n:]
	return n, nil
}

// zzWriter collects bytes without being an io.ByteWriter.
type zzWriter struct{ b []byte }

func (w *zzWriter) Write(p []byte) (int, error) {
	w.b = append(w.b, p...)
	return len(p), nil
}

// zzRoundTrip is the common oracle: encode, decode with both reader kinds, then every strict prefix.
func zzRoundTrip(name string, enc func(w io.Writer) error, dec func(r io.Reader) (same bool, err error)) {
	var buf bytes.Buffer
	zz.Assert(enc(&buf) == nil, name+": encoder failed")
	data := append([]byte(nil), buf.Bytes()...)
	// the plain-writer path must produce the same bytes
	pw := &zzWriter{}
	zz.Assert(enc(pw) == nil, name+": encoder failed on a plain io.Writer")
	zz.Assert(bytes.Equal(pw.b, data), name+": io.ByteWriter and io.Writer paths encode differently")

	br := bytes.NewReader(data)
	same, err := dec(br)
	zz.Assert(err == nil, name+": decoder rejected the encoder's output")
	zz.Assert(same, name+": round trip changed the value")
	zz.Assert(br.Len() == 0, name+": decoder did not consume exactly the bytes written")

	pr := &zzPlainReader{b: data}
	same, err = dec(pr)
	zz.Assert(err == nil, name+": decoder (plain reader) rejected the encoder's output")
	zz.Assert(same, name+": round trip (plain reader) changed the value")
	zz.Assert(len(pr.b) == 0, name+": decoder (plain reader) did not consume exactly the bytes written")
	zz.Reach(name + "-roundtrip")

	// strict prefix
	cut := zz.Int()
	zz.Assume(cut >= 0 && cut < len(data))
	if zz.Bool() {
		_, err = dec(bytes.NewReader(data[:cut]))
		zz.Assert(err != nil, name+": a strict prefix of a valid encoding decoded without error")
	} else {
		_, err = dec(&zzPlainReader{b: data[:cut]})
		zz.Assert(err != nil, name+": a strict prefix of a valid encoding decoded without error (plain reader)")
	}
	zz.Reach(name + "-truncated")
}

func zzMax() int {
	if zz.Thorough() {
		return 4
	}
	return 2
}

func VerifHarness_VarInt() {
	v := zz.Int32()
	var buf bytes.Buffer
	n, err := WriteVarIntN(&buf, int(v))
	zz.Assert(err == nil && n == buf.Len(), "WriteVarIntN: wrong byte count")
	zz.Assert(n >= 1 && n <= 5, "VarInt length outside 1..5")
	// reference LEB128 length
	u := uint32(v)
	want := 1
	for u >= 0x80 {
		want++
		u >>= 7
	}
	zz.Assert(n == want, "VarInt is not minimally encoded")
	enc := append([]byte(nil), buf.Bytes()...)
	got, rn, err := ReadVarIntReturnN(bytes.NewReader(enc))
	zz.Assert(err == nil && got == int(v) && rn == n, "VarInt (ByteReader) round trip")
	got, rn, err = ReadVarIntReturnN(&zzPlainReader{b: enc})
	zz.Assert(err == nil && got == int(v) && rn == n, "VarInt (plain reader) round trip")
	zzRoundTrip("varint", func(w io.Writer) error { return WriteVarInt(w, int(v)) },
		func(r io.Reader) (bool, error) { g, e := ReadVarInt(r); return g == int(v), e })
}

// Any 5 bytes: the reader accepts iff they form a VarInt of at most 5 bytes, never panics,
// and both code paths agree.
func VerifHarness_VarIntHostile() {
	zz.MaxLen(6)
	n := zz.Int()
	zz.Assume(n >= 0 && n <= 6)
	data := zz.Bytes(n)
	g1, n1, e1 := ReadVarIntReturnN(bytes.NewReader(data))
	g2, n2, e2 := ReadVarIntReturnN(&zzPlainReader{b: data})
	zz.Assert((e1 == nil) == (e2 == nil), "VarInt readers disagree on acceptance")
	if e1 == nil {
		zz.Assert(g1 == g2 && n1 == n2, "VarInt readers disagree on the value")
		zz.Assert(n1 >= 1 && n1 <= 5 && n1 <= len(data), "VarInt reader consumed an impossible byte count")
		zz.Assert(data[n1-1]&0x80 == 0, "VarInt reader stopped on a continuation byte")
		zz.Reach("varint-hostile-accept")
	} else {
		zz.Reach("varint-hostile-reject")
	}
}

func VerifHarness_Fixed() {
	switch zz.Choose(10) {
	case 0:
		v := zz.Bool()
		zzRoundTrip("bool", func(w io.Writer) error { return WriteBool(w, v) },
			func(r io.Reader) (bool, error) { g, e := ReadBool(r); return g == v, e })
	case 1:
		v := zz.Int8()
		zzRoundTrip("int8", func(w io.Writer) error { return WriteInt8(w, v) },
			func(r io.Reader) (bool, error) { g, e := ReadInt8(r); return g == v, e })
	case 2:
		v := zz.Int16()
		zzRoundTrip("int16", func(w io.Writer) error { return WriteInt16(w, v) },
			func(r io.Reader) (bool, error) { g, e := ReadInt16(r); return g == v, e })
	case 3:
		v := zz.Uint16()
		zzRoundTrip("uint16", func(w io.Writer) error { return WriteUint16(w, v) },
			func(r io.Reader) (bool, error) { g, e := ReadUint16(r); return g == v, e })
	case 4:
		v := zz.Int32()
		zzRoundTrip("int32", func(w io.Writer) error { return WriteInt32(w, v) },
			func(r io.Reader) (bool, error) { g, e := ReadInt32(r); return g == v, e })
	case 5:
		v := zz.Uint32()
		zzRoundTrip("uint32", func(w io.Writer) error { return WriteUint32(w, v) },
			func(r io.Reader) (bool, error) { g, e := ReadUint32(r); return g == v, e })
	case 6:
		v := zz.Int64()
		zzRoundTrip("int64", func(w io.Writer) error { return WriteInt64(w, v) },
			func(r io.Reader) (bool, error) { g, e := ReadInt64(r); return g == v, e })
	case 7:
		v := zz.Uint64()
		zzRoundTrip("uint64", func(w io.Writer) error { return WriteUint64(w, v) },
			func(r io.Reader) (bool, error) { g, e := ReadUint64(r); return g == v, e })
	case 8:
		v := zz.Float32()
		zzRoundTrip("float32", func(w io.Writer) error { return WriteFloat32(w, v) },
			func(r io.Reader) (bool, error) {
				g, e := ReadFloat32(r)
				return math.Float32bits(g) == math.Float32bits(v), e
			})
	case 9:
		v := zz.Float64()
		zzRoundTrip("float64", func(w io.Writer) error { return WriteFloat64(w, v) },
			func(r io.Reader) (bool, error) {
				g, e := ReadFloat64(r)
				return math.Float64bits(g) == math.Float64bits(v), e
			})
	}
}

// Big-endian layout of the fixed-width writers against a reference written here.
func VerifHarness_FixedLayout() {
	v := zz.Uint64()
	var buf bytes.Buffer
	_ = WriteUint64(&buf, v)
	_ = WriteUint32(&buf, uint32(v))
	_ = WriteUint16(&buf, uint16(v))
	_ = WriteInt(&buf, int(int32(v)))
	b := buf.Bytes()
	zz.Assert(len(b) == 18, "fixed-width writers wrote a wrong number of bytes")
	for i := 0; i < 8; i++ {
		zz.Assert(b[i] == byte(v>>(56-8*uint(i))), "uint64 is not big-endian")
	}
	for i := 0; i < 4; i++ {
		zz.Assert(b[8+i] == byte(uint32(v)>>(24-8*uint(i))), "uint32 is not big-endian")
		zz.Assert(b[14+i] == byte(uint32(v)>>(24-8*uint(i))), "WriteInt is not a big-endian int32")
	}
	zz.Assert(b[12] == byte(v>>8) && b[13] == byte(v), "uint16 is not big-endian")
	zz.Reach("layout")
}

func VerifHarness_UUID() {
	var id uuid.UUID
	copy(id[:], zz.Bytes(16))
	if zz.Bool() {
		zzRoundTrip("uuid", func(w io.Writer) error { return WriteUUID(w, id) },
			func(r io.Reader) (bool, error) { g, e := ReadUUID(r); return g == id, e })
	} else {
		zzRoundTrip("uuid-intarray", func(w io.Writer) error { return WriteUUIDIntArray(w, id) },
			func(r io.Reader) (bool, error) { g, e := ReadUUIDIntArray(r); return g == id, e })
	}
}

func VerifHarness_UUIDLayout() {
	var id uuid.UUID
	copy(id[:], zz.Bytes(16))
	var a, b bytes.Buffer
	_ = WriteUUID(&a, id)
	_ = WriteUUIDIntArray(&b, id)
	zz.Assert(bytes.Equal(a.Bytes(), id[:]), "WriteUUID is not the 16 bytes most significant first")
	zz.Assert(bytes.Equal(b.Bytes(), id[:]), "WriteUUIDIntArray is not four big-endian ints")
	zz.Reach("uuid-layout")
}

func VerifHarness_String() {
	zz.MaxLen(zzMax())
	n := zz.Int()
	zz.Assume(n >= 0 && n <= zzMax())
	s := zz.String(n)
	switch zz.Choose(3) {
	case 0:
		zzRoundTrip("string", func(w io.Writer) error { return WriteString(w, s) },
			func(r io.Reader) (bool, error) { g, e := ReadString(r); return g == s, e })
	case 1:
		zzRoundTrip("utf", func(w io.Writer) error { return WriteUTF(w, s) },
			func(r io.Reader) (bool, error) { g, e := ReadUTF(r); return g == s, e })
	case 2:
		max := zz.Int()
		zz.Assume(max >= 0 && max <= 1<<20)
		var buf bytes.Buffer
		_ = WriteString(&buf, s)
		g, e := ReadStringMax(bytes.NewReader(buf.Bytes()), max)
		if len(s) <= max*4 {
			zz.Assert(e == nil && g == s, "ReadStringMax rejected a string within the limit")
			zz.Reach("stringmax-accept")
		} else {
			zz.Assert(e != nil, "ReadStringMax accepted a string above the limit")
			zz.Reach("stringmax-reject")
		}
	}
}

func VerifHarness_Bytes() {
	zz.MaxLen(zzMax())
	n := zz.Int()
	zz.Assume(n >= 0 && n <= zzMax())
	b := zz.Bytes(n)
	switch zz.Choose(3) {
	case 0:
		zzRoundTrip("bytes", func(w io.Writer) error { return WriteBytes(w, b) },
			func(r io.Reader) (bool, error) { g, e := ReadBytes(r); return bytes.Equal(g, b), e })
	case 1:
		ext := zz.Bool()
		zzRoundTrip("bytes17", func(w io.Writer) error { return WriteBytes17(w, b, ext) },
			func(r io.Reader) (bool, error) { g, e := ReadBytes17(r); return bytes.Equal(g, b), e })
	case 2:
		max := zz.Int()
		zz.Assume(max >= 0 && max <= 1<<20)
		var buf bytes.Buffer
		_ = WriteBytes(&buf, b)
		g, e := ReadBytesLen(bytes.NewReader(buf.Bytes()), max)
		if len(b) <= max {
			zz.Assert(e == nil && bytes.Equal(g, b), "ReadBytesLen rejected an array within the limit")
			zz.Reach("byteslen-accept")
		} else {
			zz.Assert(e != nil, "ReadBytesLen accepted an array above the limit")
			zz.Reach("byteslen-reject")
		}
	}
}

// The 1.7 "extended short": a 2-byte big-endian short whose top bit announces a third byte
// carrying bits 15..22. Checked against a reference reader/writer of that format for every
// length 0..2^23-1 as a symbolic number (no body needed).
func VerifHarness_ExtendedShort() {
	v := zz.Int()
	zz.Assume(v >= 0 && v <= 0x7FFFFF)
	var buf bytes.Buffer
	zz.Assert(WriteExtendedForgeShort(&buf, v) == nil, "WriteExtendedForgeShort failed")
	enc := append([]byte(nil), buf.Bytes()...)
	// reference encoder
	low := v & 0x7FFF
	high := (v & 0x7F8000) >> 15
	var want []byte
	if high != 0 {
		low |= 0x8000
		want = []byte{byte(low >> 8), byte(low), byte(high)}
		zz.Reach("extshort-3-bytes")
	} else {
		want = []byte{byte(low >> 8), byte(low)}
		zz.Reach("extshort-2-bytes")
	}
	zz.Assert(bytes.Equal(enc, want), "1.7 extended short is not encoded as a 2-byte short plus optional high byte")
	r := bytes.NewReader(want)
	got, err := ReadExtendedForgeShort(r)
	zz.Assert(err == nil && got == v, "1.7 extended short does not decode to the value written")
	zz.Assert(r.Len() == 0, "1.7 extended short reader did not consume exactly the prefix")
}

func VerifHarness_StringArray() {
	zz.MaxLen(2)
	k := zz.Int()
	zz.Assume(k >= 0 && k <= 2)
	a := make([]string, k)
	for i := range a {
		n := zz.Int()
		zz.Assume(n >= 0 && n <= 2)
		a[i] = zz.String(n)
	}
	zzRoundTrip("strings", func(w io.Writer) error { return WriteStrings(w, a) },
		func(r io.Reader) (bool, error) {
			g, e := ReadStringArray(r)
			if e != nil {
				return false, e
			}
			if len(g) != len(a) {
				return false, nil
			}
			for i := range g {
				if g[i] != a[i] {
					return false, nil
				}
			}
			return true, nil
		})
}

func VerifHarness_VarIntArray() {
	zz.MaxLen(3)
	k := zz.Int()
	zz.Assume(k >= 0 && k <= 3)
	a := make([]int, k)
	for i := range a {
		a[i] = int(zz.Int32())
	}
	eq := func(g []int) bool {
		if len(g) != len(a) {
			return false
		}
		for i := range g {
			if g[i] != a[i] {
				return false
			}
		}
		return true
	}
	if zz.Bool() {
		zzRoundTrip("varintarray", func(w io.Writer) error { return WriteVarIntArray(w, a) },
			func(r io.Reader) (bool, error) { g, e := ReadVarIntArray(r); return e == nil && eq(g), e })
	} else {
		zzRoundTrip("intarray", func(w io.Writer) error { return WriteVarIntArray(w, a) },
			func(r io.Reader) (bool, error) { g, e := ReadIntArray(r); return e == nil && eq(g), e })
	}
}

func VerifHarness_Properties() {
	zz.MaxLen(2)
	k := zz.Int()
	zz.Assume(k >= 0 && k <= 2)
	ps := make([]profile.Property, k)
	for i := range ps {
		ln := func() int { n := zz.Int(); zz.Assume(n >= 0 && n <= 1); return n }
		ps[i] = profile.Property{Name: zz.String(ln()), Value: zz.String(ln()), Signature: zz.String(ln())}
	}
	zzRoundTrip("properties", func(w io.Writer) error { return WriteProperties(w, ps) },
		func(r io.Reader) (bool, error) {
			g, e := ReadProperties(r)
			if e != nil {
				return false, e
			}
			if len(g) != len(ps) {
				return false, nil
			}
			for i := range g {
				if g[i] != ps[i] {
					return false, nil
				}
			}
			return true, nil
		})
}

// Length prefixes outside the allowed range are rejected with an error before any allocation that
// depends on them: the stream is just the length VarInt (full int32 range) and nothing else.
func VerifHarness_LengthPrefix() {
	zz.MaxLen(2)
	l := zz.Int32()
	var buf bytes.Buffer
	_ = WriteVarInt(&buf, int(l))
	data := buf.Bytes()
	// documented caps: strings 4*DefaultMaxStringSize bytes, collections MaxPreAllocSize elements
	// (the largest element, profile.Property, is 48 bytes)
	zz.AllocCap(MaxPreAllocSize * 48)
	var err error
	which := zz.Choose(7)
	switch which {
	case 0:
		_, err = ReadString(bytes.NewReader(data))
	case 1:
		_, err = ReadBytes(bytes.NewReader(data))
	case 2:
		_, err = ReadStringArray(bytes.NewReader(data))
	case 3:
		_, err = ReadVarIntArray(bytes.NewReader(data))
	case 4:
		_, err = ReadIntArray(bytes.NewReader(data))
	case 5:
		_, err = ReadProperties(bytes.NewReader(data))
	case 6:
		_, err = ReadKeyArray(bytes.NewReader(data))
	}
	if l != 0 {
		zz.Assert(err != nil, "a length prefix with no body behind it was accepted")
		zz.Reach("length-rejected")
	} else {
		zz.Assert(err == nil, "an empty collection was rejected")
		zz.Reach("length-zero")
	}
}

// ---------- negative controls ----------

func VerifMutant_VarInt() {
	v := zz.Int32()
	var buf bytes.Buffer
	_ = WriteVarInt(&buf, int(v))
	got, _ := ReadVarInt(bytes.NewReader(buf.Bytes()))
	zz.Assert(got != 300, "control: the value 300 must be found")
}

func VerifMutant_Truncation() {
	// a decoder that pads with zeros must be caught by the prefix oracle
	v := zz.Uint32()
	zzRoundTrip("control-padding", func(w io.Writer) error { return WriteUint32(w, v) },
		func(r io.Reader) (bool, error) {
			var b [4]byte
			_, _ = r.Read(b[:])
			g := uint32(b[0])<<24 | uint32(b[1])<<16 | uint32(b[2])<<8 | uint32(b[3])
			return g == v, nil
		})
}
