package util

import (
	"bytes"

	zz "go.minekube.com/gate/pkg/internal/zzverif"
)

// VarInt: every int32 value round-trips, uses 1..5 bytes, and the reader is empty afterwards.
func VerifHarness_VarIntRoundTrip() {
	v := zz.Int32()
	var buf bytes.Buffer
	n, err := WriteVarIntN(&buf, int(v))
	zz.Assert(err == nil, "WriteVarIntN returned an error")
	zz.Assert(n == buf.Len(), "WriteVarIntN byte count differs from bytes written")
	zz.Assert(n >= 1 && n <= 5, "VarInt length outside 1..5")
	enc := append([]byte(nil), buf.Bytes()...)
	got, rn, err := ReadVarIntReturnN(bytes.NewReader(enc))
	zz.Assert(err == nil, "ReadVarIntReturnN failed on encoder output")
	zz.Assert(got == int(v), "VarInt round trip changed the value")
	zz.Assert(rn == n, "VarInt reader consumed a different number of bytes")
	zz.Reach("varint-roundtrip")
}

func VerifMutant_VarIntRoundTrip() {
	v := zz.Int32()
	var buf bytes.Buffer
	_ = WriteVarInt(&buf, int(v))
	got, _ := ReadVarInt(bytes.NewReader(buf.Bytes()))
	zz.Assert(got != 300, "control: 300 must be reachable")
}
