package proxy

import (
	"bytes"
	"context"

	"github.com/go-logr/logr"
	"go.minekube.com/common/minecraft/component"
	"go.minekube.com/gate/pkg/edition/java/proto/packet/plugin"
	"go.minekube.com/gate/pkg/edition/java/proto/state"
	zz "go.minekube.com/gate/pkg/internal/zzverif"
)

const (
	zzMaxMsgs  = 1024
	zzMaxBytes = 4 * 1024 * 1024
)

func zzC24Player() (*connectedPlayer, *zzConn) {
	conn := newZZConn(767, state.Config)
	conn.ctx, conn.cancel = context.WithCancel(context.Background())
	pl := &connectedPlayer{MinecraftConn: conn, log: logr.Discard()}
	zz.ReplaceSym("(*go.minekube.com/gate/pkg/edition/java/proxy.connectedPlayer).Disconnect", func(p *connectedPlayer, reason component.Component) {
		if p.Active() {
			_ = p.MinecraftConn.Close()
		}
	})
	return pl, conn
}

func zzMsg(n int) *plugin.Message {
	return &plugin.Message{Channel: "a:" + string([]byte{'a' + byte(n)}), Data: zz.Bytes(zz.Choose(3))}
}

func zzPluginLog(c *zzConn) []*plugin.Message {
	var out []*plugin.Message
	for _, o := range c.log {
		if o.kind == "buffer-packet" || o.kind == "write-packet" {
			if pm, ok := o.packet.(*plugin.Message); ok {
				out = append(out, pm)
			}
		}
	}
	return out
}

// zzCount is the queue length the step starts from: empty, one, just below and at the message cap.
func zzCount() int {
	switch zz.Choose(4) {
	case 1:
		return 1
	case 2:
		return zzMaxMsgs - 1
	case 3:
		return zzMaxMsgs
	}
	return 0
}

// One enqueue into the configuration-phase queue from an arbitrary state (byte counter symbolic in
// 0..4 MiB, queue length at the interesting sizes): afterwards the buffer is within both bounds, or
// the overflow is latched, the buffer is dropped and the player is disconnected - exactly when the
// new message would exceed 1024 messages or 4 MiB. Once latched nothing is buffered any more.
func VerifHarness_ConfigQueueCaps() {
	zz.Unwind(1100)
	pl, conn := zzC24Player()
	h := &clientConfigSessionHandler{player: pl, log: logr.Discard()}
	count := zzCount()
	for i := 0; i < count; i++ {
		h.mu.pluginMessages.PushBack(&plugin.Message{Channel: "x"})
	}
	held := zz.Int()
	zz.Assume(held >= 0 && held <= zzMaxBytes)
	h.mu.pluginMessagesBytes = held
	m := zzMsg(0)
	handled := h.enqueuePluginMessage(nil, m)
	zz.Assert(handled, "a message sent before the backend is ready was not taken by the queue path")
	over := held+len(m.Data) > zzMaxBytes || count+1 > zzMaxMsgs
	if over {
		zz.Assert(h.mu.pluginMessagesOverflowed && h.mu.pluginMessages.Len() == 0 && h.mu.pluginMessagesBytes == 0, "exceeding a cap did not drop the buffer and latch the overflow")
		zz.Assert(conn.closed == 1, "exceeding a cap did not disconnect the player")
		// latched: further messages are swallowed without buffering
		zz.Assert(h.enqueuePluginMessage(nil, zzMsg(1)) && h.mu.pluginMessages.Len() == 0 && conn.closed == 1, "a message was buffered after the overflow")
		zz.Reach("config-overflow")
	} else {
		zz.Assert(!h.mu.pluginMessagesOverflowed && conn.closed == 0, "a message within both caps disconnected the player")
		zz.Assert(h.mu.pluginMessages.Len() == count+1 && h.mu.pluginMessagesBytes == held+len(m.Data), "the buffer counters do not account for the new message")
		zz.Assert(h.mu.pluginMessages.Len() <= zzMaxMsgs && h.mu.pluginMessagesBytes <= zzMaxBytes, "the buffer exceeds its bounds")
		zz.Reach("config-within")
	}
}

// The same step for the pre-join queue of the play handler.
func VerifHarness_LoginQueueCaps() {
	zz.Unwind(1100)
	pl, conn := zzC24Player()
	c := &clientPlaySessionHandler{player: pl, log: logr.Discard()}
	count := zzCount()
	for i := 0; i < count; i++ {
		c.mu.loginPluginMessages.PushBack(&plugin.Message{Channel: "x"})
	}
	held := zz.Int()
	zz.Assume(held >= 0 && held <= zzMaxBytes)
	c.mu.loginPluginMessagesBytes = held
	m := zzMsg(0)
	queued := c.enqueueLoginPluginMessage(m)
	over := held+len(m.Data) > zzMaxBytes || count+1 > zzMaxMsgs
	zz.Assert(queued == !over, "a message was queued beyond a cap, or refused within both caps")
	if over {
		zz.Assert(c.mu.loginPluginMessagesOverflowed && c.mu.loginPluginMessages.Len() == 0 && c.mu.loginPluginMessagesBytes == 0, "exceeding a cap did not drop the buffer and latch the overflow")
		zz.Assert(conn.closed == 1, "exceeding a cap did not disconnect the player")
		zz.Assert(!c.enqueueLoginPluginMessage(zzMsg(1)) && c.mu.loginPluginMessages.Len() == 0, "a message was buffered after the overflow")
		zz.Reach("login-overflow")
	} else {
		zz.Assert(conn.closed == 0 && c.mu.loginPluginMessages.Len() == count+1 && c.mu.loginPluginMessagesBytes == held+len(m.Data), "the buffer counters do not account for the new message")
		zz.Reach("login-within")
	}
}

// Up to three early messages with arbitrary bodies, then the backend becomes ready, then one more
// message: the backend receives every early message exactly once, in order, byte-identical (even if
// the client's buffer is reused meanwhile), before the later one.
func VerifHarness_ConfigQueueFIFO() {
	pl, _ := zzC24Player()
	h := &clientConfigSessionHandler{player: pl, log: logr.Discard()}
	backend := newZZConn(767, state.Config)
	sc := &serverConnection{connection: backend}
	n := zz.Choose(4)
	var sent [][]byte
	for i := 0; i < n; i++ {
		m := zzMsg(i)
		sent = append(sent, append([]byte{}, m.Data...))
		zz.Assert(h.enqueuePluginMessage(sc, m), "an early message was not queued")
		for k := range m.Data {
			m.Data[k] ^= 0xff // the packet's buffer may be reused by the reader
		}
	}
	zz.Assert(len(zzPluginLog(backend)) == 0, "a message reached a backend that is not ready")
	zz.Assert(h.flushQueuedPluginMessagesTo(sc) == nil, "flushing to a connected backend failed")
	zz.Assert(h.mu.pluginMessages.Len() == 0 && h.mu.pluginMessagesBytes == 0, "the buffer accounting was not reset by the flush (a later server switch would hit the byte cap early)")
	late := zzMsg(5)
	if !h.enqueuePluginMessage(sc, late) {
		_ = backend.WritePacket(late) // what handlePluginMessage does for a ready backend
	}
	got := zzPluginLog(backend)
	zz.Assert(len(got) == n+1, "an early message was lost or delivered twice")
	for i := 0; i < n; i++ {
		zz.Assert(got[i].Channel == "a:"+string([]byte{'a' + byte(i)}) && bytes.Equal(got[i].Data, sent[i]), "early messages were not delivered in the order sent with their original bodies")
	}
	zz.Assert(got[n] == late, "the later message did not come after the early ones")
	// a second flush delivers nothing again
	zz.Assert(h.flushQueuedPluginMessagesTo(sc) == nil && len(zzPluginLog(backend)) == n+1, "a repeated flush delivered messages again")
	zz.Reach("config-fifo")
}

// Pre-join queue: drain returns every queued message once, in order; a second drain returns nothing.
func VerifHarness_LoginQueueFIFO() {
	pl, _ := zzC24Player()
	c := &clientPlaySessionHandler{player: pl, log: logr.Discard()}
	n := zz.Choose(4)
	var sent []*plugin.Message
	for i := 0; i < n; i++ {
		m := zzMsg(i)
		sent = append(sent, m)
		zz.Assert(c.enqueueLoginPluginMessage(m), "an early message was not queued")
	}
	got := c.drainQueuedLoginPluginMessages()
	zz.Assert(len(got) == n, "an early message was lost or duplicated")
	for i := range sent {
		zz.Assert(got[i] == sent[i], "early messages were not drained in the order sent")
	}
	zz.Assert(len(c.drainQueuedLoginPluginMessages()) == 0 && c.mu.loginPluginMessagesBytes == 0, "a second drain returned messages again")
	zz.Reach("login-fifo")
}

// A message racing with the backend becoming ready is delivered exactly once: through the flush if it
// was queued, directly if the queue path declined it.
func VerifHarness_ConfigQueueReadinessRace() {
	zz.MaxPreempt(2)
	pl, _ := zzC24Player()
	h := &clientConfigSessionHandler{player: pl, log: logr.Discard()}
	backend := newZZConn(767, state.Config)
	sc := &serverConnection{connection: backend}
	first := zzMsg(0)
	zz.Assert(h.enqueuePluginMessage(sc, first), "an early message was not queued")
	racing := zzMsg(1)
	zz.Go(func() {
		if !h.enqueuePluginMessage(sc, racing) {
			_ = backend.WritePacket(racing)
		}
	})
	zz.Go(func() { _ = h.flushQueuedPluginMessagesTo(sc) })
	zz.WaitAll()
	// a later flush (e.g. the next readiness signal) must not be needed, but is harmless
	got := zzPluginLog(backend)
	nFirst, nRacing := 0, 0
	for _, g := range got {
		if g.Channel == "a:a" {
			nFirst++
		}
		if g.Channel == "a:b" {
			nRacing++
		}
	}
	zz.Assert(nFirst == 1 && len(got) > 0 && got[0].Channel == "a:a", "the early message was lost, duplicated or overtaken")
	stranded := h.mu.pluginMessages.Len()
	zz.Assert(nRacing+stranded == 1 && nRacing <= 1, "the racing message was lost or delivered twice")
	zz.Assert(stranded == 0, "a message queued while the backend became ready is stranded in the queue")
	zz.Reach("readiness-race")
}

func zzConfigQueueBytes(h *clientConfigSessionHandler) int {
	n := 0
	for i := 0; i < h.mu.pluginMessages.Len(); i++ {
		n += len(h.mu.pluginMessages.At(i).Data)
	}
	return n
}

// The byte counter always equals the bytes actually held, also when a flush fails half-way because
// the backend connection breaks (the next backend then gets the flush): otherwise the 4 MiB bound is
// not a bound on the buffer.
func VerifHarness_ConfigQueueAccounting() {
	pl, _ := zzC24Player()
	h := &clientConfigSessionHandler{player: pl, log: logr.Discard()}
	backend := newZZConn(767, state.Config)
	sc := &serverConnection{connection: backend}
	n := 1 + zz.Choose(2)
	for i := 0; i < n; i++ {
		zz.Assert(h.enqueuePluginMessage(sc, zzMsg(i)), "an early message was not queued")
		zz.Assert(h.mu.pluginMessagesBytes == zzConfigQueueBytes(h), "the byte counter differs from the bytes held in the queue")
	}
	if zz.Bool() {
		backend.writeErr = errZZWrite
	}
	err := h.flushQueuedPluginMessagesTo(sc)
	zz.Assert((err != nil) == (backend.writeErr != nil), "the flush result does not reflect the backend write result")
	zz.Assert(h.mu.pluginMessagesBytes == zzConfigQueueBytes(h), "after a flush the byte counter differs from the bytes still held (the byte cap no longer bounds the buffer)")
	// more early messages for the next backend
	next := &serverConnection{connection: newZZConn(767, state.Config)}
	zz.Assert(h.enqueuePluginMessage(next, zzMsg(4)), "a message for a backend that is not ready was not queued")
	zz.Assert(h.mu.pluginMessagesBytes == zzConfigQueueBytes(h), "the byte counter differs from the bytes held in the queue")
	if err != nil {
		zz.Reach("flush-failed")
	} else {
		zz.Reach("flush-ok")
	}
}

// The handler outlives a backend: after backend A was made ready, the player switches to backend B in the
// configuration phase. Messages sent before B is ready are held for B and delivered to it, in order, when
// B becomes ready; afterwards messages go to B directly; A receives nothing more.
func VerifHarness_ConfigQueueSecondBackend() {
	zz.MaxLen(2)
	pl, _ := zzC24Player()
	h := &clientConfigSessionHandler{player: pl, log: logr.Discard()}
	connA, connB := newZZConn(767, state.Config), newZZConn(767, state.Config)
	a, b := &serverConnection{connection: connA}, &serverConnection{connection: connB}
	nA := zz.Choose(2)
	for i := 0; i < nA; i++ {
		zz.Assert(h.enqueuePluginMessage(a, zzMsg(i)), "an early message was not queued")
	}
	zz.Assert(h.flushQueuedPluginMessagesTo(a) == nil, "the flush to the first backend failed")
	zz.Assert(!h.enqueuePluginMessage(a, zzMsg(5)), "a message for the ready backend was queued instead of forwarded")
	before := len(zzPluginLog(connA))
	nB := 1 + zz.Choose(2)
	var wantB []*plugin.Message
	for i := 0; i < nB; i++ {
		m := zzMsg(2 + i)
		zz.Assert(h.enqueuePluginMessage(b, m), "a message for the second backend, which is not ready yet, was not held")
		wantB = append(wantB, m)
	}
	zz.Assert(h.flushQueuedPluginMessagesTo(b) == nil, "the flush to the second backend failed")
	gotB := zzPluginLog(connB)
	zz.Assert(len(gotB) == nB, "the messages held for the second backend were not delivered to it exactly once")
	for i := range wantB {
		zz.Assert(gotB[i].Channel == wantB[i].Channel && bytes.Equal(gotB[i].Data, wantB[i].Data), "the second backend received its held messages changed or out of order")
	}
	zz.Assert(len(zzPluginLog(connA)) == before, "the first backend received messages meant for the second")
	zz.Assert(!h.enqueuePluginMessage(b, zzMsg(6)), "after the second backend became ready its messages are still being held")
	zz.Reach("second-backend")
}

func VerifMutant_QueueCaps() {
	pl, _ := zzC24Player()
	h := &clientConfigSessionHandler{player: pl, log: logr.Discard()}
	h.mu.pluginMessagesBytes = zzMaxBytes
	m := &plugin.Message{Channel: "x", Data: []byte{1}}
	_ = h.enqueuePluginMessage(nil, m)
	zz.Assert(!h.mu.pluginMessagesOverflowed, "control: one byte above 4 MiB must overflow")
}
