package proxy

import (
	"time"

	"github.com/dboslee/lru"
	"go.minekube.com/gate/pkg/edition/java/proto/packet"
	"go.minekube.com/gate/pkg/edition/java/proto/state"
	zz "go.minekube.com/gate/pkg/internal/zzverif"
)

type zzBackend struct {
	sc      *serverConnection
	conn    *zzConn
	pending []int64 // reference: ids this backend asked and that are unanswered
}

func zzNewBackend(st *state.Registry, closed bool) *zzBackend {
	conn := newZZConn(767, st)
	if closed {
		conn.ctx, conn.cancel = zzCanceledContext()
		conn.closed = 1
	}
	return &zzBackend{
		conn: conn,
		sc: &serverConnection{
			pendingPings: lru.NewSync[int64, time.Time](lru.WithCapacity(pendingKeepAliveCapacity)),
			connection:   conn,
		},
	}
}

func zzBackendState() *state.Registry {
	switch zz.Choose(3) {
	case 0:
		return state.Login
	case 1:
		return state.Config
	}
	return state.Play
}

func (b *zzBackend) ask(id int64) {
	recordBackendKeepAlive(b.sc, &packet.KeepAlive{RandomID: id})
	for _, x := range b.pending {
		if x == id {
			return
		}
	}
	b.pending = append(b.pending, id)
}

// take removes id from the reference pending set; reports whether it was pending
func (b *zzBackend) take(id int64) bool {
	for i, x := range b.pending {
		if x == id {
			b.pending = append(append([]int64{}, b.pending[:i]...), b.pending[i+1:]...)
			return true
		}
	}
	return false
}

func (b *zzBackend) forwardable() bool {
	return b.conn.closed == 0 && (b.conn.st == state.Config || b.conn.st == state.Play)
}

func (b *zzBackend) keepAlives() []int64 {
	var out []int64
	for _, o := range b.conn.log {
		if o.kind == "write-packet" {
			if ka, ok := o.packet.(*packet.KeepAlive); ok {
				out = append(out, ka.RandomID)
			}
		}
	}
	return out
}

// Backends (the current one and one in flight, each in an arbitrary state, open or closed) send up to
// three keep-alives with arbitrary ids; the client answers with up to two arbitrary ids. A reply is
// forwarded to a backend exactly when that backend has the id pending and is open and in
// configuration or play; an id is consumed by the first reply; anything else is dropped.
func VerifHarness_KeepAliveRouting() {
	cur := zzNewBackend(zzBackendState(), zz.Bool())
	var fly *zzBackend
	pl := &connectedPlayer{connectedServer_: cur.sc}
	if zz.Bool() {
		fly = zzNewBackend(zzBackendState(), zz.Bool())
		pl.connInFlight = fly.sc
	}
	maxAsks := 2
	if zz.Thorough() {
		maxAsks = 3
	}
	asks := 1 + zz.Choose(maxAsks)
	for i := 0; i < asks; i++ {
		id := zz.Int64()
		if fly != nil && zz.Bool() {
			fly.ask(id)
		} else {
			cur.ask(id)
		}
	}
	var wantCur, wantFly []int64
	replies := 1 + zz.Choose(2)
	for i := 0; i < replies; i++ {
		id := zz.Int64()
		forwardKeepAlive(&packet.KeepAlive{RandomID: id}, pl)
		if cur.take(id) {
			if cur.forwardable() {
				wantCur = append(wantCur, id)
			}
			zz.Reach("matched-current")
		} else if fly != nil && fly.take(id) {
			if fly.forwardable() {
				wantFly = append(wantFly, id)
			}
			zz.Reach("matched-in-flight")
		} else {
			zz.Reach("dropped")
		}
	}
	gotCur := cur.keepAlives()
	zz.Assert(len(gotCur) == len(wantCur), "the current backend received a keep-alive reply it did not ask for, twice, or missed one it asked for")
	for i := range wantCur {
		zz.Assert(gotCur[i] == wantCur[i], "the current backend received a reply with the wrong id")
	}
	if fly != nil {
		gotFly := fly.keepAlives()
		zz.Assert(len(gotFly) == len(wantFly), "the in-flight backend received a keep-alive reply it did not ask for, twice, or missed one it asked for")
		for i := range wantFly {
			zz.Assert(gotFly[i] == wantFly[i], "the in-flight backend received a reply with the wrong id")
		}
	}
}

// Two handlers process the same reply concurrently: it is forwarded at most (and exactly) once.
func VerifHarness_KeepAliveConcurrentReplies() {
	zz.MaxPreempt(2)
	cur := zzNewBackend(state.Play, false)
	pl := &connectedPlayer{connectedServer_: cur.sc}
	id := zz.Int64()
	cur.ask(id)
	other := zz.Int64()
	zz.Go(func() { forwardKeepAlive(&packet.KeepAlive{RandomID: id}, pl) })
	zz.Go(func() { forwardKeepAlive(&packet.KeepAlive{RandomID: other}, pl) })
	zz.WaitAll()
	got := cur.keepAlives()
	zz.Assert(len(got) == 1 && got[0] == id, "a keep-alive id was forwarded twice (or not at all) under concurrent handling")
	zz.Reach("concurrent-replies")
}

// More than 64 unanswered keep-alives: the oldest are forgotten, a reply to a forgotten id is dropped,
// replies to the 64 most recent are still forwarded.
func VerifHarness_KeepAliveCapacity() {
	zz.Unwind(200)
	cur := zzNewBackend(state.Play, false)
	pl := &connectedPlayer{connectedServer_: cur.sc}
	for i := int64(1); i <= 66; i++ {
		recordBackendKeepAlive(cur.sc, &packet.KeepAlive{RandomID: i})
	}
	id := zz.Int64()
	zz.Assume(id >= 0 && id <= 67)
	forwardKeepAlive(&packet.KeepAlive{RandomID: id}, pl)
	got := cur.keepAlives()
	if id >= 3 && id <= 66 {
		zz.Assert(len(got) == 1 && got[0] == id, "a reply to one of the 64 most recent keep-alives was not forwarded")
		zz.Reach("recent")
	} else {
		zz.Assert(len(got) == 0, "a reply to an unknown or forgotten keep-alive id was forwarded")
		zz.Reach("forgotten")
	}
}

func VerifMutant_KeepAlive() {
	cur := zzNewBackend(state.Play, false)
	pl := &connectedPlayer{connectedServer_: cur.sc}
	id := zz.Int64()
	cur.ask(id)
	forwardKeepAlive(&packet.KeepAlive{RandomID: id}, pl)
	forwardKeepAlive(&packet.KeepAlive{RandomID: id}, pl)
	zz.Assert(len(cur.keepAlives()) == 2, "control: the second identical reply must be dropped")
}
