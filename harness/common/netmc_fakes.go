package netmc

import (
	"context"
	"errors"
	"net"
	"time"

	"github.com/go-logr/logr"
	"go.minekube.com/gate/pkg/edition/java/proto/state"
	"go.minekube.com/gate/pkg/edition/java/proxy/phase"
	"go.minekube.com/gate/pkg/gate/proto"
	"go.opentelemetry.io/otel/trace/noop"
)

// zzNetConn is a net.Conn that only counts Close.
type zzNetConn struct {
	net.Conn
	closes int
}

type zzAddr struct{}

func (zzAddr) Network() string { return "tcp" }
func (zzAddr) String() string  { return "1.2.3.4:5" }

func (c *zzNetConn) Close() error                     { c.closes++; return nil }
func (c *zzNetConn) RemoteAddr() net.Addr             { return zzAddr{} }
func (c *zzNetConn) LocalAddr() net.Addr              { return zzAddr{} }
func (c *zzNetConn) SetDeadline(time.Time) error      { return nil }
func (c *zzNetConn) SetReadDeadline(time.Time) error  { return nil }
func (c *zzNetConn) SetWriteDeadline(time.Time) error { return nil }

// zzWriter records what reaches the connection's write buffer, in order.
type zzWriter struct {
	log      []proto.Packet
	payloads int
	flushes  int
	st       *state.Registry
	failNext error
}

func (w *zzWriter) WritePacket(p proto.Packet) (int, error) {
	if w.failNext != nil {
		return 0, w.failNext
	}
	w.log = append(w.log, p)
	return 1, nil
}
func (w *zzWriter) Write(p []byte) (int, error) {
	if w.failNext != nil {
		return 0, w.failNext
	}
	w.payloads++
	return len(p), nil
}
func (w *zzWriter) Flush() error                      { w.flushes++; return nil }
func (w *zzWriter) SetProtocol(proto.Protocol)        {}
func (w *zzWriter) SetState(s *state.Registry)        { w.st = s }
func (w *zzWriter) SetCompressionThreshold(int) error { return nil }
func (w *zzWriter) EnableEncryption([]byte) error     { return nil }
func (w *zzWriter) Direction() proto.Direction        { return proto.ClientBound }

// zzReader yields a scripted sequence of packet contexts and then an error (peer closed).
type zzReader struct {
	script []*proto.PacketContext
	pos    int
}

func (r *zzReader) ReadPacket() (*proto.PacketContext, error) {
	if r.pos >= len(r.script) {
		return nil, errors.New("EOF")
	}
	pc := r.script[r.pos]
	r.pos++
	return pc, nil
}
func (r *zzReader) ReadBuffered() ([]byte, error)     { return nil, nil }
func (r *zzReader) SetProtocol(proto.Protocol)        {}
func (r *zzReader) SetState(*state.Registry)          {}
func (r *zzReader) SetCompressionThreshold(int) error { return nil }
func (r *zzReader) EnableEncryption([]byte) error     { return nil }

// zzHandler counts teardown and handled packets; it panics where the script says so.
type zzHandler struct {
	disconnected int
	handled      int
	panicWith    func(n int) any // nil result = no panic for the n-th packet
}

func (h *zzHandler) HandlePacket(pc *proto.PacketContext) {
	n := h.handled
	h.handled++
	if h.panicWith != nil {
		if v := h.panicWith(n); v != nil {
			panic(v)
		}
	}
}
func (h *zzHandler) Disconnected() { h.disconnected++ }
func (h *zzHandler) Activated()    {}
func (h *zzHandler) Deactivated()  {}

// newZZMinecraftConn builds the real minecraftConn over fakes (no sockets, no real codec).
func newZZMinecraftConn(p proto.Protocol, st *state.Registry, rd *zzReader, wr *zzWriter, h *zzHandler) (*minecraftConn, *zzNetConn) {
	tracer = noop.NewTracerProvider().Tracer("zz")
	base := &zzNetConn{}
	ctx, cancel := context.WithCancel(context.Background())
	c := &minecraftConn{
		log:         logr.Discard(),
		c:           base,
		ctx:         ctx,
		cancelCtx:   cancel,
		rd:          rd,
		wr:          wr,
		state:       st,
		protocol:    p,
		connType:    phase.Undetermined,
		direction:   proto.ServerBound,
		autoReading: newStateControl(true),
	}
	c.sessionHandlerMu.sessionHandlers = make(map[*state.Registry]SessionHandler)
	if h != nil {
		c.sessionHandlerMu.activeSessionHandler = h
	}
	return c, base
}
