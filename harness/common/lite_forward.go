package lite

import (
	"context"
	"errors"
	"io"
	"math/rand"
	"net"
	"os"
	"time"

	"go.minekube.com/gate/pkg/edition/java/netmc"
	zz "go.minekube.com/gate/pkg/internal/zzverif"
)

func zzFixedClock() {
	fixed := time.Unix(1000, 0)
	zz.Replace("time.Now", func() time.Time { return fixed })
}

// zzStubRand makes the random strategy's choice an arbitrary value of the documented range.
func zzStubRand() {
	zz.ReplaceSym("(*math/rand.Rand).Intn", func(r *rand.Rand, n int) int {
		v := zz.Int()
		zz.Assume(v >= 0 && v < n)
		return v
	})
}

// zzPipeConn is an in-memory net.Conn end: Read serves a fixed byte string then EOF, Write records.
type zzPipeConn struct {
	remote  net.Addr
	in      []byte
	pos     int
	out     []byte
	closed  int
	failW   error
	failAt  int // when > 0: the failAt-th write (and every later one) fails with failW
	writes  int
	slow    bool // every Read is a scheduling point and hands over one byte
	expired bool // a read deadline that is not in the future has been set
}

func (c *zzPipeConn) Read(p []byte) (int, error) {
	if c.slow {
		zz.Yield()
	}
	if c.expired {
		return 0, os.ErrDeadlineExceeded
	}
	if c.pos >= len(c.in) {
		return 0, io.EOF
	}
	avail := c.in[c.pos:]
	if c.slow && len(avail) > 1 {
		avail = avail[:1]
	}
	n := copy(p, avail)
	c.pos += n
	return n, nil
}
func (c *zzPipeConn) Write(p []byte) (int, error) {
	if c.failW != nil && (c.failAt == 0 || c.writes+1 >= c.failAt) {
		return 0, c.failW
	}
	c.writes++
	c.out = append(c.out, p...)
	return len(p), nil
}
func (c *zzPipeConn) Close() error { c.closed++; return nil }
func (c *zzPipeConn) LocalAddr() net.Addr {
	return &net.TCPAddr{IP: net.IPv4(10, 0, 0, 1), Port: 25565}
}
func (c *zzPipeConn) RemoteAddr() net.Addr          { return c.remote }
func (c *zzPipeConn) SetDeadline(t time.Time) error { return c.SetReadDeadline(t) }
func (c *zzPipeConn) SetReadDeadline(t time.Time) error {
	// time does not pass within a run: a deadline in the future never expires, one that is not does at once
	c.expired = !t.IsZero() && !t.After(time.Now())
	return nil
}
func (c *zzPipeConn) SetWriteDeadline(time.Time) error { return nil }

// zzFwdClient is the client side handed to Forward.
type zzFwdClient struct {
	netmc.MinecraftConn
	conn        *zzPipeConn
	buffered    []byte
	bufferedErr error
	closed      int
	proxied     bool // the listener accepted the connection behind a PROXY protocol header
}

// zzProxiedConn has the shape of the wrapper a PROXY-protocol listener hands out (go-proxyproto's
// Conn): RemoteAddr is the client address from the received header, and the accepted TCP connection,
// whose peer is the load balancer, can be asked for.
type zzProxiedConn struct {
	*zzPipeConn
	asked int
}

func (c *zzProxiedConn) TCPConn() (*net.TCPConn, bool) { c.asked++; return &net.TCPConn{}, true }

func (c *zzFwdClient) Conn() net.Conn {
	if c.proxied {
		return &zzProxiedConn{zzPipeConn: c.conn}
	}
	return c.conn
}
func (c *zzFwdClient) Context() context.Context { return context.Background() }
func (c *zzFwdClient) Close() error             { c.closed++; return nil }

// ReadBuffered drains the reader's buffer like the real one: the bytes are handed out once.
func (c *zzFwdClient) ReadBuffered() ([]byte, error) {
	b := c.buffered
	c.buffered = nil
	return b, c.bufferedErr
}

var errZZDial = errors.New("dial tcp: connection refused")

// zzDialer replaces net.Dialer.DialContext: each dialed address gets its own in-memory backend, or a
// dial error for the addresses listed in refuse.
type zzDialer struct {
	dialed      []string
	backends    map[string]*zzPipeConn
	refuse      map[string]bool
	breakAt     map[string]int // address -> number of the first write that fails (connection reset)
	fromBackend []byte
}

func (d *zzDialer) install() {
	zz.Replace("(*net.Dialer).DialContext", func(_ *net.Dialer, ctx context.Context, network, address string) (net.Conn, error) {
		d.dialed = append(d.dialed, address)
		if d.refuse[address] {
			return nil, errZZDial
		}
		b := &zzPipeConn{remote: &net.TCPAddr{IP: net.IPv4(10, 9, 9, 9), Port: 25566}, in: d.fromBackend}
		if k := d.breakAt[address]; k > 0 {
			b.failW, b.failAt = errZZDial, k
		}
		if d.backends == nil {
			d.backends = map[string]*zzPipeConn{}
		}
		d.backends[address] = b
		return b, nil
	})
}
