package proxy

import (
	"context"
	"errors"
	"net"

	"github.com/robinbraemer/event"
	"go.minekube.com/gate/pkg/edition/java/config"
	"go.minekube.com/gate/pkg/edition/java/netmc"
	"go.minekube.com/gate/pkg/edition/java/proto/packet"
	"go.minekube.com/gate/pkg/edition/java/proto/state"
	"go.minekube.com/gate/pkg/edition/java/proxy/phase"
	"go.minekube.com/gate/pkg/gate/proto"
	"go.minekube.com/gate/pkg/util/netutil"
	"go.minekube.com/gate/pkg/util/uuid"
)

// zzConn is a recording netmc.MinecraftConn. Methods it does not define panic (nil embedded
// interface), so unexpected use of the connection shows up as a violation.
type zzConn struct {
	netmc.MinecraftConn
	ctx       context.Context
	cancel    context.CancelFunc
	protocol  proto.Protocol
	st        *state.Registry
	log       []zzOp // everything done to the connection, in order
	closed    int
	writeErr  error
	handler   netmc.SessionHandler
	threshold int
	secret    []byte
	connType  phase.ConnectionType
	onClose   func() // run once on the first Close (the real connection's read loop tears the session down)
}

type zzOp struct {
	kind    string // write-packet, buffer-packet, write, buffer-payload, flush, close, set-state, set-handler, enable-encryption, set-compression
	packet  proto.Packet
	payload []byte
	st      *state.Registry
}

func newZZConn(p proto.Protocol, st *state.Registry) *zzConn {
	return &zzConn{ctx: context.Background(), protocol: p, st: st}
}

func (c *zzConn) Context() context.Context  { return c.ctx }
func (c *zzConn) Protocol() proto.Protocol  { return c.protocol }
func (c *zzConn) State() *state.Registry    { return c.st }
func (c *zzConn) RemoteAddr() net.Addr      { return netutil.NewAddr("1.2.3.4:1234", "tcp") }
func (c *zzConn) LocalAddr() net.Addr       { return netutil.NewAddr("5.6.7.8:25565", "tcp") }
func (c *zzConn) SetProtocol(p proto.Protocol) { c.protocol = p }
func (c *zzConn) SetState(s *state.Registry) {
	c.st = s
	c.log = append(c.log, zzOp{kind: "set-state", st: s})
}
func (c *zzConn) SetOutboundState(s *state.Registry) {
	c.log = append(c.log, zzOp{kind: "set-outbound-state", st: s})
}
func (c *zzConn) Close() error {
	c.closed++
	c.log = append(c.log, zzOp{kind: "close"})
	if c.closed == 1 {
		if c.cancel != nil {
			c.cancel()
		}
		if c.onClose != nil {
			c.onClose()
		}
	}
	return nil
}
func (c *zzConn) WritePacket(p proto.Packet) error {
	if c.closed > 0 {
		return netmc.ErrClosedConn
	}
	c.log = append(c.log, zzOp{kind: "write-packet", packet: p})
	return c.writeErr
}
func (c *zzConn) BufferPacket(p proto.Packet) error {
	if c.closed > 0 {
		return netmc.ErrClosedConn
	}
	c.log = append(c.log, zzOp{kind: "buffer-packet", packet: p})
	return c.writeErr
}
func (c *zzConn) Write(b []byte) error {
	if c.closed > 0 {
		return netmc.ErrClosedConn
	}
	c.log = append(c.log, zzOp{kind: "write", payload: append([]byte(nil), b...)})
	return c.writeErr
}
func (c *zzConn) BufferPayload(b []byte) error {
	if c.closed > 0 {
		return netmc.ErrClosedConn
	}
	c.log = append(c.log, zzOp{kind: "buffer-payload", payload: append([]byte(nil), b...)})
	return c.writeErr
}
func (c *zzConn) Flush() error {
	c.log = append(c.log, zzOp{kind: "flush"})
	return nil
}
func (c *zzConn) SetActiveSessionHandler(s *state.Registry, h netmc.SessionHandler) {
	c.st = s
	c.handler = h
	c.log = append(c.log, zzOp{kind: "set-handler", st: s})
}
func (c *zzConn) ActiveSessionHandler() netmc.SessionHandler { return c.handler }
func (c *zzConn) SetCompressionThreshold(t int) error {
	c.threshold = t
	c.log = append(c.log, zzOp{kind: "set-compression"})
	return nil
}
func (c *zzConn) EnableEncryption(secret []byte) error {
	c.secret = append([]byte(nil), secret...)
	c.log = append(c.log, zzOp{kind: "enable-encryption", payload: c.secret})
	return nil
}
func (c *zzConn) Type() phase.ConnectionType     { return c.connType }
func (c *zzConn) SetType(t phase.ConnectionType) { c.connType = t }
func (c *zzConn) SetAutoReading(bool)  {}
func (c *zzConn) EnablePlayPacketQueue() {}

func (c *zzConn) count(kind string) int {
	n := 0
	for _, o := range c.log {
		if o.kind == kind {
			n++
		}
	}
	return n
}

// zzInbound is a minimal Inbound.
type zzInbound struct {
	protocol proto.Protocol
	vhost    net.Addr
	active   bool
}

func (i *zzInbound) Protocol() proto.Protocol               { return i.protocol }
func (i *zzInbound) VirtualHost() net.Addr                  { return i.vhost }
func (i *zzInbound) HandshakeIntent() packet.HandshakeIntent { return packet.StatusHandshakeIntent }
func (i *zzInbound) RemoteAddr() net.Addr                   { return netutil.NewAddr("1.2.3.4:1234", "tcp") }
func (i *zzInbound) Active() bool                           { return i.active }
func (i *zzInbound) Context() context.Context               { return context.Background() }

// zzEvents is an event manager with no subscribers unless onFire is set.
type zzEvents struct {
	onFire func(event.Event)
	fired  []event.Event
	subs   bool
}

func (m *zzEvents) Subscribe(event.Event, int, event.HandlerFunc) func() { return func() {} }
func (m *zzEvents) Fire(e event.Event) {
	m.fired = append(m.fired, e)
	if m.onFire != nil {
		m.onFire(e)
	}
}
func (m *zzEvents) FireParallel(e event.Event, after ...event.HandlerFunc) {
	m.Fire(e)
	for _, a := range after {
		a(e)
	}
}
func (m *zzEvents) Wait(...event.Event)               {}
func (m *zzEvents) HasSubscriber(...event.Event) bool { return m.subs }
func (m *zzEvents) UnsubscribeAll(...event.Event) int { return 0 }

type zzConfigProvider struct{ cfg *config.Config }

func (p *zzConfigProvider) config() *config.Config { return p.cfg }

// zzProxy builds a Proxy with empty registries and the given config, without starting anything.
func zzProxy(cfg *config.Config, ev event.Manager) *Proxy {
	p := &Proxy{
		cfg:         cfg,
		event:       ev,
		servers:     map[string]*registeredServer{},
		playerNames: map[string]*connectedPlayer{},
		playerIDs:   map[uuid.UUID]*connectedPlayer{},
	}
	return p
}

var errZZWrite = errors.New("write: broken pipe")

func zzCanceledContext() (context.Context, context.CancelFunc) {
	ctx, cancel := context.WithCancel(context.Background())
	cancel()
	return ctx, cancel
}
