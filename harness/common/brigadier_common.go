package brigadier

import (
	"math"

	"go.minekube.com/brigodier"
	"go.minekube.com/gate/pkg/edition/java/proto/version"
	"go.minekube.com/gate/pkg/gate/proto"
	zz "go.minekube.com/gate/pkg/internal/zzverif"
)

// Shared by C04 (ArgumentTypesRoundTrip) and C23 (BackendArgumentNodesKeepTheirMeaning): the
// argument-type part of a command node, i.e. the parser identifier and its properties.

// every supported version that has a command tree (1.13+); ids are numeric from 1.19, names before
func zzProtocol() proto.Protocol {
	var ps []proto.Protocol
	for _, v := range version.Versions {
		if !v.Protocol.GreaterEqual(version.Minecraft_1_13) {
			continue
		}
		if !zz.Thorough() { // quick: the versions at which the parser id table changes, and the ones just before
			switch v.Protocol {
			case 393, 758, 759, 760, 761, 762, 764, 765, 766, 769, 770, 771, 776:
			default:
				continue
			}
		}
		ps = append(ps, v.Protocol)
	}
	return ps[zz.Choose(len(ps))]
}

// float bounds: the engine keeps symbolic floats opaque, so the bounds come from a list that has the
// defaults, ordinary values, zero of both signs, infinities and a NaN
var zzF64 = []uint64{
	math.Float64bits(-math.MaxFloat64), math.Float64bits(math.MaxFloat64), 0, 1 << 63,
	math.Float64bits(1.5), math.Float64bits(-3), 0x7ff0000000000000, 0xfff0000000000000, 0x7ff8000000000001,
}
var zzF32 = []uint32{
	math.Float32bits(-math.MaxFloat32), math.Float32bits(math.MaxFloat32), 0, 1 << 31,
	math.Float32bits(1.5), math.Float32bits(-3), 0x7f800000, 0xff800000, 0x7fc00001,
}

func zzSameArg(a, b brigodier.ArgumentType) bool {
	switch x := a.(type) {
	case *brigodier.BoolArgumentType:
		_, ok := b.(*brigodier.BoolArgumentType)
		return ok
	case *brigodier.Int32ArgumentType:
		y, ok := b.(*brigodier.Int32ArgumentType)
		return ok && x.Min == y.Min && x.Max == y.Max
	case *brigodier.Int64ArgumentType:
		y, ok := b.(*brigodier.Int64ArgumentType)
		return ok && x.Min == y.Min && x.Max == y.Max
	case *brigodier.Float32ArgumentType:
		y, ok := b.(*brigodier.Float32ArgumentType)
		return ok && math.Float32bits(x.Min) == math.Float32bits(y.Min) && math.Float32bits(x.Max) == math.Float32bits(y.Max)
	case *brigodier.Float64ArgumentType:
		y, ok := b.(*brigodier.Float64ArgumentType)
		return ok && math.Float64bits(x.Min) == math.Float64bits(y.Min) && math.Float64bits(x.Max) == math.Float64bits(y.Max)
	case brigodier.StringType:
		y, ok := b.(brigodier.StringType)
		return ok && x == y
	case *EntityArgumentType:
		y, ok := b.(*EntityArgumentType)
		return ok && *x == *y
	case *RegistryKeyArgumentType:
		y, ok := b.(*RegistryKeyArgumentType)
		return ok && *x == *y
	case *ResourceOrTagKeyArgumentType:
		y, ok := b.(*ResourceOrTagKeyArgumentType)
		return ok && *x == *y
	case *ResourceKeyArgumentType:
		y, ok := b.(*ResourceKeyArgumentType)
		return ok && *x == *y
	case *ResourceSelectorArgumentType:
		y, ok := b.(*ResourceSelectorArgumentType)
		return ok && *x == *y
	}
	return false
}
