package proxy

import (
	"context"
	"time"

	"github.com/go-logr/logr"
	"github.com/robinbraemer/event"
	"go.minekube.com/brigodier"
	"go.minekube.com/common/minecraft/component"
	"go.minekube.com/gate/pkg/command"
	"go.minekube.com/gate/pkg/edition/java/config"
	"go.minekube.com/gate/pkg/edition/java/profile"
	"go.minekube.com/gate/pkg/edition/java/proto/packet/chat"
	"go.minekube.com/gate/pkg/edition/java/proto/state"
	"go.minekube.com/gate/pkg/gate/proto"
	zz "go.minekube.com/gate/pkg/internal/zzverif"
)

type zzCmdWorld struct {
	h        *chatHandler
	backend  *zzConn
	client   *zzConn
	ran      int    // how often the proxy executed a command
	ranCmd   string // the command line it executed
	outcome  struct{ allowed, forward, modify bool }
	proxyHas bool // the line names a registered proxy command the player may use
}

const zzTyped = "hub now"
const zzRewritten = "lobby"

func zzCmdFixture(protocol proto.Protocol) *zzCmdWorld {
	w := &zzCmdWorld{}
	cfg := config.DefaultConfig
	w.outcome.allowed, w.outcome.forward, w.outcome.modify = zz.Bool(), zz.Bool(), zz.Bool()
	w.proxyHas = zz.Bool()
	ev := &zzEvents{onFire: func(e event.Event) {
		if ce, ok := e.(*CommandExecuteEvent); ok {
			ce.SetAllowed(w.outcome.allowed)
			ce.SetForward(w.outcome.forward)
			if w.outcome.modify {
				ce.SetCommand(zzRewritten)
			}
		}
	}}
	w.client = newZZConn(protocol, state.Play)
	w.client.ctx, w.client.cancel = context.WithCancel(context.Background())
	w.backend = newZZConn(protocol, state.Play)
	pl := &connectedPlayer{
		MinecraftConn:      w.client,
		sessionHandlerDeps: &sessionHandlerDeps{eventMgr: ev, configProvider: &zzConfigProvider{cfg: &cfg}},
		profile:            &profile.GameProfile{Name: "p"},
		log:                logr.Discard(),
	}
	pl.connectedServer_ = &serverConnection{connection: w.backend, player: pl}
	pl.chatQueue = newChatQueue(pl)
	w.h = &chatHandler{log: logr.Discard(), eventMgr: ev, player: pl, configProvider: &zzConfigProvider{cfg: &cfg}}
	// the proxy's command dispatcher: runs the line iff it names a registered command the player may
	// use, otherwise reports "unknown" so the line is forwarded (brigodier itself: second harness)
	zz.Replace("go.minekube.com/gate/pkg/edition/java/proxy.executeCommand", func(cmd string, player *connectedPlayer, mgr *command.Manager) (bool, error) {
		if w.proxyHas {
			w.ran++
			w.ranCmd = cmd
			return true, nil
		}
		return false, nil
	})
	zz.ReplaceSym("(*go.minekube.com/gate/pkg/edition/java/proxy.connectedPlayer).Disconnect", func(p *connectedPlayer, reason component.Component) {
		_ = p.MinecraftConn.Close()
	})
	return w
}

// zzCommandsAtBackend lists the command lines (without slash) the backend received.
func zzCommandsAtBackend(b *zzConn) []string {
	var out []string
	for _, o := range b.log {
		if o.kind != "write-packet" {
			continue
		}
		switch p := o.packet.(type) {
		case *chat.LegacyChat:
			if len(p.Message) > 0 && p.Message[0] == '/' {
				out = append(out, p.Message[1:])
			} else {
				out = append(out, "?"+p.Message)
			}
		case *chat.SessionPlayerCommand:
			out = append(out, p.Command)
		case *chat.UnsignedPlayerCommand:
			out = append(out, p.Command)
		case *chat.KeyedPlayerCommand:
			out = append(out, p.Command)
		}
	}
	return out
}

func (w *zzCmdWorld) check(family string) {
	effective := zzTyped
	if w.outcome.modify {
		effective = zzRewritten
	}
	got := zzCommandsAtBackend(w.backend)
	switch {
	case !w.outcome.allowed:
		zz.Assert(len(got) == 0, "a command the event denied reached the backend")
		zz.Assert(w.ran == 0, "a command the event denied was executed by the proxy")
		zz.Reach(family + "-denied")
	case w.outcome.forward:
		zz.Assert(w.ran == 0, "a command the event asked to forward was executed by the proxy")
		zz.Assert(len(got) == 1 && got[0] == effective, "a forwarded command did not reach the backend exactly once (unchanged, or rewritten as the event requested)")
		zz.Reach(family + "-forwarded")
	case w.proxyHas:
		zz.Assert(w.ran == 1 && w.ranCmd == effective, "a registered proxy command the player may use was not executed exactly once by the proxy")
		zz.Assert(len(got) == 0, "a command executed by the proxy also reached the backend")
		zz.Reach(family + "-proxy")
	default:
		zz.Assert(w.ran == 0, "the proxy executed a line that names no registered command")
		zz.Assert(len(got) == 1 && got[0] == effective, "a command unknown to the proxy did not reach the backend exactly once")
		zz.Reach(family + "-backend")
	}
}

// Pre-1.19 clients: commands arrive as chat lines starting with '/'.
func VerifHarness_LegacyCommand() {
	zz.MaxPreempt(1)
	w := zzCmdFixture(340)
	_ = w.h.handleLegacyCommand(&chat.LegacyChat{Message: "/" + zzTyped})
	zz.WaitAll()
	w.check("legacy")
}

// 1.19.3+ clients: session commands, signed or not, and the unsigned command packet of 1.20.5+.
func VerifHarness_SessionCommand() {
	zz.MaxPreempt(1)
	unsignedPacket := zz.Bool()
	protocol := proto.Protocol(761) // 1.19.3
	if unsignedPacket {
		protocol = 766 // 1.20.5
	}
	w := zzCmdFixture(protocol)
	p := &chat.SessionPlayerCommand{Command: zzTyped, Timestamp: time.Unix(5, 0)}
	signed := false
	if !unsignedPacket && zz.Bool() {
		p.ArgumentSignatures.Entries = []chat.ArgumentSignature{{Name: "a", Signature: make([]byte, 256)}}
		signed = true
	}
	if !unsignedPacket {
		p.LastSeenMessages.Offset = zz.Choose(2)
	}
	_ = w.h.handleSessionCommand(p, unsignedPacket)
	zz.WaitAll()
	// A signed command cannot be denied, consumed or rewritten without invalidating the client's
	// signatures: with ForceKeyAuthentication (the default) the documented outcome is to disconnect
	// the player for an illegal protocol state and send nothing to the backend.
	mustStaySigned := signed && (!w.outcome.allowed || (w.outcome.modify && (w.outcome.forward || !w.proxyHas)) || (!w.outcome.forward && w.proxyHas))
	if mustStaySigned {
		zz.Assert(len(zzCommandsAtBackend(w.backend)) == 0, "a signed command that had to be altered or consumed still reached the backend")
		zz.Assert(w.client.closed >= 1, "a signed command was altered or consumed without the illegal-protocol-state disconnect")
		zz.Reach("session-signed-illegal-state")
		return
	}
	w.check("session")
	// acknowledgements may accompany a consumed command, but never replace one that had to be forwarded
	for _, o := range w.backend.log {
		if _, ok := o.packet.(*chat.ChatAcknowledgement); ok {
			zz.Assert(!w.outcome.allowed || (w.proxyHas && !w.outcome.forward), "an acknowledgement replaced a command that should have been forwarded")
		}
	}
}

// The proxy's dispatcher itself (brigodier executed for real): a line is run by the proxy exactly when
// it names a registered command whose requirement the player meets; unknown or not permitted lines are
// reported as "not run" so that they are forwarded.
func VerifHarness_ProxyDispatch() {
	var mgr command.Manager
	permitted := zz.Bool()
	ran := 0
	name := "hub"
	if zz.Bool() {
		name = "warpTo" // literals are matched as registered, whatever their letter case
	}
	mgr.Register(brigodier.Literal(name).
		Requires(command.Requires(func(c *command.RequiresContext) bool { return permitted })).
		Executes(command.Command(func(c *command.Context) error { ran++; return nil })))
	client := newZZConn(767, state.Play)
	client.ctx, client.cancel = context.WithCancel(context.Background())
	pl := &connectedPlayer{MinecraftConn: client, profile: &profile.GameProfile{Name: "p"}, log: logr.Discard()}
	line := name
	known := true
	if zz.Bool() {
		line, known = "nope", false
	}
	hasRun, err := executeCommand(line, pl, &mgr)
	zz.Assert(err == nil, "dispatching a command line failed")
	if known && permitted {
		zz.Assert(hasRun && ran == 1, "a registered proxy command the player may use was not executed exactly once")
		zz.Reach("dispatch-run")
	} else {
		zz.Assert(!hasRun && ran == 0, "a command that is unknown to the proxy or not permitted was executed (or not handed on for forwarding)")
		zz.Reach("dispatch-forward")
	}
}

func VerifMutant_Command() {
	zz.MaxPreempt(1)
	w := zzCmdFixture(340)
	_ = w.h.handleLegacyCommand(&chat.LegacyChat{Message: "/" + zzTyped})
	zz.WaitAll()
	zz.Assert(len(zzCommandsAtBackend(w.backend)) == 0, "control: some outcome forwards the command")
}
