package proxy

import (
	"bytes"

	"github.com/go-logr/logr"
	"go.minekube.com/gate/pkg/edition/java/config"
	"go.minekube.com/gate/pkg/edition/java/proto/packet"
	"go.minekube.com/gate/pkg/edition/java/proto/state"
	"go.minekube.com/gate/pkg/edition/java/proxy/bungeecord"
	"go.minekube.com/gate/pkg/edition/java/proxy/phase"
	"go.minekube.com/gate/pkg/gate/proto"
	zz "go.minekube.com/gate/pkg/internal/zzverif"
	"go.minekube.com/gate/pkg/util/netutil"
)

// zzRawWrites returns the raw payloads written to a recording connection, in order.
func zzRawWrites(c *zzConn) [][]byte {
	var out [][]byte
	for _, o := range c.log {
		if o.kind == "write" || o.kind == "buffer-payload" {
			out = append(out, o.payload)
		}
	}
	return out
}

// A player in play on a backend; a symbolic sequence of packets arrives from both sides: packets with ids
// the proxy does not know, known pass-through types, and (in between) keep-alives the proxy handles
// itself. Every non-intercepted packet reaches the other side with exactly its payload, and the
// payloads arrive in the order they came, per direction.
func VerifHarness_PassThroughKeepsPayloadAndOrder() {
	zz.MaxLen(4)
	cfg := config.DefaultConfig
	ev := &zzEvents{}
	px := zzProxy(&cfg, ev)
	client := newZZConn(767, state.Play)
	backend := newZZConn(767, state.Play)
	pl := &connectedPlayer{MinecraftConn: client, log: logr.Discard(), connPhase: phase.VanillaClientPhase,
		sessionHandlerDeps: &sessionHandlerDeps{proxy: px, eventMgr: ev, configProvider: &zzConfigProvider{cfg: &cfg}}}
	sc := newServerConnection(newRegisteredServer(NewServerInfo("lobby", netutil.NewAddr("10.0.0.2:25565", "tcp"))), nil, pl)
	sc.connection, sc.connPhase = backend, phase.VanillaBackendPhase
	sc.completedJoin.Store(true)
	pl.connectedServer_ = sc
	ch := &clientPlaySessionHandler{player: pl, log: logr.Discard(), log1: logr.Discard()}
	bh := &backendPlaySessionHandler{serverConn: sc, bungeeCordMessageResponder: bungeecord.NopMessageResponder, playerSessionHandler: ch, log: logr.Discard()}

	var toBackend, toClient [][]byte // what must arrive, in order
	steps := 3
	if zz.Thorough() {
		steps = 4
	}
	for i := 0; i < steps; i++ {
		payload := append([]byte{zz.Byte()}, zz.Bytes(zz.Choose(4))...)
		fromClient := zz.Bool()
		dir := proto.ClientBound
		if fromClient {
			dir = proto.ServerBound
		}
		pc := &proto.PacketContext{Direction: dir, Protocol: 767, PacketID: proto.PacketID(payload[0]), Payload: payload}
		switch zz.Choose(3) {
		case 0: // an id the proxy has no type for
			if fromClient {
				ch.HandlePacket(pc)
				toBackend = append(toBackend, payload)
			} else {
				bh.HandlePacket(pc)
				toClient = append(toClient, payload)
			}
			zz.Reach("unknown-id")
		case 1: // a known type the proxy does not intercept in this direction
			if fromClient {
				pc.Packet = &packet.ClientSettings{Locale: "en_US"} // recorded, and forwarded as it came
				ch.HandlePacket(pc)
				toBackend = append(toBackend, payload)
			} else {
				pc.Packet = &packet.JoinGame{} // a later join game on the same server is not intercepted by the play handler
				bh.HandlePacket(pc)
				toClient = append(toClient, payload)
			}
			zz.Reach("known-pass-through")
		case 2: // a keep-alive: handled by the proxy, must not disturb the order of the others
			pc.Packet = &packet.KeepAlive{RandomID: int64(i)}
			zz.Replace("go.minekube.com/gate/pkg/edition/java/proxy.recordBackendKeepAlive", func(*serverConnection, *packet.KeepAlive) {})
			if fromClient {
				ch.HandlePacket(pc) // answered to the backend that asked, as a packet of its own: not a relayed payload
			} else {
				bh.HandlePacket(pc) // recorded, and relayed as it came
				toClient = append(toClient, payload)
			}
		}
	}
	gotBackend, gotClient := zzRawWrites(backend), zzRawWrites(client)
	zz.Assert(len(gotBackend) == len(toBackend) && len(gotClient) == len(toClient), "a non-intercepted packet was dropped or duplicated")
	for i := range toBackend {
		zz.Assert(bytes.Equal(gotBackend[i], toBackend[i]), "a packet relayed to the backend is not byte-identical, or arrived out of order")
	}
	for i := range toClient {
		zz.Assert(bytes.Equal(gotClient[i], toClient[i]), "a packet relayed to the client is not byte-identical, or arrived out of order")
	}
	zz.Reach("relay")
}

func VerifMutant_Relay() {
	cfg := config.DefaultConfig
	ev := &zzEvents{}
	px := zzProxy(&cfg, ev)
	client, backend := newZZConn(767, state.Play), newZZConn(767, state.Play)
	pl := &connectedPlayer{MinecraftConn: client, log: logr.Discard(), connPhase: phase.VanillaClientPhase,
		sessionHandlerDeps: &sessionHandlerDeps{proxy: px, eventMgr: ev, configProvider: &zzConfigProvider{cfg: &cfg}}}
	sc := &serverConnection{server: newRegisteredServer(NewServerInfo("lobby", netutil.NewAddr("10.0.0.2:25565", "tcp"))), player: pl, log: logr.Discard(), connection: backend, connPhase: phase.VanillaBackendPhase}
	pl.connectedServer_ = sc
	ch := &clientPlaySessionHandler{player: pl, log: logr.Discard(), log1: logr.Discard()}
	ch.HandlePacket(&proto.PacketContext{Direction: proto.ServerBound, Protocol: 767, PacketID: 0x7f, Payload: []byte{0x7f, 1}})
	zz.Assert(len(zzRawWrites(backend)) == 0, "control: an unknown packet is forwarded")
}
