package netmc

import (
	"bytes"

	"go.minekube.com/gate/pkg/edition/java/proto/state"
	"go.minekube.com/gate/pkg/gate/proto"
	zz "go.minekube.com/gate/pkg/internal/zzverif"
)

// zzWriter15 records the payloads handed to the connection's writer, and the flushes, in order.
type zzWriter15 struct {
	zzWriter
	ops []zzWOp
}

type zzWOp struct {
	payload []byte
	flush   bool
}

func (w *zzWriter15) Write(p []byte) (int, error) {
	w.ops = append(w.ops, zzWOp{payload: append([]byte(nil), p...)})
	return len(p), nil
}
func (w *zzWriter15) Flush() error { w.ops = append(w.ops, zzWOp{flush: true}); return nil }

// The real connection's raw-payload path: Write hands exactly the payload to the framing writer and
// flushes; BufferPayload hands it over without flushing; several of them keep their order; a closed
// connection takes nothing.
func VerifHarness_ConnectionWritesPayloadsInOrder() {
	zz.MaxLen(4)
	w := &zzWriter15{}
	c := &minecraftConn{}
	{
		mc, _ := newZZMinecraftConn(767, state.Play, &zzReader{}, &w.zzWriter, &zzHandler{})
		c = mc
		c.wr = w
	}
	var want [][]byte
	var buffered []bool
	n := 1 + zz.Choose(3)
	for i := 0; i < n; i++ {
		p := zz.Bytes(1 + zz.Choose(4))
		if zz.Bool() {
			zz.Assert(c.Write(p) == nil, "writing a payload to an open connection failed")
			buffered = append(buffered, false)
		} else {
			zz.Assert(c.BufferPayload(p) == nil, "buffering a payload on an open connection failed")
			buffered = append(buffered, true)
		}
		want = append(want, p)
	}
	k := 0
	for i, op := range w.ops {
		if op.flush {
			continue
		}
		zz.Assert(k < len(want) && bytes.Equal(op.payload, want[k]), "a payload reached the framing writer changed or out of order")
		if !buffered[k] {
			zz.Assert(i+1 < len(w.ops) && w.ops[i+1].flush, "Write did not flush after handing over the payload")
		}
		k++
	}
	zz.Assert(k == len(want), "a payload did not reach the framing writer")
	_ = c.Close()
	before := len(w.ops)
	zz.Assert(c.Write([]byte{1}) != nil && c.BufferPayload([]byte{1}) != nil, "a closed connection accepted a payload")
	for _, op := range w.ops[before:] {
		zz.Assert(op.flush, "a closed connection handed a payload to the writer")
	}
	zz.Reach("conn-writes")
}

var _ = proto.ClientBound
