package netmc

import (
	"bytes"
	"time"

	"github.com/go-logr/logr"

	"go.minekube.com/gate/pkg/edition/java/proto/packet"
	"go.minekube.com/gate/pkg/edition/java/proto/state"
	"go.minekube.com/gate/pkg/gate/proto"
	zz "go.minekube.com/gate/pkg/internal/zzverif"
)

// zzWriter15 records the payloads handed to the connection's writer, and the flushes, in order.
type zzWriter15 struct {
	zzWriter
	ops []zzWOp
}

type zzWOp struct {
	payload []byte
	flush   bool
}

func (w *zzWriter15) Write(p []byte) (int, error) {
	w.ops = append(w.ops, zzWOp{payload: append([]byte(nil), p...)})
	return len(p), nil
}
func (w *zzWriter15) Flush() error { w.ops = append(w.ops, zzWOp{flush: true}); return nil }

// The real connection's raw-payload path: Write hands exactly the payload to the framing writer and
// flushes; BufferPayload hands it over without flushing; several of them keep their order; a closed
// connection takes nothing.
func VerifHarness_ConnectionWritesPayloadsInOrder() {
	zz.MaxLen(4)
	w := &zzWriter15{}
	c := &minecraftConn{}
	{
		mc, _ := newZZMinecraftConn(767, state.Play, &zzReader{}, &w.zzWriter, &zzHandler{})
		c = mc
		c.wr = w
	}
	var want [][]byte
	var buffered []bool
	n := 1 + zz.Choose(3)
	for i := 0; i < n; i++ {
		p := zz.Bytes(1 + zz.Choose(4))
		if zz.Bool() {
			zz.Assert(c.Write(p) == nil, "writing a payload to an open connection failed")
			buffered = append(buffered, false)
		} else {
			zz.Assert(c.BufferPayload(p) == nil, "buffering a payload on an open connection failed")
			buffered = append(buffered, true)
		}
		want = append(want, p)
	}
	k := 0
	for i, op := range w.ops {
		if op.flush {
			continue
		}
		zz.Assert(k < len(want) && bytes.Equal(op.payload, want[k]), "a payload reached the framing writer changed or out of order")
		if !buffered[k] {
			zz.Assert(i+1 < len(w.ops) && w.ops[i+1].flush, "Write did not flush after handing over the payload")
		}
		k++
	}
	zz.Assert(k == len(want), "a payload did not reach the framing writer")
	_ = c.Close()
	before := len(w.ops)
	zz.Assert(c.Write([]byte{1}) != nil && c.BufferPayload([]byte{1}) != nil, "a closed connection accepted a payload")
	for _, op := range w.ops[before:] {
		zz.Assert(op.flush, "a closed connection handed a payload to the writer")
	}
	zz.Reach("conn-writes")
}

var _ = proto.ClientBound

func logrDiscard() logr.Logger { return logr.Discard() }

// zzSlowConn is a peer that takes its time: every Write is a scheduling point; bytes are recorded.
type zzSlowConn struct {
	zzNetConn
	got []byte
}

func (c *zzSlowConn) Write(b []byte) (int, error) {
	zz.Yield()
	c.got = append(c.got, b...)
	zz.Yield()
	return len(b), nil
}

// Two goroutines use one connection's real writer (bufio + Encoder) at the same time, as the backend
// read loop relaying a payload and a proxy-originated write do: both payloads reach the peer as intact
// frames (in either order), no write fails, and the buffered writer is never touched by two goroutines
// at once.
func VerifHarness_ConcurrentRelayOnOneConnection() {
	zz.MaxPreempt(2)
	zz.MaxLen(3)
	zz.RaceMonitor()
	conn := &zzSlowConn{}
	w := NewWriter(conn, proto.ClientBound, 0, -1, logrDiscard())
	p1 := append([]byte{0x10}, zz.Bytes(1+zz.Choose(2))...)
	p2 := append([]byte{0x20}, zz.Bytes(1+zz.Choose(2))...)
	var e1, e2 error
	zz.Go(func() {
		if _, e1 = w.Write(p1); e1 == nil {
			e1 = w.Flush()
		}
	})
	zz.Go(func() {
		if _, e2 = w.Write(p2); e2 == nil {
			e2 = w.Flush()
		}
	})
	zz.WaitAll()
	zz.Assert(e1 == nil && e2 == nil, "a write or flush failed although the peer accepted every byte")
	// an independent reader of plain frames: VarInt length, payload
	var frames [][]byte
	b := conn.got
	for len(b) > 0 {
		n := int(b[0])
		zz.Assert(n < 0x80 && 1+n <= len(b), "the byte stream to the peer is not a sequence of whole frames")
		frames = append(frames, b[1:1+n])
		b = b[1+n:]
	}
	zz.Assert(len(frames) == 2, "the peer did not receive exactly the two payloads")
	ok12 := bytes.Equal(frames[0], p1) && bytes.Equal(frames[1], p2)
	ok21 := bytes.Equal(frames[0], p2) && bytes.Equal(frames[1], p1)
	zz.Assert(ok12 || ok21, "a payload reached the peer changed (frames of two writers interleaved)")
	zz.Reach("concurrent-relay")
}

// zzStreamConn is a connection whose peer has sent a fixed byte stream and then closed.
type zzStreamConn struct {
	zzNetConn
	rd *bytes.Reader
}

func (c *zzStreamConn) Read(p []byte) (int, error)      { return c.rd.Read(p) }
func (c *zzStreamConn) SetReadDeadline(time.Time) error { return nil }

// The real packet reader of a connection (netmc.reader over the real Decoder, no compression): every
// frame the peer sends during play - unknown ids, and a known pass-through type with or without bytes
// behind the fields its decoder reads - is handed to the session handler once, with the payload as it
// came in, in the order it came in. "Retry" results are followed as the read loop follows them.
func VerifHarness_ReaderDeliversEveryFrame() {
	zz.MaxLen(12)
	dir := proto.ClientBound
	if zz.Bool() {
		dir = proto.ServerBound
	}
	kaID, ok := state.FromDirection(dir, state.Play, 767).PacketID(&packet.KeepAlive{})
	zz.Assert(ok, "keep-alive is not registered")
	n := 1 + zz.Choose(3)
	var stream bytes.Buffer
	var sent [][]byte
	for i := 0; i < n; i++ {
		var payload []byte
		if zz.Bool() {
			payload = append([]byte{0x7e}, zz.Bytes(1+zz.Choose(2))...) // an id no version registers
		} else {
			payload = append([]byte{byte(kaID)}, zz.Bytes(8+zz.Choose(3))...) // keep-alive, 0..2 bytes behind its long
		}
		stream.WriteByte(byte(len(payload)))
		stream.Write(payload)
		sent = append(sent, payload)
	}
	rd := NewReader(&zzStreamConn{rd: bytes.NewReader(stream.Bytes())}, dir, time.Second, logr.Discard())
	rd.SetState(state.Play)
	rd.SetProtocol(767)
	var got [][]byte
	for tries := 0; tries < 8; tries++ {
		ctx, err := rd.ReadPacket()
		if err == ErrReadPacketRetry {
			continue
		}
		if err != nil {
			break
		}
		zz.Assert(ctx != nil, "the reader returned neither a packet nor an error")
		got = append(got, append([]byte(nil), ctx.Payload...))
	}
	zz.Assert(len(got) == len(sent), "a frame the peer sent was not handed to the session handler (or one was handed over twice)")
	for i := range sent {
		zz.Assert(bytes.Equal(got[i], sent[i]), "a frame reached the session handler with another payload, or out of order")
	}
	zz.Reach("reader-frames")
}
