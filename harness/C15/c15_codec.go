package codec

import (
	"bytes"

	"github.com/go-logr/logr"
	"go.minekube.com/gate/pkg/edition/java/proto/packet"
	"go.minekube.com/gate/pkg/edition/java/proto/state"
	"go.minekube.com/gate/pkg/gate/proto"
	zz "go.minekube.com/gate/pkg/internal/zzverif"
)

// The relay path of one direction: frames arrive under the sender's compression setting, the real
// Decoder turns them into payloads, the payloads are written unchanged through a real Encoder under the
// receiver's (independent) compression setting, and the receiver's reader gets the same payloads in the
// same order.
func VerifHarness_RelayAcrossThresholds() {
	max := 3
	if zz.Thorough() {
		max = 5
	}
	zz.MaxLen(max + 8)
	zzInstallZlibModel()
	thr := func() int {
		if zz.Bool() {
			return -1 // compression off on this side
		}
		t := zz.Int()
		zz.Assume(t >= 0 && t <= 1<<20)
		return t
	}
	inThreshold, outThreshold := thr(), thr()
	n := 1 + zz.Choose(2)
	var payloads [][]byte
	for i := 0; i < n; i++ {
		payloads = append(payloads, zzPayload(max))
	}
	// the sender's frames
	var inWire bytes.Buffer
	sender := NewEncoder(&inWire, proto.ClientBound, logr.Discard())
	if inThreshold >= 0 {
		zz.Assert(sender.SetCompression(inThreshold, -1) == nil, "compression could not be enabled")
	}
	for _, p := range payloads {
		_, err := sender.Write(p)
		zz.Assert(err == nil, "the sender could not frame a payload")
	}
	// the proxy: decode each frame, write its payload to the other side
	dec := NewDecoder(bytes.NewReader(inWire.Bytes()), proto.ClientBound, logr.Discard())
	if inThreshold >= 0 {
		dec.SetCompressionThreshold(inThreshold)
	}
	var outWire bytes.Buffer
	enc := NewEncoder(&outWire, proto.ClientBound, logr.Discard())
	if outThreshold >= 0 {
		zz.Assert(enc.SetCompression(outThreshold, -1) == nil, "compression could not be enabled")
	}
	for range payloads {
		got, _, err := dec.readPayload()
		zz.Assert(err == nil, "the proxy rejected a well-formed frame")
		_, err = enc.Write(got)
		zz.Assert(err == nil, "the proxy could not re-frame a payload")
	}
	// the receiver
	rcv := NewDecoder(bytes.NewReader(outWire.Bytes()), proto.ClientBound, logr.Discard())
	if outThreshold >= 0 {
		rcv.SetCompressionThreshold(outThreshold)
	}
	for _, p := range payloads {
		got, _, err := rcv.readPayload()
		zz.Assert(err == nil, "the receiver cannot read a frame the proxy relayed")
		zz.Assert(bytes.Equal(got, p), "a relayed payload is not byte-identical to the payload sent (or arrived out of order)")
	}
	_, _, err := rcv.readPayload()
	zz.Assert(err != nil, "the receiver got a payload that was never sent")
	zz.Reach("relayed")
}

// Payload sizes at the boundaries of the VarInt that announces the uncompressed size (127/128 and
// 16383/16384), relayed with compression on or off on the outgoing side: the frame length the proxy
// writes matches the frame, so the receiver reads exactly the payload and nothing of the next frame.
func VerifHarness_RelayBoundarySizes() {
	zzInstallZlibModel()
	sizes := []int{126, 127, 128, 129, 16382, 16383, 16384, 16385}
	n := sizes[zz.Choose(len(sizes))]
	payload := make([]byte, n)
	payload[0], payload[n/2], payload[n-1] = zz.Byte(), zz.Byte(), zz.Byte()
	threshold := []int{-1, 0, 64, 20000}[zz.Choose(4)]
	var wire bytes.Buffer
	enc := NewEncoder(&wire, proto.ClientBound, logr.Discard())
	if threshold >= 0 {
		zz.Assert(enc.SetCompression(threshold, -1) == nil, "compression could not be enabled")
	}
	marker := []byte{0x7e, 0x01}
	_, err := enc.Write(payload)
	zz.Assert(err == nil, "the proxy could not frame a relayed payload")
	_, err = enc.Write(marker)
	zz.Assert(err == nil, "the proxy could not frame the next payload")
	rcv := NewDecoder(bytes.NewReader(wire.Bytes()), proto.ClientBound, logr.Discard())
	if threshold >= 0 {
		rcv.SetCompressionThreshold(threshold)
	}
	got, _, err := rcv.readPayload()
	zz.Assert(err == nil, "the receiver cannot read a relayed frame of a boundary size")
	zz.Assert(len(got) == n && got[0] == payload[0] && got[n/2] == payload[n/2] && got[n-1] == payload[n-1], "a relayed payload of a boundary size is not byte-identical")
	next, _, err := rcv.readPayload()
	zz.Assert(err == nil && bytes.Equal(next, marker), "the frame after a boundary-size payload is corrupted (the announced frame length was wrong)")
	zz.Reach("boundary")
}

// A known packet type that carries more bytes than the proxy's decoder for that version reads (a newer
// backend, a modded client): the decoder reports the packet, and the payload it hands on for relaying is
// still the whole payload, not the part it understood.
func VerifHarness_KnownPacketWithTrailingBytesKeepsPayload() {
	zz.MaxLen(12)
	d := NewDecoder(bytes.NewReader(nil), proto.ClientBound, logr.Discard())
	d.SetState(state.Play)
	d.SetProtocol(767)
	id, ok := state.FromDirection(proto.ClientBound, state.Play, 767).PacketID(&packet.KeepAlive{})
	zz.Assert(ok, "keep-alive is not registered")
	extra := zz.Bytes(zz.Choose(4))
	payload := append([]byte{byte(id)}, zz.Bytes(8)...)
	payload = append(payload, extra...)
	whole := append([]byte(nil), payload...)
	ctx, err := d.decodePayload(payload)
	zz.Assert(ctx != nil, "a known packet with trailing bytes produced no packet context")
	zz.Assert(bytes.Equal(ctx.Payload, whole), "the payload handed on for relaying is not the payload that came in (trailing bytes the decoder did not read were cut off)")
	if len(extra) > 0 {
		zz.Assert(err != nil, "bytes the packet decoder left unread were not reported")
		zz.Reach("trailing")
	}
}
