package codec

import (
	"bytes"

	"github.com/go-logr/logr"
	"go.minekube.com/gate/pkg/gate/proto"
	zz "go.minekube.com/gate/pkg/internal/zzverif"
)

// The relay path of one direction: frames arrive under the sender's compression setting, the real
// Decoder turns them into payloads, the payloads are written unchanged through a real Encoder under the
// receiver's (independent) compression setting, and the receiver's reader gets the same payloads in the
// same order.
func VerifHarness_RelayAcrossThresholds() {
	max := 3
	if zz.Thorough() {
		max = 5
	}
	zz.MaxLen(max + 8)
	zzInstallZlibModel()
	thr := func() int {
		if zz.Bool() {
			return -1 // compression off on this side
		}
		t := zz.Int()
		zz.Assume(t >= 0 && t <= 1<<20)
		return t
	}
	inThreshold, outThreshold := thr(), thr()
	n := 1 + zz.Choose(2)
	var payloads [][]byte
	for i := 0; i < n; i++ {
		payloads = append(payloads, zzPayload(max))
	}
	// the sender's frames
	var inWire bytes.Buffer
	sender := NewEncoder(&inWire, proto.ClientBound, logr.Discard())
	if inThreshold >= 0 {
		zz.Assert(sender.SetCompression(inThreshold, -1) == nil, "compression could not be enabled")
	}
	for _, p := range payloads {
		_, err := sender.Write(p)
		zz.Assert(err == nil, "the sender could not frame a payload")
	}
	// the proxy: decode each frame, write its payload to the other side
	dec := NewDecoder(bytes.NewReader(inWire.Bytes()), proto.ClientBound, logr.Discard())
	if inThreshold >= 0 {
		dec.SetCompressionThreshold(inThreshold)
	}
	var outWire bytes.Buffer
	enc := NewEncoder(&outWire, proto.ClientBound, logr.Discard())
	if outThreshold >= 0 {
		zz.Assert(enc.SetCompression(outThreshold, -1) == nil, "compression could not be enabled")
	}
	for range payloads {
		got, _, err := dec.readPayload()
		zz.Assert(err == nil, "the proxy rejected a well-formed frame")
		_, err = enc.Write(got)
		zz.Assert(err == nil, "the proxy could not re-frame a payload")
	}
	// the receiver
	rcv := NewDecoder(bytes.NewReader(outWire.Bytes()), proto.ClientBound, logr.Discard())
	if outThreshold >= 0 {
		rcv.SetCompressionThreshold(outThreshold)
	}
	for _, p := range payloads {
		got, _, err := rcv.readPayload()
		zz.Assert(err == nil, "the receiver cannot read a frame the proxy relayed")
		zz.Assert(bytes.Equal(got, p), "a relayed payload is not byte-identical to the payload sent (or arrived out of order)")
	}
	_, _, err := rcv.readPayload()
	zz.Assert(err != nil, "the receiver got a payload that was never sent")
	zz.Reach("relayed")
}
