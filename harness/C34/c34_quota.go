package addrquota

import (
	"net"

	"golang.org/x/time/rate"

	zz "go.minekube.com/gate/pkg/internal/zzverif"
)

// IPv4 (plain and IPv4-mapped IPv6 text) is bucketed by /24: the key is the address with the last
// byte cleared, and two addresses share a key iff their first three bytes agree.
func VerifHarness_IPKeyV4() {
	a, b, c, d := zz.Byte(), zz.Byte(), zz.Byte(), zz.Byte()
	text := net.IPv4(a, b, c, d).String()
	if zz.Bool() {
		text = "::ffff:" + text
		zz.Reach("v4-mapped")
	}
	key := ipKey(text)
	want := net.IPv4(a, b, c, 0).String()
	zz.Assert(key == want, "IPv4 address is not bucketed by its /24 prefix")
	zz.Reach("v4")
}

// IPv6 is bucketed by /64: the key is the address with the low 64 bits cleared.
func VerifHarness_IPKeyV6() {
	ip := make(net.IP, 16)
	ip[0], ip[1] = 0x20, 0x01
	ip[6], ip[7] = zz.Byte(), zz.Byte()   // inside the /64
	ip[8], ip[15] = zz.Byte(), zz.Byte() // outside
	text := ip.String()
	key := ipKey(text)
	want := make(net.IP, 16)
	copy(want, ip[:8])
	zz.Assert(key == want.String(), "IPv6 address is not bucketed by its /64 prefix")
	zz.Reach("v6")
}

func VerifHarness_IPKeyGarbage() {
	zz.MaxLen(3)
	n := zz.Int()
	zz.Assume(n >= 0)
	zz.Assume(n <= 3)
	s := zz.String(n)
	key := ipKey(s)
	// no string of <= 3 bytes is an IP address except "::" and "::N"-like forms; those must parse as v6
	if key != "" {
		zz.Assert(net.ParseIP(s) != nil, "a non-address produced a quota key")
		zz.Reach("short-v6")
	} else {
		zz.Reach("rejected")
	}
}

// Blocked consults exactly one limiter per call and two addresses share a limiter iff they are in
// the same /24 (the token bucket itself, golang.org/x/time/rate, is third party and stubbed).
func VerifHarness_QuotaBuckets() {
	var used []*rate.Limiter
	zz.Replace("(*golang.org/x/time/rate.Limiter).Allow", func(l *rate.Limiter) bool {
		used = append(used, l)
		return true
	})
	q := NewQuota(1, 2, 8)
	a, b, c, d, e := zz.Byte(), zz.Byte(), zz.Byte(), zz.Byte(), zz.Byte()
	c2 := zz.Byte()
	ip1 := net.IPv4(a, b, c, d).String()
	ip2 := net.IPv4(a, b, c2, e).String()
	zz.Assert(!q.Blocked(ip1), "an allowed event was reported as blocked")
	zz.Assert(!q.Blocked(ip2), "an allowed event was reported as blocked")
	zz.Assert(len(used) == 2, "Blocked did not consult exactly one limiter per call")
	if c == c2 {
		zz.Assert(used[0] == used[1], "two addresses of one /24 got different buckets")
		zz.Reach("same-bucket")
	} else {
		zz.Assert(used[0] != used[1], "addresses of different /24s share a bucket")
		zz.Reach("different-bucket")
	}
	zz.Assert(!q.Blocked("not-an-ip"), "a non-address was blocked")
	zz.Assert(len(used) == 2, "a non-address consumed a limiter")
}

func VerifMutant_IPKey() {
	a, b, c, d := zz.Byte(), zz.Byte(), zz.Byte(), zz.Byte()
	key := ipKey(net.IPv4(a, b, c, d).String())
	// control: bucketing by /16 must be told apart
	zz.Assert(key == net.IPv4(a, b, 0, 0).String(), "control")
}
