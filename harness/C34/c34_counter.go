package packetlimiter

import (
	"time"

	zz "go.minekube.com/gate/pkg/internal/zzverif"
)

// One inductive step of the sliding-window counter from an arbitrary state that satisfies the
// representation invariant, for every (head, live count) of a ring of 8 or 16 slots:
//   live slots hold non-decreasing times within [minTime, lastNow], dead slots hold count 0,
//   total = sum of live counts.
// After updateAndAdd(count, now) with now >= lastNow the invariant holds again and sum() equals the
// straightforward sliding-window count of the events whose time is >= now-interval.
func VerifHarness_CounterStep() {
	zz.Unwind(40)
	size := 8
	if zz.Thorough() && zz.Choose(2) == 1 {
		size = 16
	}
	head := zz.Choose(size) // every head position: no wrap, wrap in the middle, wrap at the end
	n := zz.Choose(size) // live entries: 0..size-1 (a ring never fills completely)
	// value ranges (stated bound): quick 2^16 / 2^20, thorough 2^40 / 2^60
	ib, tb, cb := int64(1<<16), int64(1<<20), int64(1<<12)
	if zz.Thorough() {
		ib, tb, cb = 1<<40, 1<<60, 1<<40
	}
	interval := zz.Int64()
	zz.Assume(interval > 0)
	zz.Assume(interval < ib)
	lastNow := zz.Int64()
	zz.Assume(lastNow >= 0)
	zz.Assume(lastNow < tb)
	c := &counter{interval: interval, times: make([]int64, size), counts: make([]int64, size), head: head, tail: (head + n) % size}
	c.minTime = lastNow - interval
	ts := make([]int64, n)
	cs := make([]int64, n)
	prev := c.minTime
	var total int64
	for i := 0; i < size; i++ {
		c.times[i] = zz.Int64() // dead slots keep stale times
	}
	for k := 0; k < n; k++ {
		t, cnt := zz.Int64(), zz.Int64()
		zz.Assume(t >= prev)
		zz.Assume(t <= lastNow)
		zz.Assume(cnt >= 0)
		zz.Assume(cnt < cb)
		prev = t
		ts[k], cs[k] = t, cnt
		c.times[(head+k)%size] = t
		c.counts[(head+k)%size] = cnt
		total += cnt
	}
	c.total = total

	now, count := zz.Int64(), zz.Int64()
	zz.Assume(now >= lastNow)
	zz.Assume(now < 2*tb)
	zz.Assume(count >= 0)
	zz.Assume(count < cb)

	c.updateAndAdd(count, now)

	// reference: plain sliding window over the same events. The window test forks (zz.Split) instead
	// of being folded into an ite: on each path the reference sum is then a plain chain of additions
	// that the solver normalises, where the ite form needed the bit-blaster to re-derive "times are
	// ordered, so everything after the first kept event is kept" inside a 64-bit sum equality
	// (10 s to >70 s per query, some undecided). The fork adds no paths: exactly one side is feasible.
	want := count
	kept := 0
	for k := 0; k < n; k++ {
		tk, ck := ts[k], cs[k]
		// same-window test in subtraction form; VerifHarness_WindowCompare shows it equals tk >= now-interval
		if tk-(now-interval) >= 0 {
			zz.Split()
			want += ck
			kept++
		}
	}
	zz.Assert(c.sum() == want, "window sum differs from a straightforward sliding-window count")

	// invariant afterwards
	sz := len(c.times)
	zz.Assert(sz == len(c.counts) && (sz == size || sz == 2*size), "ring arrays have inconsistent sizes")
	live := c.tail - c.head
	if live < 0 {
		live += sz
	}
	zz.Assert(live == kept+1, "number of live entries differs from the number of events in the window")
	zz.Assert(c.minTime == now-interval, "minTime not updated")
	// one assertion per live slot / dead slot rather than one conjunction over the ring: the same
	// statement, but each query is a single comparison (mostly already an atom of the path condition)
	var sum int64
	prevT := c.minTime
	for k := 0; k < live; k++ {
		i := (c.head + k) % sz
		ti, ci := c.times[i], c.counts[i]
		zz.Assert(ti >= prevT, "live times are not ordered within the window")
		zz.Assert(ti <= now, "a live time lies after now")
		prevT = ti
		sum += ci
	}
	zz.Assert(sum == c.total, "total is not the sum of the live counts")
	for k := live; k < sz; k++ {
		ck := c.counts[(c.head+k)%sz]
		zz.Assert(ck == 0, "a dead slot kept a count")
	}
	if sz != size {
		zz.Reach("resized")
	}
	if kept < n {
		zz.Reach("expired-some")
	}
	zz.Reach("step")
}

// Within the ranges used by the step harness the subtraction form of the window test is the
// straightforward comparison (no wrap-around).
func VerifHarness_WindowCompare() {
	t, now, interval := zz.Int64(), zz.Int64(), zz.Int64()
	zz.Assume(interval > 0)
	zz.Assume(interval < 1<<40)
	zz.Assume(now >= 0)
	zz.Assume(now < 1<<61)
	zz.Assume(t >= -(1 << 41))
	zz.Assume(t <= now)
	a := t-(now-interval) >= 0
	b := t >= now-interval
	zz.Assert(a == b, "subtraction-form window test differs from the plain comparison")
	zz.Reach("compare")
}

// Base case: a fresh counter satisfies the invariant and counts the first event.
func VerifHarness_CounterBase() {
	w := zz.Int64()
	zz.Assume(w > 0 && w < 1<<40)
	c := newCounter(time.Duration(w))
	zz.Assert(len(c.times) == 8 && len(c.counts) == 8 && c.head == 0 && c.tail == 0 && c.total == 0 && c.minTime == 0, "fresh counter is not empty")
	now, count := zz.Int64(), zz.Int64()
	zz.Assume(now >= 0 && now < 1<<61 && count >= 0 && count < 1<<40)
	c.updateAndAdd(count, now)
	zz.Assert(c.sum() == count, "first event not counted")
	zz.Reach("base")
}

// Limiter.Account: verdict false exactly when the packets (or bytes) in the trailing window exceed
// rate x window. The clock is an arbitrary non-decreasing sequence.
func VerifHarness_LimiterAccount() {
	zz.Unwind(40)
	steps := 3
	if zz.Thorough() {
		steps = 4
	}
	var last int64
	clock := func(time.Time) int64 {
		t := zz.Int64()
		zz.Assume(t >= last)
		zz.Assume(t < 1<<40)
		last = t
		return t
	}
	zz.Replace("(time.Time).UnixNano", clock)
	// whole and fractional windows: the limit is rate x window, not rate x whole seconds
	window := 2 * time.Second
	switch zz.Choose(3) {
	case 1:
		window = 1500 * time.Millisecond
	case 2:
		window = 2500 * time.Millisecond
	}
	pps := 1 // 1 packet per second => at most 2 packets per 2 s window (1 per 1.5 s, 2 per 2.5 s)
	bps := 0
	byBytes := zz.Bool()
	if byBytes {
		pps = 100
		bps = 8 // at most 16 bytes per window
	}
	l := New(pps, bps, window)
	var times []int64
	var sizes []int64
	open := true
	for i := 0; i < steps && open; i++ {
		sz := 5 + 3*zz.Choose(2) // 5 or 8 bytes
		ok := l.Account(sz)
		times = append(times, last)
		sizes = append(sizes, int64(sz))
		var packets, bytesIn int64
		lo := last - int64(window)
		for j := range times {
			tj, sj := times[j], sizes[j]
			if tj >= lo {
				packets++
				bytesIn += sj
			}
		}
		// exact integer form of count/window_seconds > rate
		exceeded := packets*int64(time.Second) > int64(pps)*int64(window)
		bx := bytesIn*int64(time.Second) > int64(bps)*int64(window)
		if byBytes {
			exceeded = exceeded || bx
		}
		zz.Assert(ok == !exceeded, "limiter verdict differs from the sliding-window reference")
		if !ok {
			zz.Reach("limit-exceeded")
			open = false
		}
	}
	zz.Reach("account")
}

func VerifMutant_CounterStep() {
	// control: an off-by-one window (strictly greater) must be distinguishable
	interval := int64(10)
	c := newCounter(time.Duration(interval))
	t0 := zz.Int64()
	zz.Assume(t0 >= 0 && t0 < 1000)
	c.updateAndAdd(1, t0)
	now := zz.Int64()
	zz.Assume(now >= t0 && now < 2000)
	c.updateAndAdd(1, now)
	want := int64(1)
	if t0 > now-interval { // wrong: should be >=
		want++
	}
	zz.Assert(c.sum() == want, "control")
}
