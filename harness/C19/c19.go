package proxy

import (
	"strings"

	"go.minekube.com/gate/pkg/edition/java/config"
	"go.minekube.com/gate/pkg/edition/java/profile"
	"go.minekube.com/gate/pkg/edition/java/proto/state"
	"go.minekube.com/gate/pkg/edition/java/proxy/phase"
	zz "go.minekube.com/gate/pkg/internal/zzverif"
	"go.minekube.com/gate/pkg/util/netutil"
	"go.minekube.com/gate/pkg/util/uuid"
)

func zzFirstPart(s string) string {
	for i := 0; i < len(s); i++ {
		if s[i] == 0 {
			return s[:i]
		}
	}
	return s
}

func zzSplitNUL(s string) []string {
	var parts []string
	start := 0
	for i := 0; i < len(s); i++ {
		if s[i] == 0 {
			parts = append(parts, s[start:i])
			start = i + 1
		}
	}
	return append(parts, s[start:])
}

type zzBackendAddresser struct{ mode int }

func (a zzBackendAddresser) BackendHandshakeAddr(def string, player Player, target RegisteredServer) (string, error) {
	if a.mode == 1 {
		return def + "\x00extra", nil // an integration that appends its own NUL-separated data
	}
	return def, nil
}

type zzC19 struct {
	sc      *serverConnection
	pl      *connectedPlayer
	cfg     *config.Config
	marshal [][]profile.Property
}

func zzC19World(vhost string, connType phase.ConnectionType, mode config.ForwardingMode, hook int) *zzC19 {
	cfg := config.DefaultConfig
	cfg.Forwarding.Mode = mode
	cfg.Forwarding.BungeeGuardSecret = "s3cr3t"
	w := &zzC19{cfg: &cfg}
	p := zzProxy(&cfg, &zzEvents{})
	if hook > 0 {
		p.backendHandshakeAddresser = zzBackendAddresser{mode: hook - 1}
	}
	conn := newZZConn(767, state.Play)
	conn.connType = connType
	var id uuid.UUID
	id[0], id[15] = 0xab, 0x01
	w.pl = &connectedPlayer{
		MinecraftConn:      conn,
		sessionHandlerDeps: &sessionHandlerDeps{proxy: p, registrar: p, configProvider: &zzConfigProvider{cfg: &cfg}},
		virtualHost:        netutil.NewAddr(vhost, "tcp"),
		profile:            &profile.GameProfile{ID: id, Name: "n", Properties: []profile.Property{{Name: "textures", Value: "v", Signature: "s"}}},
	}
	srv := newRegisteredServer(NewServerInfo("lobby", netutil.NewAddr("backend.host:25570", "tcp")))
	w.sc = &serverConnection{server: srv, player: w.pl}
	zz.Replace("encoding/json.Marshal", func(v any) ([]byte, error) {
		if props, ok := v.([]profile.Property); ok {
			w.marshal = append(w.marshal, append([]profile.Property{}, props...))
		}
		return []byte("[JSON]"), nil
	})
	return w
}

// address mirrors the first lines of serverConnection.startHandshake: the player's virtual host
// without its port, or the backend's host when the client sent none, goes through handshakeAddr.
func (w *zzC19) address() (string, string, error) {
	playerVHost := netutil.Host(w.pl.virtualHost)
	if playerVHost == "" {
		playerVHost = netutil.Host(w.sc.server.ServerInfo().Addr())
	}
	got, err := w.sc.handshakeAddr(playerVHost, w.pl)
	return got, playerVHost, err
}

func zzConnType() phase.ConnectionType {
	switch zz.Choose(3) {
	case 1:
		return phase.LegacyForge
	case 2:
		return phase.ModernForge
	}
	return phase.Vanilla
}

// Without legacy/BungeeGuard forwarding: for every virtual host text, client type and address hook the
// first NUL-separated part of the address sent to the backend is the first NUL-separated part of the
// player's virtual host.
func VerifHarness_HostStaysFirst() {
	max := 4
	if zz.Thorough() {
		max = 5
	}
	zz.MaxLen(max)
	zz.Unwind(300)
	raw := zz.String(zz.Choose(max + 1))
	for i := 0; i < len(raw); i++ {
		c := raw[i]
		zz.Assume(c == 'a' || c == 'B' || c == '.' || c == 0 || c == 'F' || c == '2')
	}
	mode := config.NoneForwardingMode
	if zz.Bool() {
		mode = config.VelocityForwardingMode
	}
	w := zzC19World(raw, zzConnType(), mode, zz.Choose(3))
	got, playerVHost, err := w.address()
	zz.Assert(err == nil, "building the backend address failed")
	zz.Assert(zzFirstPart(got) == zzFirstPart(playerVHost), "the first NUL-separated part of the address sent to the backend is not the player's virtual host")
	switch w.pl.Type() {
	case phase.LegacyForge:
		zz.Assert(strings.HasSuffix(got, "\x00FML\x00"), "a legacy Forge client's address lost its FML marker")
		zz.Reach("legacy-forge")
	case phase.ModernForge:
		parts := zzSplitNUL(got)
		zz.Assert(len(parts) >= 2, "a modern Forge client's address carries no Forge token after the host")
		tokens := 0
		for _, pt := range parts[1:] {
			if strings.HasPrefix(pt, "FML2") || strings.HasPrefix(pt, "FML3") || strings.HasPrefix(pt, "FORGE") {
				tokens++
			}
		}
		zz.Assert(tokens >= 1, "a modern Forge client's address carries no Forge token after the host")
		zz.Reach("modern-forge")
	default:
		zz.Reach("vanilla")
	}
}

// With legacy or BungeeGuard forwarding the address is exactly backend address, player IP, undashed
// UUID and the JSON property list, separated by NULs; the list handed to the JSON encoder is the
// player's properties (plus the Forge extraData marker for Forge clients) plus, for BungeeGuard, the
// token property.
func VerifHarness_ForwardingAddress() {
	zz.MaxLen(3)
	raw := "play.example" + zz.String(zz.Choose(3))
	for i := 12; i < len(raw); i++ {
		c := raw[i]
		zz.Assume(c == 'a' || c == 0 || c == ':' || c == '1')
	}
	guard := zz.Bool()
	mode := config.LegacyForwardingMode
	if guard {
		mode = config.BungeeGuardForwardingMode
	}
	ct := zzConnType()
	w := zzC19World(raw, ct, mode, zz.Choose(3))
	own := 1
	if zz.Bool() {
		// a profile that already carries a property of that name (from an upstream hop or a plugin)
		w.pl.profile.Properties = append(w.pl.profile.Properties, profile.Property{Name: "bungeeguard-token", Value: "old"})
		own = 2
	}
	got, _, err := w.address()
	zz.Assert(err == nil, "building the forwarding address failed")
	parts := zzSplitNUL(got)
	zz.Assert(len(parts) == 4, "the forwarding address does not consist of exactly four NUL-separated parts")
	zz.Assert(parts[0] == "backend.host:25570", "the first part of the forwarding address is not the backend address")
	zz.Assert(parts[1] == "1.2.3.4", "the second part of the forwarding address is not the player's IP")
	zz.Assert(parts[2] == "ab000000000000000000000000000001", "the third part of the forwarding address is not the undashed UUID")
	zz.Assert(parts[3] == "[JSON]", "the fourth part of the forwarding address is not the JSON property list")
	zz.Assert(len(w.marshal) == 1, "the property list was not encoded exactly once")
	props := w.marshal[0]
	zz.Assert(len(props) >= 1 && props[0].Name == "textures" && props[0].Value == "v" && props[0].Signature == "s", "the player's own properties are not forwarded first and unchanged")
	hasToken := false
	for _, p := range props {
		if p.Name == "bungeeguard-token" && p.Value == "s3cr3t" {
			hasToken = true
		}
	}
	zz.Assert(hasToken == guard, "the BungeeGuard token property with the configured secret is missing, or present without BungeeGuard forwarding")
	if guard {
		last := props[len(props)-1]
		zz.Assert(last.Name == "bungeeguard-token" && last.Value == "s3cr3t", "the configured BungeeGuard token is not appended to the property list")
	}
	zz.Assert(len(w.pl.profile.Properties) == own, "building the address modified the player's profile")
	if guard {
		zz.Reach("bungeeguard")
	} else {
		zz.Reach("legacy")
	}
}

func VerifMutant_HandshakeAddr() {
	w := zzC19World("play.example", phase.ModernForge, config.NoneForwardingMode, 0)
	got, _, _ := w.address()
	zz.Assert(zzFirstPart(got) == "", "control: the host must stay in front of the Forge token")
}
