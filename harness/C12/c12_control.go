package proxy

// zzUnlockedIteration is deliberately broken code for the negative control. It lives in a file whose
// name does not mark it as harness code, so the lockset monitor treats it like code under test.
func zzUnlockedIteration(p *Proxy) int {
	n := 0
	for range p.playerIDs {
		n++
	}
	return n
}
