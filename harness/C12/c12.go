package proxy

import (
	"context"

	"go.minekube.com/common/minecraft/component"
	"go.minekube.com/gate/pkg/edition/java/config"
	"go.minekube.com/gate/pkg/edition/java/profile"
	"go.minekube.com/gate/pkg/edition/java/proto/state"
	zz "go.minekube.com/gate/pkg/internal/zzverif"
	"go.minekube.com/gate/pkg/util/uuid"
)

type zzListWorld struct {
	p   *Proxy
	cfg *config.Config
	ev  *zzEvents
	srv *registeredServer
	pls []*connectedPlayer
}

func (w *zzListWorld) player(n byte) *connectedPlayer {
	conn := newZZConn(767, state.Play)
	conn.ctx, conn.cancel = context.WithCancel(context.Background())
	var id uuid.UUID
	id[0] = n
	pl := &connectedPlayer{
		MinecraftConn:      conn,
		sessionHandlerDeps: &sessionHandlerDeps{proxy: w.p, registrar: w.p, eventMgr: w.ev, configProvider: &zzConfigProvider{cfg: w.cfg}},
		profile:            &profile.GameProfile{ID: id, Name: string([]byte{'a' + n})},
	}
	conn.onClose = pl.teardown
	return pl
}

// newZZListWorld: a proxy with n registered players (all on one registered server) and the
// lock discipline declared by the struct comments ("Protects following fields").
func newZZListWorld(n int) *zzListWorld {
	cfg := config.DefaultConfig
	w := &zzListWorld{cfg: &cfg, ev: &zzEvents{}}
	w.p = zzProxy(&cfg, w.ev)
	zz.ReplaceSym("(*go.minekube.com/gate/pkg/edition/java/proxy.connectedPlayer).Disconnect", func(p *connectedPlayer, reason component.Component) {
		if p.Active() {
			_ = p.MinecraftConn.Close()
		}
	})
	w.srv = newRegisteredServer(NewServerInfo("s", nil))
	w.p.servers["s"] = w.srv
	for i := 0; i < n; i++ {
		pl := w.player(byte(i + 1))
		w.p.playerIDs[pl.profile.ID] = pl
		w.p.playerNames[pl.profile.Name] = pl
		w.srv.players.list[pl.profile.ID] = pl
		w.pls = append(w.pls, pl)
	}
	zz.Guard(&w.p.playerIDs, &w.p.muP)
	zz.Guard(&w.p.playerNames, &w.p.muP)
	zz.Guard(&w.p.servers, &w.p.muS)
	zz.Guard(&w.srv.players.list, &w.srv.players.mu)
	return w
}

// Every listing/counting API, on every path, touches the registries only while holding the lock that
// guards them - including every step of a map iteration. An iteration that continues after the lock
// was released reads the live map while joins and leaves write it: a data race, Go's fatal
// "concurrent map iteration and map write", and a list that mixes entries from different moments.
func VerifHarness_ListingHoldsLocks() {
	w := newZZListWorld(zz.Choose(3))
	p := w.p
	switch zz.Choose(10) {
	case 9:
		// kick-existing mode: a second login of an online player's UUID kicks the older session
		if len(w.pls) > 0 {
			w.cfg.OnlineMode = true
			w.cfg.OnlineModeKickExistingPlayers = true
			q := w.player(9)
			q.profile.ID = w.pls[0].profile.ID
			zz.Assert(p.registerConnection(q), "kick mode refused a login")
			zz.Reach("kick-duplicate-login")
		}
	case 0:
		got := p.Players()
		zz.Assert(len(got) == len(w.pls), "Players() does not list the registered players")
		zz.Reach("players")
	case 1:
		zz.Assert(p.PlayerCount() == len(w.pls), "PlayerCount() differs from the registered players")
		zz.Reach("count")
	case 2:
		p.DisconnectAll(nil)
		for _, pl := range w.pls {
			zz.Assert(!pl.Active(), "DisconnectAll left a player connected")
		}
		zz.Reach("disconnect-all")
	case 3:
		zz.Assert(len(p.Servers()) == 1, "Servers() does not list the registered server")
		zz.Reach("servers")
	case 4:
		n := 0
		w.srv.players.Range(func(Player) bool { n++; return true })
		zz.Assert(n == len(w.pls), "a server's player list does not list its players")
		zz.Reach("server-players")
	case 5:
		zz.Assert(w.srv.players.Len() == len(w.pls), "a server's player count is wrong")
		zz.Reach("server-player-count")
	case 6:
		q := w.player(9)
		zz.Assert(p.registerConnection(q), "registration refused")
		w.srv.players.add(q)
		zz.Reach("join")
	case 7:
		if len(w.pls) > 0 {
			w.srv.players.remove(w.pls[0])
			w.pls[0].teardown()
			zz.Reach("leave")
		}
	case 8:
		got := PlayersToSlice[Player](w.srv.players)
		zz.Assert(len(got) == len(w.pls), "PlayersToSlice does not list the server's players")
		zz.Reach("players-to-slice")
	}
}

// DisconnectAll while another player logs in or leaves: it returns (no goroutine is waited for that was
// never started, none is started that is not waited for), it does not crash, and everybody who was
// online throughout is disconnected.
func VerifHarness_DisconnectAllDuringJoinLeave() {
	zz.MaxPreempt(2)
	w := newZZListWorld(1 + zz.Choose(2))
	p := w.p
	join := zz.Bool()
	zz.Go(func() { p.DisconnectAll(nil) })
	zz.Go(func() {
		if join {
			q := w.player(9)
			_ = p.registerConnection(q)
		} else {
			w.pls[0].teardown()
		}
	})
	zz.WaitAll()
	for i, pl := range w.pls {
		if join || i > 0 {
			zz.Assert(!pl.Active(), "DisconnectAll left a player connected who was online all the time")
		}
	}
	zz.Reach("disconnect-all-concurrent")
}

// A lister racing with a join and a leave (every interleaving at lock operations, <=2 preemptions):
// the lockset monitor reports any registry access outside its lock, and the returned list is one
// consistent moment: it contains every player that stayed online throughout and nobody twice.
func VerifHarness_ListingDuringJoinLeave() {
	zz.MaxPreempt(2)
	zz.RaceMonitor()
	w := newZZListWorld(2)
	p := w.p
	stay, leaver := w.pls[0], w.pls[1]
	joiner := w.player(9)
	var listed []Player
	var onServer []Player
	count := -1
	which := zz.Choose(3)
	zz.Go(func() {
		switch which {
		case 0:
			listed = p.Players()
		case 1:
			count = p.PlayerCount()
		case 2:
			w.srv.players.Range(func(pl Player) bool { onServer = append(onServer, pl); return true })
		}
	})
	zz.Go(func() {
		_ = p.registerConnection(joiner)
		w.srv.players.add(joiner)
		w.srv.players.remove(leaver)
		leaver.teardown()
	})
	zz.WaitAll()
	check := func(l []Player) {
		seenStay := 0
		for _, x := range l {
			if x.(*connectedPlayer) == stay {
				seenStay++
			}
		}
		zz.Assert(seenStay == 1, "a player that was online the whole time is missing from (or twice in) the list")
		zz.Assert(len(l) >= 1 && len(l) <= 3, "the list has an impossible size")
	}
	switch which {
	case 0:
		check(listed)
		zz.Reach("listed-during")
	case 1:
		zz.Assert(count >= 1 && count <= 3, "impossible player count")
		zz.Reach("counted-during")
	case 2:
		check(onServer)
		zz.Reach("ranged-during")
	}
}

// Two listers at once (and nothing else): listing must not write shared state except under an
// exclusive lock. The lockset monitor covers every heap cell the listing code touches, not only the
// declared registries, so a shared scratch buffer filled under a read lock is reported.
func VerifHarness_TwoListers() {
	zz.MaxPreempt(2)
	zz.RaceMonitor()
	w := newZZListWorld(2)
	p := w.p
	var a, b []Player
	na, nb := 0, 0
	which := zz.Choose(4)
	list := func(out *[]Player, n *int) {
		switch which {
		case 0:
			w.srv.players.Range(func(pl Player) bool { *out = append(*out, pl); return true })
		case 1:
			*out = p.Players()
		case 2:
			*out = PlayersToSlice[Player](w.srv.players)
		case 3:
			*n = p.PlayerCount() + w.srv.players.Len() + len(p.Servers())
			*out = p.Players()
		}
	}
	zz.Go(func() { list(&a, &na) })
	zz.Go(func() { list(&b, &nb) })
	zz.WaitAll()
	for _, l := range [][]Player{a, b} {
		zz.Assert(len(l) == 2 && l[0] != l[1], "a list taken while nothing changed does not contain each player exactly once")
	}
	zz.Reach("two-listers")
}

func VerifMutant_Listing() {
	w := newZZListWorld(1)
	// control: an iteration of the registry without its lock must be reported by the monitor
	zzUnlockedIteration(w.p)
}
