package floodgate

import (
	"hash"

	zz "go.minekube.com/gate/pkg/internal/zzverif"
)

type zzSHA struct {
	in  []byte
	out []byte
}

func (h *zzSHA) Write(p []byte) (int, error) { h.in = append(h.in, p...); return len(p), nil }
func (h *zzSHA) Sum(b []byte) []byte         { return append(b, h.out...) }
func (h *zzSHA) Reset()                      { h.in = nil }
func (h *zzSHA) Size() int                   { return 20 }
func (h *zzSHA) BlockSize() int              { return 64 }

// reference decimal rendering, written without strconv
func zzDecimal(v int64) string {
	if v == 0 {
		return "0"
	}
	neg := v < 0
	u := uint64(v)
	if neg {
		u = uint64(-v)
	}
	var buf [20]byte
	i := len(buf)
	for u > 0 {
		i--
		buf[i] = byte('0' + u%10)
		u /= 10
	}
	if neg {
		i--
		buf[i] = '-'
	}
	return string(buf[i:])
}

// zzXuidBase picks the neighbourhood the XUID lies in: around zero and around 10^18 (19 characters,
// where a fixed-size buffer would first truncate). In the thorough tier also the real 16-digit range
// and both ends of the int64 range, there with concrete offsets only (the 64-bit decimal conversion
// of a symbolic 16-19 digit value is not decided by any solver here within the time limit).
func zzXuidBase() (base int64, symbolicOffset bool) {
	n := 2
	if zz.Thorough() {
		n = 5
	}
	switch zz.Choose(n) {
	case 1:
		return 1000000000000000000, true
	case 2:
		return 2535400000000000, false // real XUIDs are 16 digits starting 2535...
	case 3:
		return 9223372036854775807 - 8, false
	case 4:
		return -9223372036854775808 + 8, false
	}
	return 0, true
}

func zzXuidNear(base int64, symbolicOffset bool) int64 {
	lim := int64(999)
	if zz.Thorough() {
		lim = 99999
	}
	return zzXuidWithin(base, symbolicOffset, lim)
}

func zzXuidWithin(base int64, symbolicOffset bool, lim int64) int64 {
	if !symbolicOffset {
		return base + int64(zz.Choose(17)) - 8
	}
	x := zz.Int64()
	zz.Assume(x >= -lim && x <= lim)
	return base + x
}

func zzXuid() int64 { return zzXuidNear(zzXuidBase()) }

// zzStubSHA1 routes both entry points of crypto/sha1 (New and the one-shot Sum) to recorder h.
func zzStubSHA1(next func() *zzSHA) {
	zz.Replace("crypto/sha1.New", func() hash.Hash { return next() })
	zz.Replace("crypto/sha1.Sum", func(data []byte) [20]byte {
		h := next()
		h.in = append(h.in, data...)
		var out [20]byte
		copy(out[:], h.out)
		return out
	})
}

// The UUID is the (stubbed) SHA-1 of "FloodgateXUID:"+decimal(xuid) with RFC 4122 version 5 / variant bits.
func VerifHarness_JavaUuid() {
	zz.MaxLen(20)
	h := &zzSHA{out: zz.Bytes(20)}
	zzStubSHA1(func() *zzSHA { return h })
	x := zzXuid()
	d := &BedrockData{Xuid: x}
	id, err := d.JavaUuid()
	zz.Assert(err == nil, "JavaUuid failed")
	want := "FloodgateXUID:" + zzDecimal(x)
	zz.Assert(string(h.in) == want, "UUID is not derived from \"FloodgateXUID:\" followed by the decimal XUID")
	zz.Assert(id[6]>>4 == 5, "UUID version nibble is not 5")
	zz.Assert(id[8]>>6 == 2, "UUID variant bits are not 10 (RFC 4122)")
	for i := 0; i < 16; i++ {
		switch i {
		case 6:
			zz.Assert(id[i]&0x0f == h.out[i]&0x0f, "digest bits were lost in byte 6")
		case 8:
			zz.Assert(id[i]&0x3f == h.out[i]&0x3f, "digest bits were lost in byte 8")
		default:
			zz.Assert(id[i] == h.out[i], "UUID bytes differ from the digest")
		}
	}
	zz.Reach("uuid")
}

// Different XUIDs hash different inputs (so distinctness reduces to SHA-1 collision resistance),
// and the same XUID always hashes the same input.
func VerifHarness_JavaUuidDistinct() {
	h1 := &zzSHA{out: make([]byte, 20)}
	h2 := &zzSHA{out: make([]byte, 20)}
	n := 0
	zzStubSHA1(func() *zzSHA {
		n++
		if n == 1 {
			return h1
		}
		return h2
	})
	base, sym := zzXuidBase()
	// x is symbolic; y is one of its neighbourhood's fixed points (same value, adjacent values, values
	// that differ in one higher digit, a value with another digit count). Two symbolic decimal
	// conversions in one query were left undecided once on a loaded machine (10 000 paths), and add
	// nothing: VerifHarness_JavaUuid already pins the hashed input to the decimal form for every x.
	x := zzXuidNear(base, sym)
	y := base + []int64{0, 1, -1, 10, -10, 100, 7}[zz.Choose(7)]
	if zz.Bool() {
		x = y // the same XUID twice
	}
	_, _ = (&BedrockData{Xuid: x}).JavaUuid()
	_, _ = (&BedrockData{Xuid: y}).JavaUuid()
	if x != y {
		zz.Assert(string(h1.in) != string(h2.in), "two different XUIDs are hashed from the same input")
		zz.Reach("distinct")
	} else {
		zz.Assert(string(h1.in) == string(h2.in), "the same XUID is hashed from different inputs")
		zz.Reach("stable")
	}
}

func VerifMutant_JavaUuid() {
	h := &zzSHA{out: zz.Bytes(20)}
	zz.MaxLen(20)
	zzStubSHA1(func() *zzSHA { return h })
	id, _ := (&BedrockData{Xuid: 7}).JavaUuid()
	zz.Assert(id[6] == h.out[6], "control: version bits overwrite digest bits")
}
