package floodgate

import (
	"hash"

	zz "go.minekube.com/gate/pkg/internal/zzverif"
)

type zzSHA struct {
	in  []byte
	out []byte
}

func (h *zzSHA) Write(p []byte) (int, error) { h.in = append(h.in, p...); return len(p), nil }
func (h *zzSHA) Sum(b []byte) []byte         { return append(b, h.out...) }
func (h *zzSHA) Reset()                      { h.in = nil }
func (h *zzSHA) Size() int                   { return 20 }
func (h *zzSHA) BlockSize() int              { return 64 }

// reference decimal rendering, written without strconv
func zzDecimal(v int64) string {
	if v == 0 {
		return "0"
	}
	neg := v < 0
	u := uint64(v)
	if neg {
		u = uint64(-v)
	}
	var buf [20]byte
	i := len(buf)
	for u > 0 {
		i--
		buf[i] = byte('0' + u%10)
		u /= 10
	}
	if neg {
		i--
		buf[i] = '-'
	}
	return string(buf[i:])
}

func zzXuid() int64 {
	x := zz.Int64()
	lim := int64(999)
	if zz.Thorough() {
		lim = 99999
	}
	zz.Assume(x >= -lim && x <= lim)
	return x
}

// The UUID is the (stubbed) SHA-1 of "FloodgateXUID:"+decimal(xuid) with RFC 4122 version 5 / variant bits.
func VerifHarness_JavaUuid() {
	zz.MaxLen(20)
	h := &zzSHA{out: zz.Bytes(20)}
	zz.Replace("crypto/sha1.New", func() hash.Hash { return h })
	x := zzXuid()
	d := &BedrockData{Xuid: x}
	id, err := d.JavaUuid()
	zz.Assert(err == nil, "JavaUuid failed")
	want := "FloodgateXUID:" + zzDecimal(x)
	zz.Assert(string(h.in) == want, "UUID is not derived from \"FloodgateXUID:\" followed by the decimal XUID")
	zz.Assert(id[6]>>4 == 5, "UUID version nibble is not 5")
	zz.Assert(id[8]>>6 == 2, "UUID variant bits are not 10 (RFC 4122)")
	for i := 0; i < 16; i++ {
		switch i {
		case 6:
			zz.Assert(id[i]&0x0f == h.out[i]&0x0f, "digest bits were lost in byte 6")
		case 8:
			zz.Assert(id[i]&0x3f == h.out[i]&0x3f, "digest bits were lost in byte 8")
		default:
			zz.Assert(id[i] == h.out[i], "UUID bytes differ from the digest")
		}
	}
	zz.Reach("uuid")
}

// Different XUIDs hash different inputs (so distinctness reduces to SHA-1 collision resistance),
// and the same XUID always hashes the same input.
func VerifHarness_JavaUuidDistinct() {
	h1 := &zzSHA{out: make([]byte, 20)}
	h2 := &zzSHA{out: make([]byte, 20)}
	n := 0
	zz.Replace("crypto/sha1.New", func() hash.Hash {
		n++
		if n == 1 {
			return h1
		}
		return h2
	})
	x, y := zzXuid(), zzXuid()
	_, _ = (&BedrockData{Xuid: x}).JavaUuid()
	_, _ = (&BedrockData{Xuid: y}).JavaUuid()
	if x != y {
		zz.Assert(string(h1.in) != string(h2.in), "two different XUIDs are hashed from the same input")
		zz.Reach("distinct")
	} else {
		zz.Assert(string(h1.in) == string(h2.in), "the same XUID is hashed from different inputs")
		zz.Reach("stable")
	}
}

func VerifMutant_JavaUuid() {
	h := &zzSHA{out: zz.Bytes(20)}
	zz.MaxLen(20)
	zz.Replace("crypto/sha1.New", func() hash.Hash { return h })
	id, _ := (&BedrockData{Xuid: 7}).JavaUuid()
	zz.Assert(id[6] == h.out[6], "control: version bits overwrite digest bits")
}
