package geyser

import (
	zz "go.minekube.com/gate/pkg/internal/zzverif"
)

func zzValidJavaName(s string) bool {
	if len(s) < 1 || len(s) > 16 {
		return false
	}
	ok := true
	for i := 0; i < len(s); i++ {
		c := s[i]
		ok = ok && (c >= 'a' && c <= 'z' || c >= 'A' && c <= 'Z' || c >= '0' && c <= '9' || c == '_')
	}
	return ok
}

// every gamertag of up to N arbitrary bytes (any UTF-8, invalid UTF-8, spaces, dots ...)
func VerifHarness_UsernameShort() {
	max := 3
	if zz.Thorough() {
		max = 5
	}
	zz.MaxLen(max)
	n := zz.Int()
	zz.Assume(n >= 0 && n <= max)
	name := zz.String(n)
	got := javaCompatibleUsername(name)
	zz.Assert(zzValidJavaName(got), "Java profile name is not 1..16 characters of [A-Za-z0-9_]")
	zz.Reach("short")
	if n == 0 {
		zz.Reach("empty-gamertag")
	}
}

// long names: a prefix (as a username format would add) that fills the name up to the 16 limit,
// followed by arbitrary bytes that straddle it
func VerifHarness_UsernameLong() {
	free := 3
	if zz.Thorough() {
		free = 4
	}
	zz.MaxLen(free)
	k := zz.Choose(3) // 13, 14 or 15 fixed characters
	prefix := "BedrockPlayer_."[:13+k]
	name := prefix + zz.String(free)
	got := javaCompatibleUsername(name)
	zz.Assert(zzValidJavaName(got), "Java profile name is not 1..16 characters of [A-Za-z0-9_] for a long gamertag")
	// the valid prefix characters are kept as they are
	for i := 0; i < 13; i++ {
		zz.Assert(got[i] == prefix[i], "valid leading characters were altered")
	}
	zz.Reach("long")
}

func VerifMutant_Username() {
	zz.MaxLen(2)
	name := "0123456789abcde" + zz.String(2)
	got := javaCompatibleUsername(name)
	// control: a two-byte UTF-8 character at position 15 must yield exactly one '_' (found when asserting it never does)
	zz.Assert(!(len(got) == 16 && got[15] == '_' && name[15] >= 0xC2), "control")
}
