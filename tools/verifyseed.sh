#!/bin/bash
# usage: verifyseed.sh <seed-dir> <pkg-dir-rel> [extra test pkgs...]
# Confirms a seeded change in a scratch worktree: builds, existing tests of the package (and extras) pass with it,
# the demo fails with it and passes without it. Removes the worktree afterwards.
export GOFLAGS=-mod=mod GOPROXY=off GOSUMDB=off GOTOOLCHAIN=local PATH=/opt/veriftools/go1.26.8/bin:$PATH
sd=$1; pkg=$2; shift 2
wt=/tmp/seedverify-$$
git -C /repo worktree add --detach $wt HEAD >/dev/null 2>&1 || { echo "worktree failed"; exit 2; }
trap 'git -C /repo worktree remove --force $wt >/dev/null 2>&1' EXIT
cd $wt
demo=$(ls $sd/*_test.go | head -1)
git apply $sd/patch.diff || { echo "RESULT: patch does not apply"; exit 1; }
go build ./... || { echo "RESULT: build fails"; exit 1; }
echo "--- existing tests with the change: ./$pkg $@"
if ! timeout 1500 go test -vet=off -count=1 -timeout 600s ./$pkg "$@" > /tmp/seedverify-$$.log 2>&1; then tail -30 /tmp/seedverify-$$.log; echo "RESULT: existing tests FAIL with the change"; rm -f /tmp/seedverify-$$.log; exit 1; fi
rm -f /tmp/seedverify-$$.log
cp $demo $pkg/zz_seed_demo_test.go
echo "--- demo with the change (must fail)"
if timeout 600 go test -vet=off -count=1 -timeout 120s -run 'Seed|Demo' ./$pkg > /tmp/seedverify-$$.log 2>&1; then echo "RESULT: demo PASSES with the change"; rm -f /tmp/seedverify-$$.log; exit 1; fi
grep -m5 -E "^(---|\s+\S+_test.go|FAIL|panic)" /tmp/seedverify-$$.log
git apply -R $sd/patch.diff
echo "--- demo without the change (must pass)"
if ! timeout 600 go test -vet=off -count=1 -timeout 120s -run 'Seed|Demo' ./$pkg > /tmp/seedverify-$$.log 2>&1; then tail -20 /tmp/seedverify-$$.log; echo "RESULT: demo FAILS on the clean tree"; rm -f /tmp/seedverify-$$.log; exit 1; fi
rm -f /tmp/seedverify-$$.log
echo "RESULT: confirmed"
