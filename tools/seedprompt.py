#!/usr/bin/env python3
"""Prints the prompt handed to an independent sub-agent for seeding a property-breaking change.
usage: seedprompt.py <property-id> <worktree> [n_changes]"""
import json, sys
pid, wt = sys.argv[1], sys.argv[2]
n = int(sys.argv[3]) if len(sys.argv) > 3 else 2
rec = None
for l in open('/verif/properties.jsonl'):
    p = json.loads(l)
    if p['id'] == pid:
        rec = p
text = {k: rec[k] for k in ('id', 'title', 'statement', 'quantifier', 'anchors')}
print(f"""You are helping evaluate a verification effort for minekube/gate (a Go Minecraft reverse proxy). You have your own scratch git worktree of the repository at {wt} (already created; work ONLY inside it; never touch /repo or /verif, and do not read /verif).

Toolchain (no network; every shell call needs this, env is not kept between calls):
  export GOFLAGS=-mod=mod GOPROXY=off GOSUMDB=off GOTOOLCHAIN=local PATH=/opt/veriftools/go1.26.8/bin:$PATH
Do NOT use `git stash` (the stash is shared between worktrees; other agents work in sibling worktrees); use `git diff > file`, `git apply`, `git apply -R`.
Always run tests with short timeouts, e.g. `timeout 600 go test -vet=off -count=1 -timeout 120s ./pkg/...`.

Here is a semantic property that the code is supposed to satisfy:

{json.dumps(text, indent=1)}

Task: produce {n} DIFFERENT realistic code changes (the kind of regression a maintainer could plausibly introduce during a refactor, optimisation or feature) to non-test source files of the repository, each of which
  (a) BREAKS the property above,
  (b) still compiles (`go build ./...`) and still passes the existing tests of the packages it touches and of packages that depend on them (`go test -vet=off -count=1` on those packages; do not edit, delete or skip existing tests), and
  (c) needs something specific to manifest — a particular unusual input or boundary value, a particular interleaving, a multi-step sequence of operations, a fault at a particular point, or two cooperating sites that each look fine alone — NOT something ordinary use would expose at once.
Keep each change small (a few lines), in the code the property is anchored in (or code it calls). The changes must be independent alternatives (each applies alone to the clean tree).

For each change k = 1..{n} deliver, in the directory {wt}/_seed/k/ :
  - patch.diff : `git diff` of the change against the clean worktree HEAD (source change only, paths relative to repo root, appliable with `git apply`),
  - a demonstration: a NEW Go test file (e.g. pkg/.../zz_seed_demo_test.go, kept OUT of patch.diff; copy it into _seed/k/ and record its intended path in the repo) that FAILS with the change applied and PASSES on the clean tree, run with a short -timeout,
  - notes.md : what the change is, why it breaks the property, what exactly is needed for it to manifest, and the exact commands you ran with their outcomes (build, existing tests with the change, demo with and without the change).
When you are done, restore the worktree to the clean HEAD state (git checkout -- . ; remove the demo test from the tree; keep _seed/). Reply with a short summary listing each change in one or two sentences.""")
