#!/bin/bash
# usage: tryseed.sh <prop> <patch.diff> [tier]  -- applies the change to /repo, runs the check, reverts.
cd /verif
git -C /repo status --short | grep -q . && { echo "/repo not clean"; exit 2; }
git -C /repo apply $2 || exit 2
GOSYM_REPLAY_DIR=/tmp/tryseed-replays GOSYM_NO_EVIDENCE=1 timeout 3600 ./check.sh $1 ${3:-quick} > /tmp/tryseed-$$.log 2>&1; rc=$?
git -C /repo checkout -- . ; git -C /repo clean -fdq pkg cmd 2>/dev/null
grep -E "^(\[|VIOLATION|OK|INCONCLUSIVE|ENGINE|KNOWN|  assert|  panic|  race|  deadlock|  lock|    native)" /tmp/tryseed-$$.log | cut -c1-260 | tail -${TAILN:-25}
echo "exit=$rc"; rm -rf /tmp/tryseed-$$.log /tmp/tryseed-replays
