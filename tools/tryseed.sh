#!/bin/bash
# usage: tryseed.sh <prop> <patch.diff> [tier]
# Runs the check against a scratch worktree of /repo HEAD with the change applied (GOSYM_REPO); /repo itself is not touched,
# evidence and /verif/replays are not written. The worktree is removed afterwards.
cd /verif
wt=/tmp/tryseed-wt-$$
git -C /repo worktree add --detach $wt HEAD >/dev/null 2>&1 || { echo "worktree failed"; exit 2; }
trap 'git -C /repo worktree remove --force $wt >/dev/null 2>&1; rm -rf /tmp/tryseed-$$.log /tmp/tryseed-replays-$$' EXIT
git -C $wt apply $2 || exit 2
GOSYM_REPO=$wt GOSYM_REPLAY_DIR=/tmp/tryseed-replays-$$ GOSYM_NO_EVIDENCE=1 timeout 3600 ./check.sh $1 ${3:-quick} > /tmp/tryseed-$$.log 2>&1; rc=$?
grep -E "^(\[|VIOLATION|OK|INCONCLUSIVE|ENGINE|KNOWN|  assert|  panic|  race|  deadlock|  lock|    native)" /tmp/tryseed-$$.log | cut -c1-260 | tail -${TAILN:-25}
echo "exit=$rc"
