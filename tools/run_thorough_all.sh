#!/bin/bash
# usage: run_thorough_all.sh [ids...]  -- runs the thorough tier of every (or the given) registered check on the clean
# tree without touching evidence; prints one line per property. /repo must not be modified meanwhile.
cd /verif
ids="$@"
[ -z "$ids" ] && ids=$(python3 -c "import json;print(' '.join(c['property_id'] for c in json.load(open('MANIFEST.json'))['checks']))")
for p in $ids; do
  s=$(date +%s)
  GOSYM_NO_EVIDENCE=1 GOSYM_REPLAY_DIR=/tmp/thorough-replays timeout 5400 ./check.sh $p thorough > /tmp/thorough-$p.log 2>&1; rc=$?
  e=$(date +%s)
  echo "$p rc=$rc $((e-s))s $(grep -E '^(OK|VIOLATION|INCONCLUSIVE|ENGINE)' /tmp/thorough-$p.log | head -1 | cut -c1-120)"
done
