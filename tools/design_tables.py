#!/usr/bin/env python3
"""Regenerates the generated tables of DESIGN.md (§9.0 registered checks, §9.3 seeded changes, §9.4 fixes)
between the markers <!-- GEN:xxx --> ... <!-- /GEN:xxx -->."""
import json, glob, os, re
root = '/verif'
man = json.load(open(f'{root}/MANIFEST.json'))
rows = ["| id | harness entry points | quick bounds (see MANIFEST level_note for the full statement) |", "|----|----|----|"]
for c in man['checks']:
    pid = c['property_id']
    hs = []
    for f in glob.glob(f'{root}/harness/{pid}/*.go'):
        hs += re.findall(r'^func (VerifHarness_\w+)', open(f).read(), re.M)
    spec = json.load(open(f'{root}/harness/{pid}/spec.json'))
    b = '; '.join(f"{k}: {v}" for k, v in spec.get('bounds', {}).items())
    rows.append(f"| {pid} | {', '.join(sorted(h.replace('VerifHarness_','') for h in hs))} | {b[:420]}{'…' if len(b)>420 else ''} |")
checks = '\n'.join(rows)
srows = ["| seeded change | property | needs to manifest | detected by |", "|----|----|----|----|"]
for d in sorted(glob.glob(f'{root}/seeded/*/meta.json')):
    m = json.load(open(d))
    srows.append(f"| {os.path.basename(os.path.dirname(d))} | {m['property']} | {m['needs_to_manifest']} | {m['detected_by']} |")
seeds = '\n'.join(srows)
k = json.load(open(f'{root}/known_findings.json'))
fixes = '\n'.join('* ' + x for x in k['fixed']) + ('\n\nKnown findings recorded and not repaired: ' + (', '.join(map(str, k['findings'])) if k['findings'] else 'none.'))
na = '\n'.join(f"* **{x['property_id']}** — {x['reason']}" for x in man.get('not_applicable', []))
d = open(f'{root}/DESIGN.md').read()
for name, body in (('checks', checks), ('seeds', seeds), ('fixes', fixes), ('na', na)):
    pat = re.compile(rf'<!-- GEN:{name} -->.*?<!-- /GEN:{name} -->', re.S)
    if pat.search(d):
        d = pat.sub(lambda m: f'<!-- GEN:{name} -->\n{body}\n<!-- /GEN:{name} -->', d)
open(f'{root}/DESIGN.md', 'w').write(d)
print("tables regenerated")
