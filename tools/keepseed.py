#!/usr/bin/env python3
"""usage: keepseed.py <name> <seed-dir> <property> <demo-pkg-dir> <detected: yes|no|partial> <detected_by> <needs>
Copies patch.diff, demo test and notes into /verif/seeded/<name>/ and writes meta.json."""
import sys, os, shutil, json, glob
name, sd, prop, pkg, det, by, needs = sys.argv[1:8]
d = f'/verif/seeded/{name}'
os.makedirs(d, exist_ok=True)
shutil.copy(f'{sd}/patch.diff', d)
demo = glob.glob(f'{sd}/*_test.go')[0]
shutil.copy(demo, f'{d}/zz_seed_demo_test.go')
if os.path.exists(f'{sd}/notes.md'):
    shutil.copy(f'{sd}/notes.md', d)
meta = {
 "property": prop,
 "origin": "independent sub-agent given only the property text and a scratch worktree",
 "needs_to_manifest": needs,
 "demo": {"file": "zz_seed_demo_test.go", "intended_path": f"{pkg}/zz_seed_demo_test.go"},
 "confirmed_by": f"/verif/tools/verifyseed.sh (scratch worktree): go build ./... ok; go test -vet=off ./{pkg} passes with the change; demo fails with the change and passes on the clean tree",
 "check_run": f"/verif/tools/tryseed.sh {prop} /verif/seeded/{name}/patch.diff (git -C /repo apply; ./check.sh {prop} quick; git -C /repo checkout -- .)",
 "detected": det,
 "detected_by": by,
}
json.dump(meta, open(f'{d}/meta.json', 'w'), indent=1)
print("kept", d)
