#!/bin/bash
# Re-runs every registered quick check on /repo's unchanged tree so that the committed evidence files
# describe exactly that run. Refuses to run when /repo has local changes.
cd /verif
git -C /repo status --short | grep -q . && { echo "/repo not clean"; exit 2; }
rc=0
for p in $(python3 -c "import json; print(' '.join(c['property_id'] for c in json.load(open('MANIFEST.json'))['checks']))"); do
  rm -f evidence/$p.json
  out=$(VERIF_TIER=quick ./check.sh $p quick 2>&1 | tail -1)
  echo "$out"
  case "$out" in OK*) ;; *) rc=1;; esac
  [ -s evidence/$p.json ] || { echo "missing evidence for $p"; rc=1; }
done
exit $rc
