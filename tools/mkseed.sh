#!/bin/sh
# usage: mkseed.sh <name>  -> creates a scratch worktree of /repo HEAD at /tmp/seed/<name>
set -e
mkdir -p /tmp/seed
git -C /repo worktree add --detach /tmp/seed/$1 HEAD >/dev/null 2>&1
echo /tmp/seed/$1
