package main

import (
	"fmt"
	"go/types"
)

// deepEqual models reflect.DeepEqual over engine values: pointer-identical or structurally equal
// pointees, element-wise slices/arrays/maps (nil and empty differ), interfaces with identical dynamic
// types, functions only if both nil. Cycles are cut by a visited set as in the real implementation.
func (p *Path) deepEqual(t types.Type, xv, yv Value, seen map[string]bool) *Term {
	return p.deepEqualAt(t, xv, yv, nil, nil, seen)
}

// lockSnapshot describes the engine-side state of a sync.Mutex / sync.RWMutex (the real ones keep it
// in their fields, which is what reflect.DeepEqual would compare).
func (p *Path) lockSnapshot(at *PtrV) string {
	if at == nil {
		return "free"
	}
	l, ok := p.locks[at.key()]
	if !ok || l.free() {
		return "free"
	}
	n := 0
	for _, c := range l.readers {
		n += c
	}
	return fmt.Sprintf("w%v/r%d", l.writer >= 0, n)
}

func isSyncLock(t types.Type) bool {
	n, ok := t.(*types.Named)
	if !ok || n.Obj().Pkg() == nil || n.Obj().Pkg().Path() != "sync" {
		return false
	}
	return n.Obj().Name() == "Mutex" || n.Obj().Name() == "RWMutex"
}

func (p *Path) deepEqualAt(t types.Type, xv, yv Value, xat, yat *PtrV, seen map[string]bool) *Term {
	tc := p.tc()
	if t == nil {
		return p.equal(nil, xv, yv)
	}
	if isSyncLock(t) {
		return tc.Bool(p.lockSnapshot(xat) == p.lockSnapshot(yat))
	}
	sub := func(at *PtrV, i int) *PtrV {
		if at == nil {
			return nil
		}
		c := at.child(i)
		return &c
	}
	switch u := t.Underlying().(type) {
	case *types.Pointer:
		x, y := xv.(PtrV), yv.(PtrV)
		if ptrEq(x, y) {
			return tc.True
		}
		if x.IsNil() || y.IsNil() {
			return tc.False
		}
		k := x.key() + "|" + y.key()
		if seen[k] {
			return tc.True
		}
		seen[k] = true
		return p.deepEqualAt(u.Elem(), p.h.load(x), p.h.load(y), &x, &y, seen)
	case *types.Struct:
		x, y := xv.(*StructV), yv.(*StructV)
		r := tc.True
		for i := range x.f {
			r = tc.And(r, p.deepEqualAt(u.Field(i).Type(), x.f[i], y.f[i], sub(xat, i), sub(yat, i), seen))
			if r == tc.False {
				return r
			}
		}
		return r
	case *types.Array:
		x, y := xv.(*ArrayV), yv.(*ArrayV)
		r := tc.True
		for i := range x.e {
			r = tc.And(r, p.deepEqual(u.Elem(), x.e[i], y.e[i], seen))
		}
		return r
	case *types.Slice:
		x, y := xv.(SliceV), yv.(SliceV)
		if x.isNil != y.isNil {
			return tc.False
		}
		if x.len != y.len {
			return tc.False
		}
		if x.isNil || x.len == 0 || (ptrEq(x.arr, y.arr) && x.off == y.off) {
			return tc.True
		}
		r := tc.True
		for i := 0; i < x.len; i++ {
			r = tc.And(r, p.deepEqual(u.Elem(), p.h.load(x.arr.child(x.off+i)), p.h.load(y.arr.child(y.off+i)), seen))
		}
		return r
	case *types.Interface:
		x, y := xv.(IfaceV), yv.(IfaceV)
		if x.t == nil || y.t == nil {
			return tc.Bool(x.t == nil && y.t == nil)
		}
		if !types.Identical(x.t, y.t) {
			return tc.False
		}
		return p.deepEqual(x.t, x.v, y.v, seen)
	case *types.Map:
		x, y := xv.(MapV), yv.(MapV)
		if x.id == y.id {
			return tc.True
		}
		if x.id == 0 || y.id == 0 {
			return tc.False
		}
		xd, yd := p.h.mapData(x, false), p.h.mapData(y, false)
		if xd.nsym() > 0 || yd.nsym() > 0 {
			panic(unsupportedf("reflect.DeepEqual on maps with symbolic keys"))
		}
		if len(xd.keys) != len(yd.keys) {
			return tc.False
		}
		r := tc.True
		for i, k := range xd.keys {
			j := p.mapFind(yd, k)
			if j < 0 {
				return tc.False
			}
			r = tc.And(r, p.deepEqual(u.Elem(), xd.vals[i], yd.vals[j], seen))
		}
		return r
	case *types.Signature:
		x, y := xv.(FuncV), yv.(FuncV)
		return tc.Bool(x.IsNil() && y.IsNil())
	case *types.Chan:
		x, y := xv.(ChanV), yv.(ChanV)
		return tc.Bool(x.id == y.id)
	}
	return p.equal(t, xv, yv)
}

func init() {
	intrinsics["reflect.DeepEqual"] = func(c *callCtx) (Value, ctl) {
		x, xok := c.args[0].(IfaceV)
		y, yok := c.args[1].(IfaceV)
		if !xok || !yok {
			panic(unsupportedf("reflect.DeepEqual on %T, %T", c.args[0], c.args[1]))
		}
		tc := c.p.tc()
		if x.t == nil || y.t == nil {
			return tc.Bool(x.t == nil && y.t == nil), ctlRet
		}
		if !types.Identical(x.t, y.t) {
			return tc.False, ctlRet
		}
		return c.p.deepEqual(x.t, x.v, y.v, map[string]bool{}), ctlRet
	}
}
