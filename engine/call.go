package main

import (
	"fmt"
	"go/types"
	"strings"

	"golang.org/x/tools/go/ssa"
)

// lookupMethod finds the concrete method implementing (pkg,name) for dynamic type t.
func (wk *Worker) lookupMethod(t types.Type, m *types.Func) *ssa.Function {
	key := t.String() + "\x00" + m.Id()
	if f, ok := wk.msCache[key]; ok {
		return f
	}
	ms := wk.w.prog.MethodSets.MethodSet(t)
	sel := ms.Lookup(m.Pkg(), m.Name())
	if sel == nil {
		panic(unsupportedf("method %s not found on %s", m.Name(), t))
	}
	f := wk.w.prog.MethodValue(sel)
	wk.msCache[key] = f
	return f
}

// resolveCall evaluates the callee and arguments of a call site. ok=false means a Go panic was raised.
func (p *Path) resolveCall(th *Thread, fr *Frame, c *ssa.CallCommon) (FuncV, []Value, bool) {
	args := make([]Value, 0, len(c.Args)+1)
	if c.IsInvoke() {
		recv := p.get(fr, c.Value)
		iv, ok := recv.(IfaceV)
		if !ok {
			if pv, isP := recv.(PoisonV); isP {
				panic(unsupportedf("poisoned: %s", pv.why))
			}
			panic(unsupportedf("invoke on %T", recv))
		}
		if iv.t == nil {
			p.goPanicRT("invalid memory address or nil pointer dereference (method call on nil interface)")
			return FuncV{}, nil, false
		}
		if nv, isN := iv.v.(NativeV); isN {
			args = append(args, nv)
			for _, a := range c.Args {
				args = append(args, p.get(fr, a))
			}
			return FuncV{native: "method:" + nv.kind + "." + c.Method.Name()}, args, true
		}
		fn := p.wk.lookupMethod(iv.t, c.Method)
		args = append(args, copyVal(iv.v))
		for _, a := range c.Args {
			args = append(args, p.get(fr, a))
		}
		return FuncV{fn: fn}, args, true
	}
	fv := p.get(fr, c.Value)
	f, ok := fv.(FuncV)
	if !ok {
		if pv, isP := fv.(PoisonV); isP {
			panic(unsupportedf("poisoned: %s", pv.why))
		}
		panic(unsupportedf("call of %T", fv))
	}
	for _, a := range c.Args {
		args = append(args, p.get(fr, a))
	}
	if f.IsNil() {
		p.goPanicRT("invalid memory address or nil pointer dereference (call of nil func)")
		return FuncV{}, nil, false
	}
	return f, args, true
}

func (p *Path) doCall(th *Thread, fr *Frame, c *ssa.CallCommon, dst *ssa.Call) {
	fn, args, ok := p.resolveCall(th, fr, c)
	if !ok {
		return
	}
	slot := fr.info.slot[dst]
	if fn.builtin != nil {
		r, done := p.callBuiltin(th, fr, fn.builtin, args, c)
		if !done {
			return
		}
		fr.env[slot] = r
		fr.ip++
		return
	}
	p.callValue(th, fn, args, slot, nil, nil)
}

// callValue calls fn. For ordinary call sites the caller's ip is advanced when the call completes.
// deferOf != nil marks a deferred call run on behalf of that frame (ip is not advanced).
func (p *Path) callValue(th *Thread, fn FuncV, args []Value, slot int, onRet func(Value), deferOf *Frame) {
	caller := th.top()
	advance := deferOf == nil && onRet == nil
	if fn.builtin != nil {
		r, done := p.callBuiltin(th, caller, fn.builtin, args, nil)
		if done {
			if onRet != nil {
				onRet(r)
			} else if advance {
				if slot >= 0 {
					caller.env[slot] = r
				}
				caller.ip++
			}
		}
		return
	}
	if fn.native != "" {
		h := nativeFuncs[fn.native]
		if h == nil {
			panic(unsupportedf("native function %s", fn.native))
		}
		p.runIntrinsic(th, caller, h, fn.native, args, slot, onRet, advance)
		return
	}
	f := fn.fn
	fi := p.wk.w.info(f)
	// harness replacements
	if rep, ok := p.replace[fi.name]; ok {
		p.usedStub = true
		p.callValue(th, rep, args, slot, onRet, deferOf)
		return
	}
	if fi.gname != "" {
		if rep, ok := p.replace[fi.gname]; ok {
			p.usedStub = true
			p.callValue(th, rep, args, slot, onRet, deferOf)
			return
		}
	}
	if h := lookupIntrinsic(fi); h != nil {
		p.runIntrinsic(th, caller, h, fi.name, args, slot, onRet, advance)
		return
	}
	if f.Pkg != nil && p.wk.pkgState[f.Pkg] == 0 {
		p.wk.ensureInit(f.Pkg)
	}
	if len(f.Blocks) == 0 {
		if m := goModel(p.wk.w, fi); m != nil {
			f = m
			fi = p.wk.w.info(f)
		} else {
			panic(unsupportedf("function without body: %s", fi.name))
		}
	} else if m := goModel(p.wk.w, fi); m != nil {
		f = m
	}
	if advance {
		// the callee's return will land in slot and then we advance
		nf := p.pushFrame(th, f, args, fn.free, slot, nil)
		nf.deferOf = nil
		caller.ip++ // return continues after the call
		return
	}
	nf := p.pushFrame(th, f, args, fn.free, -1, onRet)
	nf.deferOf = deferOf
}

type callCtx struct {
	p    *Path
	th   *Thread
	name string
	args []Value
	// call an SSA/closure value and continue in k
	fr        *Frame
	deliverFn func(Value)
}

type ctl int

const (
	ctlRet ctl = iota
	ctlBlock
	ctlAsync // result is delivered later through c.deliver
	ctlPanicked
)

type intrinsicFn func(c *callCtx) (Value, ctl)

func (p *Path) runIntrinsic(th *Thread, caller *Frame, h intrinsicFn, name string, args []Value, slot int, onRet func(Value), advance bool) {
	c := &callCtx{p: p, th: th, name: name, args: args, fr: caller}
	deliver := func(v Value) {
		if onRet != nil {
			onRet(v)
			return
		}
		if advance {
			if slot >= 0 {
				caller.env[slot] = v
			}
			caller.ip++
		}
	}
	c.deliverFn = deliver
	v, k := h(c)
	switch k {
	case ctlRet:
		deliver(v)
	case ctlBlock, ctlAsync, ctlPanicked:
	}
}

// call lets an intrinsic call back into interpreted code; k receives the result.
func (c *callCtx) call(fn FuncV, args []Value, k func(Value)) {
	c.p.callValue(c.th, fn, args, -1, k, nil)
}

func (c *callCtx) deliver(v Value) { c.deliverFn(v) }

func (p *Path) afterReturn(th *Thread) {}

// ---------- panics ----------

func (p *Path) rtErrValue(msg string) Value {
	w := p.wk.w
	if w.rtErr == nil {
		return IfaceV{t: types.Typ[types.String], v: StrV{s: "runtime error: " + msg}}
	}
	return IfaceV{t: w.rtErr, v: &StructV{f: []Value{StrV{s: "runtime error: " + msg}}}}
}

func (p *Path) goPanicRT(msg string) {
	p.goPanic(p.threads[p.cur], p.rtErrValue(msg))
}

// goPanic starts unwinding in th with the given panic value.
func (p *Path) goPanic(th *Thread, v Value) {
	if p.nofork {
		panic(unsupportedf("Go panic during package init: %s", describe(v)))
	}
	fr := th.top()
	fr.panicking = true
	fr.panicV = v
	fr.phase = phDefersPanic
}

func (p *Path) continuePanic(th *Thread, fr *Frame) {
	if len(fr.defers) > 0 {
		d := fr.defers[len(fr.defers)-1]
		fr.defers = fr.defers[:len(fr.defers)-1]
		p.callValue(th, d.fn, d.args, -1, nil, fr)
		return
	}
	if fr.panicking {
		// propagate to caller
		v := fr.panicV
		th.frames = th.frames[:len(th.frames)-1]
		// locks held by this frame stay held (Go semantics); leak monitor does not apply on panic
		for len(th.frames) > 0 && th.top().native {
			th.frames = th.frames[:len(th.frames)-1]
		}
		if len(th.frames) == 0 {
			th.state = thDone
			th.uncaught = v
			p.uncaughtPanic(th, v)
			return
		}
		nf := th.top()
		nf.panicking = true
		nf.panicV = v
		nf.phase = phDefersPanic
		return
	}
	// recovered
	fr.phase = phNormal
	if fr.fn.Recover != nil {
		fr.prev = fr.block
		fr.block = fr.fn.Recover
		fr.ip = 0
		return
	}
	// return zero values
	var res Value
	rs := fr.fn.Signature.Results()
	switch rs.Len() {
	case 0:
	case 1:
		res = p.wk.zero(rs.At(0).Type())
	default:
		res = p.wk.zero(rs)
	}
	p.finishFrame(th, fr, res)
}

func (p *Path) uncaughtPanic(th *Thread, v Value) {
	msg := "panic: " + p.panicString(v)
	if p.expectPanic && th.id == 0 {
		p.recovered = v
		return
	}
	p.violationNow("panic", msg)
	panic(pathEnd{endStop, "uncaught panic"})
}

func (p *Path) panicString(v Value) string {
	if iv, ok := v.(IfaceV); ok {
		if iv.t == nil {
			return "nil"
		}
		if s, ok := iv.v.(StrV); ok && s.Concrete() {
			return s.s
		}
		if sv, ok := iv.v.(*StructV); ok && len(sv.f) == 1 {
			if s, ok := sv.f[0].(StrV); ok && s.Concrete() {
				return s.s
			}
		}
		return fmt.Sprintf("value of type %s", iv.t)
	}
	return describe(v)
}

// doRecover implements the recover() builtin for frame fr.
func (p *Path) doRecover(th *Thread, fr *Frame) Value {
	target := fr.deferOf
	if target != nil && target.panicking {
		target.panicking = false
		v := target.panicV
		target.panicV = nil
		return v
	}
	return IfaceV{}
}

// ---------- builtins ----------

func (p *Path) callBuiltin(th *Thread, fr *Frame, b *ssa.Builtin, args []Value, c *ssa.CallCommon) (Value, bool) {
	tc := p.tc()
	switch b.Name() {
	case "len":
		switch a := args[0].(type) {
		case StrV:
			return tc.BV(uint64(a.Len()), 64), true
		case SliceV:
			return tc.BV(uint64(a.len), 64), true
		case MapV:
			if a.id == 0 {
				return tc.BV(0, 64), true
			}
			p.mapAccessCheck(th, a, false)
			return tc.BV(uint64(len(p.h.mapData(a, false).keys)), 64), true
		case *ArrayV:
			return tc.BV(uint64(len(a.e)), 64), true
		case PtrV:
			// pointer to array
			if c != nil {
				if at, ok := c.Args[0].Type().Underlying().(*types.Pointer); ok {
					return tc.BV(uint64(at.Elem().Underlying().(*types.Array).Len()), 64), true
				}
			}
		case ChanV:
			if a.id == 0 {
				return tc.BV(0, 64), true
			}
			return tc.BV(uint64(len(p.h.chanData(a, false).buf)), 64), true
		case PoisonV:
			panic(unsupportedf("poisoned: %s", a.why))
		}
		panic(unsupportedf("len of %T", args[0]))
	case "cap":
		switch a := args[0].(type) {
		case SliceV:
			return tc.BV(uint64(a.cap), 64), true
		case *ArrayV:
			return tc.BV(uint64(len(a.e)), 64), true
		case ChanV:
			if a.id == 0 {
				return tc.BV(0, 64), true
			}
			return tc.BV(uint64(p.h.chanData(a, false).cap), 64), true
		}
		panic(unsupportedf("cap of %T", args[0]))
	case "append":
		return p.builtinAppend(args, c), true
	case "copy":
		dst := args[0].(SliceV)
		var src []Value
		switch s := args[1].(type) {
		case SliceV:
			if s.len > 0 {
				arr := p.arrayAt(s.arr, false)
				src = append(src, arr.e[s.off:s.off+s.len]...)
			}
		case StrV:
			for _, b := range p.strBytes(s) {
				src = append(src, b)
			}
		}
		n := len(src)
		if dst.len < n {
			n = dst.len
		}
		if n > 0 {
			darr := p.arrayAt(dst.arr, true)
			for i := 0; i < n; i++ {
				darr.e[dst.off+i] = copyVal(src[i])
			}
		}
		return tc.BV(uint64(n), 64), true
	case "delete":
		m := args[0].(MapV)
		if m.id != 0 {
			p.mapAccessCheck(th, m, true)
			p.mapDelete(m, args[1])
		}
		return nil, true
	case "print", "println":
		return nil, true
	case "recover":
		return p.doRecover(th, fr), true
	case "close":
		return nil, p.chanClose(th, args[0].(ChanV))
	case "min", "max":
		return p.builtinMinMax(b.Name(), args, c), true
	case "clear":
		switch a := args[0].(type) {
		case MapV:
			if a.id != 0 {
				p.mapAccessCheck(th, a, true)
				md := p.h.mapData(a, true)
				md.keys, md.vals, md.idx = nil, nil, map[string]int{}
			}
		case SliceV:
			if a.len > 0 {
				arr := p.arrayAt(a.arr, true)
				et := c.Args[0].Type().Underlying().(*types.Slice).Elem()
				for i := 0; i < a.len; i++ {
					arr.e[a.off+i] = p.wk.zero(et)
				}
			}
		}
		return nil, true
	case "ssa:wrapnilchk":
		ptr := args[0].(PtrV)
		if ptr.IsNil() {
			p.goPanicRT("value method called using nil pointer")
			return nil, false
		}
		return ptr, true
	case "String": // unsafe.String(ptr, len)
		ptr := p.asPtr(args[0])
		n := p.asTerm(args[1])
		if !n.IsConst() {
			panic(unsupportedf("unsafe.String with symbolic length"))
		}
		if n.Val == 0 {
			return StrV{}, true
		}
		base, off := splitElemPtr(ptr)
		arr := p.arrayAt(base, false)
		bs := make([]*Term, n.Val)
		for i := range bs {
			bs[i] = p.asTerm(arr.e[off+i])
		}
		return p.mkStr(bs), true
	case "SliceData":
		s := args[0].(SliceV)
		if s.isNil || s.cap == 0 {
			if s.isNil {
				return PtrV{}, true
			}
		}
		return s.arr.child(s.off), true
	case "StringData":
		s := p.asStr(args[0])
		sl := p.newByteSlice(p.strBytes(s), nil)
		return sl.arr.child(0), true
	case "Sizeof", "Alignof":
		sz := types.SizesFor("gc", "amd64")
		t := c.Args[0].Type()
		if b.Name() == "Alignof" {
			return tc.BV(uint64(sz.Alignof(t)), 64), true
		}
		return tc.BV(uint64(sz.Sizeof(t)), 64), true
	case "Slice": // unsafe.Slice(ptr, len)
		ptr := p.asPtr(args[0])
		n := p.asTerm(args[1])
		if !n.IsConst() {
			panic(unsupportedf("unsafe.Slice with symbolic length"))
		}
		if ptr.IsNil() {
			return SliceV{isNil: true}, true
		}
		base, off := splitElemPtr(ptr)
		return SliceV{arr: base, off: off, len: int(n.Val), cap: int(n.Val)}, true
	}
	panic(unsupportedf("builtin %s", b.Name()))
}

// splitElemPtr turns &arr[i] into (pointer to arr, i).
func splitElemPtr(ptr PtrV) (PtrV, int) {
	if len(ptr.path) == 0 {
		panic(unsupportedf("unsafe pointer does not point at an array element"))
	}
	last := ptr.path[len(ptr.path)-1]
	if last.sym != nil {
		panic(unsupportedf("unsafe pointer with symbolic index"))
	}
	return PtrV{id: ptr.id, path: ptr.path[:len(ptr.path)-1]}, last.i
}

func (p *Path) builtinMinMax(name string, args []Value, c *ssa.CallCommon) Value {
	tc := p.tc()
	t := c.Args[0].Type()
	res := args[0]
	for i := 1; i < len(args); i++ {
		var lt *Term
		if name == "min" {
			lt = p.binop(tokenLSS, t, t, args[i], res).(*Term)
		} else {
			lt = p.binop(tokenLSS, t, t, res, args[i]).(*Term)
		}
		switch r := res.(type) {
		case *Term:
			res = tc.Ite(lt, args[i].(*Term), r)
		default:
			if p.branch(lt, name) {
				res = args[i]
			}
		}
	}
	return res
}

func (p *Path) builtinAppend(args []Value, c *ssa.CallCommon) Value {
	s := args[0].(SliceV)
	var add []Value
	switch a := args[1].(type) {
	case SliceV:
		if a.len > 0 {
			arr := p.arrayAt(a.arr, false)
			for i := 0; i < a.len; i++ {
				add = append(add, copyVal(arr.e[a.off+i]))
			}
		}
	case StrV:
		for _, b := range p.strBytes(a) {
			add = append(add, b)
		}
	case PoisonV:
		panic(unsupportedf("poisoned: %s", a.why))
	default:
		panic(unsupportedf("append of %T", args[1]))
	}
	if len(add) == 0 {
		return s
	}
	n := s.len + len(add)
	if n <= s.cap && !s.isNil {
		arr := p.arrayAt(s.arr, true)
		for i, v := range add {
			arr.e[s.off+s.len+i] = v
		}
		return SliceV{arr: s.arr, off: s.off, len: n, cap: s.cap}
	}
	newCap := s.cap * 2
	if newCap < n {
		newCap = n
	}
	if newCap < 4 && n <= 4 {
		newCap = n
	}
	var et types.Type
	if c != nil {
		et = c.Args[0].Type().Underlying().(*types.Slice).Elem()
	} else if !s.isNil {
		o := p.h.obj(s.arr.id, false)
		if at, ok := o.typ.Underlying().(*types.Array); ok {
			et = at.Elem()
		}
	}
	if et == nil {
		panic(unsupportedf("append: unknown element type"))
	}
	arr := &ArrayV{e: make([]Value, newCap)}
	if s.len > 0 {
		old := p.arrayAt(s.arr, false)
		for i := 0; i < s.len; i++ {
			arr.e[i] = copyVal(old.e[s.off+i])
		}
	}
	for i, v := range add {
		arr.e[s.len+i] = v
	}
	for i := n; i < newCap; i++ {
		arr.e[i] = p.wk.zero(et)
	}
	p.noteAlloc(int64(newCap) * p.typeSize(et))
	o := p.h.alloc(types.NewArray(et, int64(newCap)), arr, "append")
	return SliceV{arr: PtrV{id: o.id}, len: n, cap: newCap}
}

// ---------- goroutines ----------

func (p *Path) spawn(parent *Thread, fn FuncV, args []Value) {
	th := p.newThread("go")
	th.vc = append([]int(nil), parent.vc...)
	// bottom pseudo frame so that callValue has a caller
	th.frames = append(th.frames, &Frame{native: true, info: &fnInfo{name: "<goroutine>"}, retSlot: -1})
	saved := p.cur
	p.cur = th.id
	p.callValue(th, fn, args, -1, func(Value) {
		th.frames = th.frames[:0]
		th.state = thDone
	}, nil)
	p.cur = saved
	p.schedPoint(parent, "go")
}

// leakCheck: locks acquired inside this frame and still held at return are recorded for the harness-level monitor.
func (p *Path) leakCheck(th *Thread, fr *Frame) {}

func trimGeneric(name string) string {
	// "(*sync/atomic.Pointer[T]).Load" -> "(*sync/atomic.Pointer).Load"
	for {
		i := strings.IndexByte(name, '[')
		if i < 0 {
			return name
		}
		depth := 0
		j := i
		for ; j < len(name); j++ {
			if name[j] == '[' {
				depth++
			} else if name[j] == ']' {
				depth--
				if depth == 0 {
					break
				}
			}
		}
		if j >= len(name) {
			return name
		}
		name = name[:i] + name[j+1:]
	}
}
