package main

import (
	"fmt"
	"go/types"
	"strings"
)

const zzPath = "go.minekube.com/gate/pkg/internal/zzverif"

func init() {
	z := func(name string, h intrinsicFn) { intrinsics[zzPath+"."+name] = h }
	sym := func(kind string, w int) intrinsicFn {
		return func(c *callCtx) (Value, ctl) { return c.p.fresh(kind, w), ctlRet }
	}
	z("Bool", sym("bool", 0))
	z("Byte", sym("byte", 8))
	z("Int8", sym("int8", 8))
	z("Int16", sym("int16", 16))
	z("Uint16", sym("uint16", 16))
	z("Int", sym("int", 64))
	z("Int32", sym("int32", 32))
	z("Int64", sym("int64", 64))
	z("Uint32", sym("uint32", 32))
	z("Uint64", sym("uint64", 64))
	z("Float64", sym("float64", 64))
	z("Float32", sym("float32", 32))
	z("Thorough", func(c *callCtx) (Value, ctl) { return c.p.tc().Bool(c.p.wk.w.thorough), ctlRet })
	z("Bytes", func(c *callCtx) (Value, ctl) {
		p := c.p
		n := p.concretizeLen(p.asTerm(c.args[0]), p.maxLen, "zzverif.Bytes length")
		bs := make([]*Term, n)
		for i := range bs {
			bs[i] = p.fresh("byte", 8)
		}
		return p.newByteSliceNoMonitor(bs), ctlRet
	})
	z("String", func(c *callCtx) (Value, ctl) {
		p := c.p
		n := p.concretizeLen(p.asTerm(c.args[0]), p.maxLen, "zzverif.String length")
		bs := make([]*Term, n)
		for i := range bs {
			bs[i] = p.fresh("byte", 8)
		}
		return p.mkStr(bs), ctlRet
	})
	z("Choose", func(c *callCtx) (Value, ctl) {
		p := c.p
		n := p.asTerm(c.args[0])
		if !n.IsConst() {
			panic(unsupportedf("Choose with symbolic n"))
		}
		// the choice is a symbolic input constrained to the range, so that it shows up in models
		v := p.fresh("choice", 64)
		conds := make([]*Term, n.Val)
		for i := range conds {
			conds[i] = p.tc().Eq(v, p.tc().BV(uint64(i), 64))
		}
		p.assume(p.tc().Cmp(OpBvUlt, v, n), "choice in range")
		d := p.fork(conds, "zzverif.Choose")
		return p.tc().BV(uint64(d), 64), ctlRet
	})
	z("MaxLen", func(c *callCtx) (Value, ctl) {
		c.p.maxLen = int(c.p.asTerm(c.args[0]).Val)
		return nil, ctlRet
	})
	z("Unwind", func(c *callCtx) (Value, ctl) {
		c.p.unwind = int(c.p.asTerm(c.args[0]).Val)
		return nil, ctlRet
	})
	z("MaxDepth", func(c *callCtx) (Value, ctl) {
		c.p.maxDepth = int(c.p.asTerm(c.args[0]).Val)
		return nil, ctlRet
	})
	z("MaxPreempt", func(c *callCtx) (Value, ctl) {
		c.p.maxPreempt = int(c.p.asTerm(c.args[0]).Val)
		return nil, ctlRet
	})
	z("AllocCap", func(c *callCtx) (Value, ctl) {
		c.p.allocCap = int64(c.p.asTerm(c.args[0]).Val)
		return nil, ctlRet
	})
	z("Assume", func(c *callCtx) (Value, ctl) {
		c.p.assume(c.p.asTerm(c.args[0]), "zzverif.Assume at "+c.p.where())
		return nil, ctlRet
	})
	z("Assert", func(c *callCtx) (Value, ctl) {
		msg := c.p.asStr(c.args[1])
		c.p.wk.assertsSeen++
		c.p.check(c.p.asTerm(c.args[0]), "assert", msg.s)
		return nil, ctlRet
	})
	z("Reach", func(c *callCtx) (Value, ctl) {
		l := c.p.asStr(c.args[0]).s
		if !c.p.reached[l] {
			c.p.reached[l] = true
		}
		return nil, ctlRet
	})
	z("Concrete", func(c *callCtx) (Value, ctl) {
		t, ok := c.args[0].(IfaceV)
		if !ok || t.t == nil {
			return c.p.tc().True, ctlRet
		}
		if tt, ok := t.v.(*Term); ok {
			return c.p.tc().Bool(tt.IsConst()), ctlRet
		}
		return c.p.tc().True, ctlRet
	})
	replaceFn := func(c *callCtx) (Value, ctl) {
		name := c.p.asStr(c.args[0]).s
		iv, ok := c.args[1].(IfaceV)
		if !ok || iv.t == nil {
			delete(c.p.replace, name)
			return nil, ctlRet
		}
		fv, ok := iv.v.(FuncV)
		if !ok {
			panic(unsupportedf("Replace(%s): not a func", name))
		}
		c.p.replace[name] = fv
		return nil, ctlRet
	}
	z("RaceMonitor", func(c *callCtx) (Value, ctl) { c.p.eraser = true; return nil, ctlRet })
	z("WaitGhostNe", func(c *callCtx) (Value, ctl) {
		p := c.p
		key := "g:" + p.ghostKey(c.args[0]) + ":" + p.asStr(c.args[1]).s
		old := p.asTerm(c.args[2])
		cur := func() *Term {
			if v, ok := p.ghost[key]; ok {
				return p.asTerm(v.(Value))
			}
			return p.tc().BV(0, 64)
		}
		differs := func() bool {
			a, b := cur(), old
			if !a.IsConst() || !b.IsConst() {
				panic(unsupportedf("WaitGhostNe on a symbolic ghost value"))
			}
			return a.Val != b.Val
		}
		if differs() {
			return nil, ctlRet
		}
		p.block(c.th, differs, "condition variable")
		return nil, ctlBlock
	})
	z("Native", func(c *callCtx) (Value, ctl) { return c.p.tc().False, ctlRet })
	z("NativeUnsupported", func(c *callCtx) (Value, ctl) { return nil, ctlRet })
	z("Replace", replaceFn)
	z("ReplaceSym", replaceFn)
	z("UF8", func(c *callCtx) (Value, ctl) {
		p := c.p
		p.usedStub = true
		name := "uf_" + sanitize(p.asStr(c.args[0]).s)
		in := p.sliceBytes(c.args[1].(SliceV))
		return p.tc().UF(fmt.Sprintf("%s_%d_8", name, len(in)), 8, in...), ctlRet
	})
	z("UFBytes", func(c *callCtx) (Value, ctl) {
		p := c.p
		p.usedStub = true
		name := "uf_" + sanitize(p.asStr(c.args[0]).s)
		in := p.sliceBytes(c.args[1].(SliceV))
		n := p.asTerm(c.args[2])
		if !n.IsConst() {
			panic(unsupportedf("UFBytes with symbolic n"))
		}
		out := make([]*Term, n.Val)
		for i := range out {
			if len(in) == 0 {
				out[i] = p.tc().UF(fmt.Sprintf("%s_0_%d", name, i), 8)
			} else {
				out[i] = p.tc().UF(fmt.Sprintf("%s_%d_%d", name, len(in), i), 8, in...)
			}
		}
		return p.newByteSliceNoMonitor(out), ctlRet
	})
	z("MaxAlloc", func(c *callCtx) (Value, ctl) {
		if c.p.maxAlloc == nil {
			return c.p.tc().BV(0, 64), ctlRet
		}
		return c.p.maxAlloc, ctlRet
	})
	z("ResetAlloc", func(c *callCtx) (Value, ctl) {
		c.p.maxAlloc = nil
		return nil, ctlRet
	})
	z("Held", func(c *callCtx) (Value, ctl) {
		iv := c.args[0].(IfaceV)
		key := c.p.asPtr(iv.v).key()
		l, ok := c.p.locks[key]
		return c.p.tc().Bool(ok && !l.free()), ctlRet
	})
	z("Guard", func(c *callCtx) (Value, ctl) {
		p := c.p
		obj := c.args[0].(IfaceV)
		mu := c.args[1].(IfaceV)
		mkey := p.asPtr(mu.v).key()
		ptr := p.asPtr(obj.v)
		p.guards["p:"+ptr.key()] = mkey
		// when the guarded cell holds a map, guard the map object too
		if mv, ok := p.h.load(ptr).(MapV); ok && mv.id != 0 {
			p.guards[fmt.Sprintf("m:%d", mv.id)] = mkey
		}
		return nil, ctlRet
	})
	z("Go", func(c *callCtx) (Value, ctl) {
		c.p.spawn(c.th, c.args[0].(FuncV), nil)
		return nil, ctlRet
	})
	z("Yield", func(c *callCtx) (Value, ctl) {
		c.p.schedPointAfter(c)
		return nil, ctlRet
	})
	z("WaitAll", func(c *callCtx) (Value, ctl) {
		p := c.p
		me := c.th
		done := func() bool {
			for _, t := range p.threads {
				if t != me && t.state != thDone {
					return false
				}
			}
			return true
		}
		if done() {
			return nil, ctlRet
		}
		p.block(me, done, "WaitAll")
		return nil, ctlBlock
	})
	z("ExpectPanic", func(c *callCtx) (Value, ctl) {
		c.p.expectPanic = true
		return nil, ctlRet
	})
	z("Note", func(c *callCtx) (Value, ctl) {
		c.p.note("%s", c.p.asStr(c.args[0]).s)
		return nil, ctlRet
	})
	z("Split", func(c *callCtx) (Value, ctl) {
		// no effect: its presence makes the enclosing arm impure, so the branch forks (and the solver
		// sees a plain path condition instead of an ite)
		return nil, ctlRet
	})
	z("IsComparable", func(c *callCtx) (Value, ctl) {
		iv := c.args[0].(IfaceV)
		return c.p.tc().Bool(iv.t == nil || types.Comparable(iv.t)), ctlRet
	})
	z("AsAssign", func(c *callCtx) (Value, ctl) {
		// errors.As core: does err's dynamic type fit *target's element type? if so assign.
		p := c.p
		err := c.args[0].(IfaceV)
		tgt := c.args[1].(IfaceV)
		if tgt.t == nil {
			p.goPanic(c.th, IfaceV{t: types.Typ[types.String], v: StrV{s: "errors: target cannot be nil"}})
			return nil, ctlPanicked
		}
		pt, ok := tgt.t.Underlying().(*types.Pointer)
		if !ok {
			p.goPanic(c.th, IfaceV{t: types.Typ[types.String], v: StrV{s: "errors: target must be a non-nil pointer"}})
			return nil, ctlPanicked
		}
		et := pt.Elem()
		if err.t == nil {
			return p.tc().False, ctlRet
		}
		if it, isI := et.Underlying().(*types.Interface); isI {
			if types.Implements(err.t, it) {
				p.h.store(p.asPtr(tgt.v), err)
				return p.tc().True, ctlRet
			}
			return p.tc().False, ctlRet
		}
		if types.Identical(err.t, et) {
			p.h.store(p.asPtr(tgt.v), err.v)
			return p.tc().True, ctlRet
		}
		return p.tc().False, ctlRet
	})
	z("GhostGet", func(c *callCtx) (Value, ctl) {
		key := "g:" + c.p.ghostKey(c.args[0]) + ":" + c.p.asStr(c.args[1]).s
		if v, ok := c.p.ghost[key]; ok {
			return v.(Value), ctlRet
		}
		return c.p.tc().BV(0, 64), ctlRet
	})
	z("GhostSet", func(c *callCtx) (Value, ctl) {
		key := "g:" + c.p.ghostKey(c.args[0]) + ":" + c.p.asStr(c.args[1]).s
		c.p.ghost[key] = c.args[2]
		return nil, ctlRet
	})
}

func (p *Path) ghostKey(v Value) string {
	iv, ok := v.(IfaceV)
	if !ok {
		panic(unsupportedf("ghost key %T", v))
	}
	if iv.t == nil {
		return "nil"
	}
	s, ok := keyString(iv.v)
	if !ok {
		panic(unsupportedf("symbolic ghost key"))
	}
	return s
}

func sanitize(s string) string {
	return strings.Map(func(r rune) rune {
		if r >= 'a' && r <= 'z' || r >= 'A' && r <= 'Z' || r >= '0' && r <= '9' || r == '_' {
			return r
		}
		return '_'
	}, s)
}

func (p *Path) newByteSliceNoMonitor(bs []*Term) SliceV {
	saved := p.maxAlloc
	s := p.newByteSlice(bs, nil)
	p.maxAlloc = saved
	return s
}
