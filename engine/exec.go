package main

import (
	"fmt"
	"go/token"
	"go/types"
	"sync"

	"golang.org/x/tools/go/packages"
	"golang.org/x/tools/go/ssa"
	"golang.org/x/tools/go/types/typeutil"
)

type endKind int

const (
	endDone endKind = iota
	endInfeasible
	endUnsupported
	endUnwind
	endCut // cut by a stated size bound (MaxLen)
	endBudget
	endStop // stop after violation with no passing side
)

var endNames = [...]string{"done", "infeasible", "unsupported", "unwind", "cut-by-bound", "budget", "stop"}

type pathEnd struct {
	kind endKind
	msg  string
}

func unsupportedf(f string, a ...interface{}) pathEnd {
	return pathEnd{endUnsupported, fmt.Sprintf(f, a...)}
}

// World is the immutable program shared by all workers.
type World struct {
	prog    *ssa.Program
	pkgs    []*packages.Package
	fset    *token.FileSet
	mu      sync.Mutex
	infos   map[*ssa.Function]*fnInfo
	zzPkg   *ssa.Package
	rtErr   types.Type // zzverif.RuntimeError
	rtypePtr types.Type // *reflect.rtype, the dynamic type of reflect.Type values
	byPath  map[string]*ssa.Package
	thorough bool
}

type fnInfo struct {
	slot  map[ssa.Value]int
	n     int
	name  string
	gname string // generic origin name, or ""
}

func (w *World) info(fn *ssa.Function) *fnInfo {
	w.mu.Lock()
	defer w.mu.Unlock()
	if fi, ok := w.infos[fn]; ok {
		return fi
	}
	fi := &fnInfo{slot: map[ssa.Value]int{}, name: fn.String()}
	if o := fn.Origin(); o != nil {
		fi.gname = o.String()
	}
	add := func(v ssa.Value) {
		fi.slot[v] = fi.n
		fi.n++
	}
	for _, p := range fn.Params {
		add(p)
	}
	for _, p := range fn.FreeVars {
		add(p)
	}
	for _, b := range fn.Blocks {
		for _, in := range b.Instrs {
			if v, ok := in.(ssa.Value); ok {
				add(v)
			}
		}
	}
	w.infos[fn] = fi
	return fi
}

// Worker owns a solver, a term table and the base heap layer (package-level state after init).
type Worker struct {
	w         *World
	id        int
	tc        *TermCtx
	sol       *Solver
	base      []*Object
	globals   map[*ssa.Global]ObjID
	pkgState  map[*ssa.Package]int
	initDepth int
	initPath  *Path
	canon     typeutil.Map
	msCache   map[string]*ssa.Function
	funcsSeen map[*ssa.Function]int64
	assertQueries int
	assertsSeen   int
	ifConverted   int
	uniq          map[string]ObjID
	solLevels     []int
	prevTaken     []int
}

type phase int

const (
	phNormal phase = iota
	phDefersPanic
)

type deferred struct {
	fn   FuncV
	args []Value
	// for invoke-mode defers, fn is already resolved
}

type Frame struct {
	fn        *ssa.Function
	info      *fnInfo
	env       []Value
	block     *ssa.BasicBlock
	prev      *ssa.BasicBlock
	ip        int
	defers    []deferred
	phase     phase
	panicking bool
	panicV    Value
	deferOf   *Frame // this frame runs a deferred call of deferOf
	retSlot   int    // slot in caller env (-1 none)
	onRet     func(Value)
	loops     map[ssa.Instruction]int
	isInit    bool
	locksAtEntry int
	native    bool // a native pseudo frame (only onRet matters)
}

type thState int

const (
	thRunnable thState = iota
	thBlocked
	thDone
)

type Thread struct {
	id       int
	frames   []*Frame
	state    thState
	wake     func() bool
	uncaught Value
	held     []string // mutex keys currently held (for lock-leak monitor)
	vc       []int
	name     string
	// sync operations executed since this thread was last switched away from (fairness, see schedPoint)
	syncSince int
}

func (th *Thread) top() *Frame { return th.frames[len(th.frames)-1] }

type inputRec struct {
	Name string `json:"name"`
	Kind string `json:"kind"`
	W    int    `json:"w"`
	term *Term
}

type Violation struct {
	Harness string            `json:"harness"`
	Kind    string            `json:"kind"` // assert, panic, deadlock, lock-leak, race, alloc
	Msg     string            `json:"msg"`
	Where   string            `json:"where"`
	Inputs  []inputVal        `json:"inputs"`
	Prefix  []int             `json:"decisions"`
	Stubbed bool              `json:"used_stubs"`
	Extra   map[string]string `json:"extra,omitempty"`
}

type inputVal struct {
	Name string `json:"name"`
	Kind string `json:"kind"`
	W    int    `json:"w"`
	Val  uint64 `json:"val"`
}

type decision struct {
	n      int
	chosen int
}

// Path is one execution of a harness along a decision prefix.
type Path struct {
	wk       *Worker
	h        *Heap
	spec     *harnessRun
	prefix   []int
	pos      int
	taken    []int
	newAlts  [][]int
	inputs   []inputRec
	threads  []*Thread
	cur      int
	replace  map[string]FuncV
	maxLen   int
	unwind   int
	steps    int64
	maxSteps int64
	reached  map[string]bool
	viols    []*Violation
	locks    map[string]*lockState
	ghost    map[string]Value
	allocCap int64
	maxDepth int // zz.MaxDepth: a call depth beyond it is reported as unbounded recursion
	eraser      bool
	eraserCells map[string]*cellState
	maxAlloc *Term
	usedStub bool
	unknownBranches int
	expectPanic bool
	recovered Value
	schedPoints int
	preempts  int
	maxPreempt int
	nofork    bool // init mode: symbolic forks are unsupported
	concreteModel map[string]uint64 // replay-in-engine: inputs take these values
	guards   map[string]string // object key -> mutex key that must be held
	pendingSched *Thread
	noteLines []string
	ufSeen   map[string]bool
	assumes  int
	sample   map[string]interface{}
	levelCount []int
	known    map[*Term]bool
}

func (p *Path) tc() *TermCtx { return p.wk.tc }

func (p *Path) note(f string, a ...interface{}) {
	if len(p.noteLines) < 50 {
		p.noteLines = append(p.noteLines, fmt.Sprintf(f, a...))
	}
}

// ---------- decisions ----------

// fork picks one of the mutually exclusive, jointly exhaustive conditions.
func (p *Path) fork(conds []*Term, what string) int {
	if len(p.known) > 0 {
		cs := make([]*Term, len(conds))
		for i, c := range conds {
			cs[i] = p.simp(c)
		}
		conds = cs
	}
	// constant pruning
	nonFalse := -1
	cnt := 0
	for i, c := range conds {
		if c.IsConst() && c.Val != 0 {
			return i
		}
		if !(c.IsConst() && c.Val == 0) {
			nonFalse = i
			cnt++
		}
	}
	if cnt == 0 {
		panic(pathEnd{endInfeasible, "no feasible alternative at " + what})
	}
	if cnt == 1 {
		// exhaustive by contract, so the single remaining one holds
		p.assertPC(conds[nonFalse])
		return nonFalse
	}
	if p.nofork {
		panic(unsupportedf("symbolic branch during package init (%s)", what))
	}
	if p.concreteModel != nil {
		memo := map[int]uint64{}
		for i, c := range conds {
			if c.Eval(p.concreteModel, memo) != 0 {
				p.pos++
				p.taken = append(p.taken, i)
				return i
			}
		}
		panic(pathEnd{endInfeasible, "replay model satisfies no alternative at " + what})
	}
	if p.pos < len(p.prefix) {
		d := p.prefix[p.pos]
		p.pos++
		p.taken = append(p.taken, d)
		p.assertPC(conds[d])
		return d
	}
	// new decision point: find feasible alternatives
	var feas []int
	for i, c := range conds {
		if c.IsConst() && c.Val == 0 {
			continue
		}
		// last candidate with none feasible so far must be feasible (PC is satisfiable)
		if len(feas) == 0 && i == len(conds)-1 {
			feas = append(feas, i)
			break
		}
		r := p.wk.sol.CheckWith(c, false)
		if r == Unknown {
			p.unknownBranches++
		}
		if r != Unsat {
			feas = append(feas, i)
		}
	}
	if len(feas) == 0 {
		panic(pathEnd{endInfeasible, "no feasible alternative at " + what})
	}
	base := append([]int(nil), p.taken...)
	for _, alt := range feas[1:] {
		np := append(append([]int(nil), base...), alt)
		p.newAlts = append(p.newAlts, np)
	}
	d := feas[0]
	p.pos++
	p.taken = append(p.taken, d)
	p.assertPC(conds[d])
	return d
}

// assertPC adds c to the path condition. Solver scopes are aligned with decision counts so that
// consecutive paths of a worker reuse the assertions of their common decision prefix: level k holds
// what was asserted while k decisions had been taken; an assertion that the previous path already
// made at the same position of the same level is not sent again.
func (p *Path) assertPC(c *Term) {
	if c.IsConst() {
		return
	}
	if p.concreteModel != nil {
		return
	}
	wk := p.wk
	if p.nofork {
		return
	}
	p.learn(c, true)
	lvl := len(p.taken)
	for len(p.levelCount) <= lvl {
		p.levelCount = append(p.levelCount, 0)
	}
	for len(wk.solLevels) <= lvl {
		wk.sol.Push()
		wk.solLevels = append(wk.solLevels, 0)
	}
	p.levelCount[lvl]++
	if p.levelCount[lvl] <= wk.solLevels[lvl] {
		return // already asserted by the previous path on the shared prefix
	}
	if lvl != len(wk.solLevels)-1 {
		// cannot happen: deeper levels were popped when this path started
		panic(unsupportedf("internal: solver scope mismatch (level %d of %d)", lvl, len(wk.solLevels)))
	}
	wk.sol.Assert(c)
	wk.solLevels[lvl]++
}

// learn records boolean atoms whose value is fixed by the path condition, so that later tests of the
// same atom neither fork nor reach the solver.
func (p *Path) learn(t *Term, val bool) {
	if p.known == nil {
		p.known = map[*Term]bool{}
	}
	switch t.Op {
	case OpConst:
		return
	case OpNot:
		p.learn(t.Args[0], !val)
		return
	case OpAnd:
		if val {
			p.learn(t.Args[0], true)
			p.learn(t.Args[1], true)
		}
	case OpOr:
		if !val {
			p.learn(t.Args[0], false)
			p.learn(t.Args[1], false)
		}
	}
	p.known[t] = val
}

// simp replaces a condition by its known value when the path condition fixes it syntactically.
func (p *Path) simp(t *Term) *Term {
	if t.IsConst() || len(p.known) == 0 {
		return t
	}
	if v, ok := p.known[t]; ok {
		return p.tc().Bool(v)
	}
	switch t.Op {
	case OpNot:
		if v, ok := p.known[t.Args[0]]; ok {
			return p.tc().Bool(!v)
		}
	case OpAnd:
		a, b := p.simp(t.Args[0]), p.simp(t.Args[1])
		if a != t.Args[0] || b != t.Args[1] {
			return p.tc().And(a, b)
		}
	case OpOr:
		a, b := p.simp(t.Args[0]), p.simp(t.Args[1])
		if a != t.Args[0] || b != t.Args[1] {
			return p.tc().Or(a, b)
		}
	}
	return t
}

// alignSolver pops the solver back to the scopes shared with the previous path of this worker.
func (wk *Worker) alignSolver(prefix []int) {
	common := 0
	for common < len(prefix) && common < len(wk.prevTaken) && prefix[common] == wk.prevTaken[common] {
		common++
	}
	// levels 0..common are shared (level k = assertions made while k decisions were taken)
	keep := common + 1
	if len(wk.solLevels) == 0 {
		wk.sol.Push()
		wk.solLevels = append(wk.solLevels, 0)
	}
	for len(wk.solLevels) > keep {
		wk.sol.Pop()
		wk.solLevels = wk.solLevels[:len(wk.solLevels)-1]
	}
}

// branch decides a boolean condition.
func (p *Path) branch(c *Term, what string) bool {
	if c.IsConst() {
		return c.Val != 0
	}
	return p.fork([]*Term{c, p.tc().Not(c)}, what) == 0
}

// chooseN forks over 0..n-1 without consulting the solver.
func (p *Path) chooseN(n int, what string) int {
	if n <= 0 {
		panic(pathEnd{endInfeasible, "choose(0) at " + what})
	}
	if n == 1 {
		return 0
	}
	if p.nofork {
		panic(unsupportedf("choice during package init (%s)", what))
	}
	if p.concreteModel != nil {
		// replay: decisions come from the recorded prefix
		if p.pos < len(p.prefix) {
			d := p.prefix[p.pos]
			p.pos++
			return d
		}
		return 0
	}
	if p.pos < len(p.prefix) {
		d := p.prefix[p.pos]
		p.pos++
		p.taken = append(p.taken, d)
		return d
	}
	base := append([]int(nil), p.taken...)
	for alt := 1; alt < n; alt++ {
		np := append(append([]int(nil), base...), alt)
		p.newAlts = append(p.newAlts, np)
	}
	p.pos++
	p.taken = append(p.taken, 0)
	return 0
}

// fresh declares a new symbolic input.
func (p *Path) fresh(kind string, w int) *Term {
	name := fmt.Sprintf("in%d_%s", len(p.inputs), kind)
	t := p.tc().Var(name, w)
	p.inputs = append(p.inputs, inputRec{Name: name, Kind: kind, W: w, term: t})
	return t
}

// concretize forks over the feasible values of t within [0,max].
func (p *Path) concretizeLen(t *Term, max int, what string) int {
	if t.IsConst() {
		return int(sext64(t.Val, t.W))
	}
	tc := p.tc()
	conds := make([]*Term, 0, max+2)
	for i := 0; i <= max; i++ {
		conds = append(conds, tc.Eq(t, tc.BV(uint64(i), t.W)))
	}
	// the rest: negative or > max
	rest := tc.Or(tc.Cmp(OpBvSlt, t, tc.BV(0, t.W)), tc.Cmp(OpBvSlt, tc.BV(uint64(max), t.W), t))
	conds = append(conds, rest)
	d := p.fork(conds, what)
	if d == max+1 {
		panic(pathEnd{endCut, fmt.Sprintf("%s: symbolic size outside [0,%d]", what, max)})
	}
	return d
}

// ---------- violations ----------

func (p *Path) modelInputs(model map[string]uint64) []inputVal {
	out := make([]inputVal, 0, len(p.inputs))
	for _, in := range p.inputs {
		out = append(out, inputVal{Name: in.Name, Kind: in.Kind, W: in.W, Val: model[in.Name]})
	}
	return out
}

func (p *Path) inputTerms() []*Term {
	ts := make([]*Term, len(p.inputs))
	for i, in := range p.inputs {
		ts[i] = in.term
	}
	return ts
}

func (p *Path) where() string {
	if len(p.threads) == 0 {
		return ""
	}
	th := p.threads[p.cur]
	s := ""
	for i := len(th.frames) - 1; i >= 0 && i >= len(th.frames)-6; i-- {
		fr := th.frames[i]
		if fr.native || fr.fn == nil {
			continue
		}
		pos := ""
		if fr.block != nil && fr.ip < len(fr.block.Instrs) {
			if ps := fr.block.Instrs[fr.ip].Pos(); ps.IsValid() {
				pp := p.wk.w.fset.Position(ps)
				pos = fmt.Sprintf(" %s:%d", shortFile(pp.Filename), pp.Line)
			}
		}
		s += fr.info.name + pos + " <- "
	}
	return s
}

func shortFile(f string) string {
	pre := repoDir + "/"
	if len(f) > len(pre) && f[:len(pre)] == pre {
		return f[len(pre):]
	}
	return f
}

// violationNow records a violation that holds on the whole current path (PC satisfiable).
func (p *Path) violationNow(kind, msg string) {
	if p.concreteModel != nil {
		p.viols = append(p.viols, &Violation{Kind: kind, Msg: msg, Where: p.where()})
		return
	}
	r, model := p.wk.sol.CheckModel(nil, false, p.inputTerms())
	if r == Unsat {
		panic(pathEnd{endInfeasible, "path became infeasible"})
	}
	if r == Unknown {
		p.unknownBranches++
		p.note("violation candidate (%s: %s) with unknown path feasibility", kind, msg)
		panic(pathEnd{endUnsupported, "solver unknown on violation path: " + msg})
	}
	p.viols = append(p.viols, &Violation{Kind: kind, Msg: msg, Where: p.where(), Inputs: p.modelInputs(model),
		Prefix: append([]int(nil), p.taken...), Stubbed: p.usedStub || len(p.threads) > 1})
}

// check asserts cond; a satisfiable negation is a violation. Execution continues on the passing side.
func (p *Path) check(cond *Term, kind, msg string) {
	cond = p.simp(cond)
	if cond.IsConst() {
		if cond.Val != 0 {
			return
		}
		p.violationNow(kind, msg)
		panic(pathEnd{endStop, "assertion is false on this path"})
	}
	if p.concreteModel != nil {
		if cond.Eval(p.concreteModel, map[int]uint64{}) == 0 {
			p.viols = append(p.viols, &Violation{Kind: kind, Msg: msg, Where: p.where()})
			panic(pathEnd{endStop, "assertion is false in replay"})
		}
		return
	}
	if lvl := len(p.taken); lvl < len(p.wk.solLevels) {
		done := 0
		if lvl < len(p.levelCount) {
			done = p.levelCount[lvl]
		}
		if p.wk.solLevels[lvl] > done {
			// this very assertion was already decided by the previous path on the shared prefix
			p.assertPC(cond)
			return
		}
	}
	p.wk.assertQueries++
	if p.spec.dumpDir != "" {
		p.spec.dumpQuery(p, cond)
	}
	r, model := p.wk.sol.CheckModel(cond, true, p.inputTerms())
	switch r {
	case Sat:
		p.viols = append(p.viols, &Violation{Kind: kind, Msg: msg, Where: p.where(), Inputs: p.modelInputs(model),
			Prefix: append([]int(nil), p.taken...), Stubbed: p.usedStub || len(p.threads) > 1})
		// continue on the passing side if there is one
		if p.wk.sol.CheckWith(cond, false) != Sat {
			panic(pathEnd{endStop, "assertion fails on the whole path"})
		}
		p.assertPC(cond)
	case Unsat:
		p.assertPC(cond)
	default:
		p.unknownBranches++
		panic(pathEnd{endUnsupported, "solver returned unknown for assertion: " + msg})
	}
}
