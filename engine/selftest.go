package main

import (
	"os"
	"path/filepath"
	"strconv"
	"strings"
)

// selftestCount reads the number of vectors that agreed between the engine and native execution in
// the last translator validation run (written by `gosym selftest`).
func selftestCount() int {
	b, err := os.ReadFile(filepath.Join(verifDir, "out", "selftest.count"))
	if err != nil {
		return 0
	}
	n, _ := strconv.Atoi(strings.TrimSpace(string(b)))
	return n
}
