package main

import (
	"encoding/json"
	"os"
	"path/filepath"
	"strings"
)

type knownFinding struct {
	Property string `json:"property"`
	Harness  string `json:"harness"`
	Kind     string `json:"kind"`
	Msg      string `json:"msg_contains"`
	Where    string `json:"where_contains"`
	What     string `json:"what"`
}

type knownFile struct {
	Findings []knownFinding `json:"findings"`
	Fixed    []string       `json:"fixed"`
}

func loadKnown() *knownFile {
	k := &knownFile{}
	b, err := os.ReadFile(filepath.Join(verifDir, "known_findings.json"))
	if err != nil {
		return k
	}
	json.Unmarshal(b, k)
	return k
}

// match returns the description of the listed finding that v is an instance of, or "".
func (k *knownFile) match(prop string, v *Violation) string {
	for _, f := range k.Findings {
		if f.Property != prop || f.Harness != v.Harness || f.Kind != v.Kind {
			continue
		}
		if f.Msg != "" && !strings.Contains(v.Msg, f.Msg) {
			continue
		}
		if f.Where != "" && !strings.Contains(v.Where, f.Where) {
			continue
		}
		return f.What
	}
	return ""
}
