package main

// A small model of package reflect: run-time types are boxes around go/types types (canonical per
// World), reflect.Value is a box around (type, engine value). Enough for reflect.TypeOf(x).Elem(),
// Kind(), String(), reflect.New(t).Interface(), reflect.ValueOf(x).Kind()/IsNil() - the uses in the
// packet registries, the packet pools and normalizeDisconnectReason.

import (
	"go/types"
	"sync"
)

type rtypeBox struct {
	t types.Type
}

type rvalueBox struct {
	t types.Type // nil: the zero Value
	v Value
}

var (
	rtypeMu    sync.Mutex
	rtypeBoxes = map[string]*rtypeBox{}
)

func fullTypeString(t types.Type) string {
	return types.TypeString(t, func(p *types.Package) string { return p.Path() })
}

func rtypeOf(t types.Type) *rtypeBox {
	k := fullTypeString(t)
	rtypeMu.Lock()
	defer rtypeMu.Unlock()
	if b, ok := rtypeBoxes[k]; ok {
		return b
	}
	b := &rtypeBox{t: t}
	rtypeBoxes[k] = b
	return b
}

// rtypeDyn is the dynamic type carried by reflect.Type interface values (*reflect.rtype).
func (w *World) rtypeDyn() types.Type {
	w.mu.Lock()
	defer w.mu.Unlock()
	if w.rtypePtr != nil {
		return w.rtypePtr
	}
	pkg := w.prog.ImportedPackage("reflect")
	if pkg == nil {
		pkg = w.prog.ImportedPackage("internal/reflectlite")
	}
	if pkg == nil {
		panic(unsupportedf("package reflect is not loaded"))
	}
	obj := pkg.Pkg.Scope().Lookup("rtype")
	if obj == nil {
		panic(unsupportedf("reflect.rtype not found"))
	}
	w.rtypePtr = types.NewPointer(obj.Type())
	return w.rtypePtr
}

func (p *Path) mkRType(t types.Type) Value {
	return IfaceV{t: p.wk.w.rtypeDyn(), v: NativeV{kind: "rtype", data: rtypeOf(t)}}
}

func reflectKind(t types.Type) uint64 {
	switch u := t.Underlying().(type) {
	case *types.Basic:
		switch u.Kind() {
		case types.Bool:
			return 1
		case types.Int:
			return 2
		case types.Int8:
			return 3
		case types.Int16:
			return 4
		case types.Int32:
			return 5
		case types.Int64:
			return 6
		case types.Uint:
			return 7
		case types.Uint8:
			return 8
		case types.Uint16:
			return 9
		case types.Uint32:
			return 10
		case types.Uint64:
			return 11
		case types.Uintptr:
			return 12
		case types.Float32:
			return 13
		case types.Float64:
			return 14
		case types.Complex64:
			return 15
		case types.Complex128:
			return 16
		case types.String:
			return 24
		case types.UnsafePointer:
			return 26
		}
	case *types.Array:
		return 17
	case *types.Chan:
		return 18
	case *types.Signature:
		return 19
	case *types.Interface:
		return 20
	case *types.Map:
		return 21
	case *types.Pointer:
		return 22
	case *types.Slice:
		return 23
	case *types.Struct:
		return 25
	}
	return 0
}

func rboxOf(v Value) *rtypeBox {
	switch x := v.(type) {
	case NativeV:
		if b, ok := x.data.(*rtypeBox); ok {
			return b
		}
	case IfaceV:
		return rboxOf(x.v)
	}
	panic(unsupportedf("reflect: not a run-time type: %T", v))
}

func rvalOf(v Value) *rvalueBox {
	if x, ok := v.(NativeV); ok {
		if b, ok := x.data.(*rvalueBox); ok {
			return b
		}
	}
	if _, ok := v.(*StructV); ok {
		return &rvalueBox{} // the zero reflect.Value
	}
	panic(unsupportedf("reflect: not a reflect.Value: %T", v))
}

func valueIsNil(v Value) (bool, bool) {
	switch x := v.(type) {
	case PtrV:
		return x.IsNil(), true
	case MapV:
		return x.id == 0, true
	case SliceV:
		return x.isNil, true
	case FuncV:
		return x.IsNil(), true
	case ChanV:
		return x.id == 0, true
	case IfaceV:
		return x.t == nil, true
	}
	return false, false
}

func init() {
	reg := func(h intrinsicFn, names ...string) {
		for _, n := range names {
			intrinsics[n] = h
		}
	}
	nat := func(name string, h intrinsicFn) { nativeFuncs["method:rtype."+name] = h }

	reg(func(c *callCtx) (Value, ctl) {
		iv, ok := c.args[0].(IfaceV)
		if !ok || iv.t == nil {
			return IfaceV{}, ctlRet
		}
		return c.p.mkRType(iv.t), ctlRet
	}, "reflect.TypeOf", "internal/reflectlite.TypeOf")
	reg(func(c *callCtx) (Value, ctl) {
		iv, ok := c.args[0].(IfaceV)
		if !ok || iv.t == nil {
			return NativeV{kind: "rvalue", data: &rvalueBox{}}, ctlRet
		}
		return NativeV{kind: "rvalue", data: &rvalueBox{t: iv.t, v: iv.v}}, ctlRet
	}, "reflect.ValueOf")
	reg(func(c *callCtx) (Value, ctl) {
		b := rboxOf(c.args[0])
		o := c.p.h.alloc(b.t, c.p.wk.zero(b.t), "reflect.New")
		return NativeV{kind: "rvalue", data: &rvalueBox{t: types.NewPointer(b.t), v: PtrV{id: o.id}}}, ctlRet
	}, "reflect.New")
	reg(func(c *callCtx) (Value, ctl) {
		b := rboxOf(c.args[0])
		return c.p.mkRType(types.NewPointer(b.t)), ctlRet
	}, "reflect.PointerTo", "reflect.PtrTo")

	// ---- reflect.Type methods (receiver = NativeV rtype) ----
	nat("String", func(c *callCtx) (Value, ctl) {
		b := rboxOf(c.args[0])
		return StrV{s: types.TypeString(b.t, func(p *types.Package) string { return p.Name() })}, ctlRet
	})
	nat("Name", func(c *callCtx) (Value, ctl) {
		b := rboxOf(c.args[0])
		switch t := b.t.(type) {
		case *types.Named:
			return StrV{s: t.Obj().Name()}, ctlRet
		case *types.Basic:
			return StrV{s: t.Name()}, ctlRet
		}
		return StrV{}, ctlRet
	})
	nat("PkgPath", func(c *callCtx) (Value, ctl) {
		b := rboxOf(c.args[0])
		if t, ok := b.t.(*types.Named); ok && t.Obj().Pkg() != nil {
			return StrV{s: t.Obj().Pkg().Path()}, ctlRet
		}
		return StrV{}, ctlRet
	})
	nat("Kind", func(c *callCtx) (Value, ctl) {
		return c.p.tc().BV(reflectKind(rboxOf(c.args[0]).t), 64), ctlRet
	})
	nat("Comparable", func(c *callCtx) (Value, ctl) {
		return c.p.tc().Bool(types.Comparable(rboxOf(c.args[0]).t)), ctlRet
	})
	nat("Elem", func(c *callCtx) (Value, ctl) {
		b := rboxOf(c.args[0])
		switch u := b.t.Underlying().(type) {
		case *types.Pointer:
			return c.p.mkRType(u.Elem()), ctlRet
		case *types.Slice:
			return c.p.mkRType(u.Elem()), ctlRet
		case *types.Array:
			return c.p.mkRType(u.Elem()), ctlRet
		case *types.Map:
			return c.p.mkRType(u.Elem()), ctlRet
		case *types.Chan:
			return c.p.mkRType(u.Elem()), ctlRet
		}
		c.p.goPanic(c.th, IfaceV{t: types.Typ[types.String], v: StrV{s: "reflect: Elem of invalid type " + b.t.String()}})
		return nil, ctlPanicked
	})
	nat("Implements", func(c *callCtx) (Value, ctl) {
		b := rboxOf(c.args[0])
		u := rboxOf(c.args[1])
		it, ok := u.t.Underlying().(*types.Interface)
		if !ok {
			c.p.goPanic(c.th, IfaceV{t: types.Typ[types.String], v: StrV{s: "reflect: non-interface type passed to Type.Implements"}})
			return nil, ctlPanicked
		}
		return c.p.tc().Bool(types.Implements(b.t, it)), ctlRet
	})
	nat("NumField", func(c *callCtx) (Value, ctl) {
		b := rboxOf(c.args[0])
		if st, ok := b.t.Underlying().(*types.Struct); ok {
			return c.p.tc().BV(uint64(st.NumFields()), 64), ctlRet
		}
		panic(unsupportedf("reflect: NumField of %s", b.t))
	})

	// ---- reflect.Value methods (static calls with a NativeV rvalue receiver) ----
	reg(func(c *callCtx) (Value, ctl) {
		b := rvalOf(c.args[0])
		if b.t == nil {
			c.p.goPanic(c.th, IfaceV{t: types.Typ[types.String], v: StrV{s: "reflect: call of reflect.Value.Interface on zero Value"}})
			return nil, ctlPanicked
		}
		if _, isI := b.t.Underlying().(*types.Interface); isI {
			return b.v, ctlRet
		}
		return IfaceV{t: b.t, v: b.v}, ctlRet
	}, "(reflect.Value).Interface")
	reg(func(c *callCtx) (Value, ctl) {
		b := rvalOf(c.args[0])
		if b.t == nil {
			return c.p.tc().BV(0, 64), ctlRet
		}
		return c.p.tc().BV(reflectKind(b.t), 64), ctlRet
	}, "(reflect.Value).Kind")
	reg(func(c *callCtx) (Value, ctl) {
		return c.p.tc().Bool(rvalOf(c.args[0]).t != nil), ctlRet
	}, "(reflect.Value).IsValid")
	reg(func(c *callCtx) (Value, ctl) {
		b := rvalOf(c.args[0])
		if b.t != nil {
			if isnil, ok := valueIsNil(b.v); ok {
				return c.p.tc().Bool(isnil), ctlRet
			}
		}
		c.p.goPanic(c.th, IfaceV{t: types.Typ[types.String], v: StrV{s: "reflect: call of reflect.Value.IsNil on a non-nillable Value"}})
		return nil, ctlPanicked
	}, "(reflect.Value).IsNil")
	reg(func(c *callCtx) (Value, ctl) {
		b := rvalOf(c.args[0])
		if b.t == nil {
			panic(unsupportedf("reflect: Type of zero Value"))
		}
		return c.p.mkRType(b.t), ctlRet
	}, "(reflect.Value).Type")
	reg(func(c *callCtx) (Value, ctl) {
		b := rvalOf(c.args[0])
		if b.t == nil {
			panic(unsupportedf("reflect: Elem of zero Value"))
		}
		switch u := b.t.Underlying().(type) {
		case *types.Pointer:
			ptr := c.p.asPtr(b.v)
			if ptr.IsNil() {
				return NativeV{kind: "rvalue", data: &rvalueBox{}}, ctlRet
			}
			return NativeV{kind: "rvalue", data: &rvalueBox{t: u.Elem(), v: c.p.h.load(ptr)}}, ctlRet
		case *types.Interface:
			iv := b.v.(IfaceV)
			if iv.t == nil {
				return NativeV{kind: "rvalue", data: &rvalueBox{}}, ctlRet
			}
			return NativeV{kind: "rvalue", data: &rvalueBox{t: iv.t, v: iv.v}}, ctlRet
		}
		panic(unsupportedf("reflect: Value.Elem of %s", b.t))
	}, "(reflect.Value).Elem")
}
