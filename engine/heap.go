package main

import (
	"fmt"
	"go/types"
)

type Object struct {
	id   ObjID
	root Value
	typ  types.Type
	site string
	size int // bytes requested (allocation monitor)
}

// Heap is the per-path view: the worker's frozen base layer plus path-local objects and
// copy-on-write clones of base objects.
type Heap struct {
	wk    *Worker
	local []*Object
	cow   map[ObjID]*Object
}

func newHeap(wk *Worker) *Heap { return &Heap{wk: wk, cow: map[ObjID]*Object{}} }

func (h *Heap) alloc(t types.Type, root Value, site string) *Object {
	if h.wk.initDepth > 0 {
		o := &Object{typ: t, root: root, site: site}
		h.wk.base = append(h.wk.base, o)
		o.id = ObjID(len(h.wk.base))
		return o
	}
	o := &Object{typ: t, root: root, site: site}
	h.local = append(h.local, o)
	o.id = -ObjID(len(h.local))
	return o
}

func (h *Heap) obj(id ObjID, write bool) *Object {
	if id == 0 {
		panic("nil object id")
	}
	if id < 0 {
		return h.local[-id-1]
	}
	if o, ok := h.cow[id]; ok {
		return o
	}
	o := h.wk.base[id-1]
	if write && h.wk.initDepth == 0 {
		n := &Object{id: o.id, typ: o.typ, site: o.site, root: copyVal(o.root)}
		h.cow[id] = n
		return n
	}
	return o
}

func elemOf(cur Value, i int) Value {
	switch c := cur.(type) {
	case *StructV:
		if i < 0 || i >= len(c.f) {
			panic(unsupportedf("field index %d out of %d", i, len(c.f)))
		}
		return c.f[i]
	case *ArrayV:
		if i < 0 || i >= len(c.e) {
			panic(unsupportedf("internal: array index %d out of %d", i, len(c.e)))
		}
		return c.e[i]
	case PoisonV:
		panic(unsupportedf("poisoned: %s", c.why))
	}
	panic(unsupportedf("navigate into %T", cur))
}

// stepElem follows one pointer path element; a view element yields an array aliasing part of the storage.
func stepElem(cur Value, e pelem) Value {
	if e.view > 0 {
		arr, ok := cur.(*ArrayV)
		if !ok || e.i+e.view > len(arr.e) {
			panic(unsupportedf("array view into %T", cur))
		}
		return &ArrayV{e: arr.e[e.i : e.i+e.view : e.i+e.view]}
	}
	return elemOf(cur, e.i)
}

func setElem(cur Value, i int, v Value) {
	switch c := cur.(type) {
	case *StructV:
		c.f[i] = v
		return
	case *ArrayV:
		if i < 0 || i >= len(c.e) {
			panic(unsupportedf("internal: array index %d out of %d", i, len(c.e)))
		}
		c.e[i] = v
		return
	case PoisonV:
		panic(unsupportedf("poisoned: %s", c.why))
	}
	panic(unsupportedf("navigate(set) into %T", cur))
}

func (h *Heap) load(p PtrV) Value {
	if p.IsNil() {
		panic("load of nil pointer must be checked by caller")
	}
	o := h.obj(p.id, false)
	cur := o.root
	for k, e := range p.path {
		if e.sym != nil {
			if k != len(p.path)-1 {
				panic(unsupportedf("symbolic index in the middle of a pointer path"))
			}
			arr, ok := cur.(*ArrayV)
			if !ok {
				panic(unsupportedf("symbolic index into %T", cur))
			}
			return h.wk.selectElem(arr.e, e.sym)
		}
		cur = stepElem(cur, e)
	}
	return copyVal(cur)
}

func (h *Heap) store(p PtrV, v Value) {
	if p.IsNil() {
		panic("store to nil pointer must be checked by caller")
	}
	v = copyVal(v)
	o := h.obj(p.id, true)
	if len(p.path) == 0 {
		o.root = v
		return
	}
	cur := o.root
	for _, e := range p.path[:len(p.path)-1] {
		if e.sym != nil {
			panic(unsupportedf("symbolic index in the middle of a pointer path"))
		}
		cur = stepElem(cur, e)
	}
	last := p.path[len(p.path)-1]
	if last.view > 0 {
		arr, ok := cur.(*ArrayV)
		src, ok2 := v.(*ArrayV)
		if !ok || !ok2 || len(src.e) != last.view {
			panic(unsupportedf("store through an array view of %T", cur))
		}
		copy(arr.e[last.i:last.i+last.view], src.e)
		return
	}
	if last.sym != nil {
		arr, ok := cur.(*ArrayV)
		if !ok {
			panic(unsupportedf("symbolic index store into %T", cur))
		}
		nv, ok := v.(*Term)
		if !ok {
			panic(unsupportedf("symbolic index store of %T", v))
		}
		tc := h.wk.tc
		for i := range arr.e {
			old, ok := arr.e[i].(*Term)
			if !ok {
				panic(unsupportedf("symbolic index store over %T", arr.e[i]))
			}
			arr.e[i] = tc.Ite(tc.Eq(last.sym, tc.BV(uint64(i), last.sym.W)), nv, old)
		}
		return
	}
	setElem(cur, last.i, v)
}

// selectElem builds ite(i==0,e0, ite(i==1,e1,...)).
func (wk *Worker) selectElem(es []Value, idx *Term) Value {
	tc := wk.tc
	if len(es) == 0 {
		panic(unsupportedf("select from empty array"))
	}
	var res *Term
	for i := len(es) - 1; i >= 0; i-- {
		t, ok := es[i].(*Term)
		if !ok {
			panic(unsupportedf("symbolic index load of %T", es[i]))
		}
		if res == nil {
			res = t
			continue
		}
		res = tc.Ite(tc.Eq(idx, tc.BV(uint64(i), idx.W)), t, res)
	}
	return res
}

func (h *Heap) mapData(m MapV, write bool) *MapData {
	o := h.obj(m.id, write)
	md, ok := o.root.(*MapData)
	if !ok {
		panic(unsupportedf("map object holds %T", o.root))
	}
	return md
}

func (h *Heap) chanData(c ChanV, write bool) *ChanData {
	o := h.obj(c.id, write)
	cd, ok := o.root.(*ChanData)
	if !ok {
		panic(unsupportedf("chan object holds %T", o.root))
	}
	return cd
}

func (o *Object) String() string { return fmt.Sprintf("obj%d(%s @%s)", o.id, o.typ, o.site) }
