package main

import (
	"fmt"
	"strings"
)

// keyString gives a canonical string for fully concrete comparable values.
func keyString(v Value) (string, bool) {
	switch x := v.(type) {
	case *Term:
		if x.IsConst() {
			return fmt.Sprintf("i%d:%x", x.W, x.Val), true
		}
		return "", false
	case StrV:
		if x.Concrete() {
			return "s:" + x.s, true
		}
		return "", false
	case PtrV:
		return "p:" + x.key(), true
	case IfaceV:
		if x.t == nil {
			return "I:nil", true
		}
		s, ok := keyString(x.v)
		return "I:" + x.t.String() + ":" + s, ok
	case *StructV:
		var sb strings.Builder
		sb.WriteByte('{')
		for _, f := range x.f {
			s, ok := keyString(f)
			if !ok {
				return "", false
			}
			sb.WriteString(s)
			sb.WriteByte(';')
		}
		sb.WriteByte('}')
		return sb.String(), true
	case *ArrayV:
		var sb strings.Builder
		sb.WriteByte('[')
		for _, f := range x.e {
			s, ok := keyString(f)
			if !ok {
				return "", false
			}
			sb.WriteString(s)
			sb.WriteByte(';')
		}
		sb.WriteByte(']')
		return sb.String(), true
	case MapV:
		return fmt.Sprintf("m:%d", x.id), true
	case ChanV:
		return fmt.Sprintf("c:%d", x.id), true
	case NativeV:
		return fmt.Sprintf("n:%s:%p", x.kind, x.data), true
	case PoisonV:
		panic(unsupportedf("poisoned: %s", x.why))
	}
	panic(unsupportedf("unhashable map key %T", v))
}

func identical(a, b Value) bool {
	switch x := a.(type) {
	case *Term:
		y, ok := b.(*Term)
		return ok && x == y
	case StrV:
		y, ok := b.(StrV)
		if !ok || x.Len() != y.Len() {
			return false
		}
		if x.Concrete() && y.Concrete() {
			return x.s == y.s
		}
		if x.Concrete() != y.Concrete() {
			return false
		}
		for i := range x.sym {
			if x.sym[i] != y.sym[i] {
				return false
			}
		}
		return true
	case *StructV:
		y, ok := b.(*StructV)
		if !ok || len(x.f) != len(y.f) {
			return false
		}
		for i := range x.f {
			if !identical(x.f[i], y.f[i]) {
				return false
			}
		}
		return true
	case *ArrayV:
		y, ok := b.(*ArrayV)
		if !ok || len(x.e) != len(y.e) {
			return false
		}
		for i := range x.e {
			if !identical(x.e[i], y.e[i]) {
				return false
			}
		}
		return true
	case IfaceV:
		y, ok := b.(IfaceV)
		if !ok {
			return false
		}
		if x.t == nil || y.t == nil {
			return x.t == nil && y.t == nil
		}
		return x.t.String() == y.t.String() && identical(x.v, y.v)
	}
	sa, oka := keyString(a)
	sb, okb := keyString(b)
	return oka && okb && sa == sb
}

func (md *MapData) nsym() int { return len(md.keys) - len(md.idx) }

// mapFind returns the position of the entry equal to k, forking on symbolic equality.
func (p *Path) mapFind(md *MapData, k Value) int {
	ks, conc := keyString(k)
	if conc {
		if i, ok := md.idx[ks]; ok {
			return i
		}
		if md.nsym() == 0 {
			return -1
		}
	}
	for i, ek := range md.keys {
		if conc {
			if _, c2 := keyString(ek); c2 {
				continue
			}
		}
		eq := p.equal(md.kt, ek, k)
		if p.branch(eq, "map key equal") {
			return i
		}
	}
	return -1
}

func (p *Path) mapGet(m MapV, k Value) (Value, bool) {
	md := p.h.mapData(m, false)
	i := p.mapFind(md, k)
	if i < 0 {
		return nil, false
	}
	return copyVal(md.vals[i]), true
}

func (p *Path) mapGetExact(m MapV, k Value) (Value, bool) {
	md := p.h.mapData(m, false)
	if ks, conc := keyString(k); conc {
		if i, ok := md.idx[ks]; ok {
			return copyVal(md.vals[i]), true
		}
		return nil, false
	}
	for i, ek := range md.keys {
		if identical(ek, k) {
			return copyVal(md.vals[i]), true
		}
	}
	return nil, false
}

func (p *Path) mapSet(m MapV, k, v Value) {
	md := p.h.mapData(m, true)
	i := p.mapFind(md, k)
	if i >= 0 {
		md.vals[i] = copyVal(v)
		return
	}
	md.keys = append(md.keys, copyVal(k))
	md.vals = append(md.vals, copyVal(v))
	if ks, conc := keyString(k); conc {
		md.idx[ks] = len(md.keys) - 1
	}
}

func (p *Path) mapDelete(m MapV, k Value) {
	md := p.h.mapData(m, true)
	i := p.mapFind(md, k)
	if i < 0 {
		return
	}
	md.keys = append(md.keys[:i:i], md.keys[i+1:]...)
	md.vals = append(md.vals[:i:i], md.vals[i+1:]...)
	md.idx = map[string]int{}
	for j, ek := range md.keys {
		if ks, conc := keyString(ek); conc {
			md.idx[ks] = j
		}
	}
}
