package main

import (
	"go/token"
	"go/types"
	"os"

	"golang.org/x/tools/go/ssa"
)

var noIfConv = os.Getenv("GOSYM_NOIFCONV") != ""

// tryIfConvert turns a branch whose arms are side-effect free and cannot panic (the shape of
// `a && b`, `a || b` and small value selections) into ite terms instead of forking the path.
// cur: if c goto T else F, where
//
//	(&&)      T is pure and jumps to F, F starts with phis
//	(||)      F is pure and jumps to T, T starts with phis
//	(diamond) T and F are pure and jump to the same block J starting with phis
func (p *Path) tryIfConvert(fr *Frame, c *Term) bool {
	cur := fr.block
	t, f := cur.Succs[0], cur.Succs[1]
	var join *ssa.BasicBlock
	var arms []*ssa.BasicBlock // arms to evaluate speculatively
	// predecessor blocks of join for (cond true, cond false)
	var predT, predF *ssa.BasicBlock
	switch {
	case pureArm(t, f) && len(t.Preds) == 1:
		join, arms, predT, predF = f, []*ssa.BasicBlock{t}, t, cur
	case pureArm(f, t) && len(f.Preds) == 1:
		join, arms, predT, predF = t, []*ssa.BasicBlock{f}, cur, f
	case len(t.Succs) == 1 && len(f.Succs) == 1 && t.Succs[0] == f.Succs[0] && pureArm(t, t.Succs[0]) && pureArm(f, f.Succs[0]) &&
		len(t.Preds) == 1 && len(f.Preds) == 1 && t != f:
		join, arms, predT, predF = t.Succs[0], []*ssa.BasicBlock{t, f}, t, f
	default:
		return false
	}
	if len(join.Instrs) == 0 {
		return false
	}
	// speculative evaluation of the arms (only writes SSA slots of the arms themselves)
	for _, arm := range arms {
		// the arm's own phis (single predecessor) just copy
		for _, in := range arm.Instrs[:len(arm.Instrs)-1] {
			if !p.evalPure(fr, in) {
				return false
			}
		}
	}
	idxOf := func(b *ssa.BasicBlock) int {
		for i, pr := range join.Preds {
			if pr == b {
				return i
			}
		}
		return -1
	}
	it, iff := idxOf(predT), idxOf(predF)
	if it < 0 || iff < 0 || it == iff {
		return false
	}
	tc := p.tc()
	var phis []*ssa.Phi
	var vals []Value
	for _, in := range join.Instrs {
		phi, ok := in.(*ssa.Phi)
		if !ok {
			break
		}
		vt, vf := p.get(fr, phi.Edges[it]), p.get(fr, phi.Edges[iff])
		var v Value
		at, ok1 := vt.(*Term)
		bt, ok2 := vf.(*Term)
		switch {
		case ok1 && ok2 && at.W == bt.W:
			v = tc.Ite(c, at, bt)
		case identical(vt, vf):
			v = vt
		default:
			return false
		}
		phis = append(phis, phi)
		vals = append(vals, v)
	}
	for i, phi := range phis {
		p.set(fr, phi, vals[i])
	}
	fr.prev = predT
	fr.block = join
	fr.ip = len(phis)
	p.wk.ifConverted++
	return true
}

// pureArm: every instruction of b but the last is side-effect free and cannot panic, and b jumps to next.
func pureArm(b, next *ssa.BasicBlock) bool {
	if len(b.Succs) != 1 || b.Succs[0] != next || len(b.Instrs) == 0 || len(b.Instrs) > 12 {
		return false
	}
	if _, ok := b.Instrs[len(b.Instrs)-1].(*ssa.Jump); !ok {
		return false
	}
	for _, in := range b.Instrs[:len(b.Instrs)-1] {
		switch x := in.(type) {
		case *ssa.DebugRef:
		case *ssa.BinOp:
			switch x.Op {
			case token.QUO, token.REM:
				return false
			case token.SHL, token.SHR:
				if _, signed, _ := isInt(x.Y.Type()); signed {
					if _, isConst := x.Y.(*ssa.Const); !isConst {
						return false
					}
				}
			case token.EQL, token.NEQ:
				// comparing interfaces may panic on uncomparable dynamic types
				if types.IsInterface(x.X.Type()) {
					return false
				}
			}
		case *ssa.UnOp:
			if x.Op == token.MUL || x.Op == token.ARROW {
				return false
			}
		case *ssa.Convert:
			if !isScalarType(x.X.Type()) || !isScalarType(x.Type()) {
				return false
			}
		case *ssa.ChangeType:
		case *ssa.Phi:
		default:
			return false
		}
	}
	return true
}

func (p *Path) evalPure(fr *Frame, in ssa.Instruction) bool {
	switch x := in.(type) {
	case *ssa.DebugRef:
		return true
	case *ssa.BinOp:
		xv, yv := p.get(fr, x.X), p.get(fr, x.Y)
		if _, ok := xv.(PoisonV); ok {
			return false
		}
		if _, ok := yv.(PoisonV); ok {
			return false
		}
		p.set(fr, x, p.binop(x.Op, x.X.Type(), x.Y.Type(), xv, yv))
		return true
	case *ssa.UnOp:
		p.set(fr, x, p.unop(x, p.get(fr, x.X)))
		return true
	case *ssa.Convert:
		p.set(fr, x, p.convert(x.X.Type(), x.Type(), p.get(fr, x.X)))
		return true
	case *ssa.ChangeType:
		p.set(fr, x, p.get(fr, x.X))
		return true
	case *ssa.Phi:
		if len(x.Edges) != 1 {
			return false
		}
		p.set(fr, x, p.get(fr, x.Edges[0]))
		return true
	}
	return false
}
