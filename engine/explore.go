package main

import (
	"fmt"
	"os"
	"path/filepath"
	"runtime/debug"
	"sort"
	"strings"
	"sync"
	"time"

	"golang.org/x/tools/go/ssa"
)

// harnessRun aggregates the exploration of one harness entry point.
type harnessRun struct {
	name     string
	fn       *ssa.Function
	isMutant bool
	expect   []string // Reach labels found in the harness source
	known    *knownFile
	prop     string

	mu         sync.Mutex
	paths      int
	ends       map[string]int
	endSamples map[string][]string
	viols      []*Violation
	violKeys   map[string]bool
	reached    map[string]bool
	unknowns   int
	notes      map[string]bool
	inputsMax  int
	samples    []map[string]interface{}
	stubbed    bool
	maxLoop    int
	assumes    int
	schedPts   int
	dumpDir    string
	dumped     int
	wall       time.Duration
	stepsTotal int64
}

func (h *harnessRun) dumpQuery(p *Path, cond *Term) {
	h.mu.Lock()
	n := h.dumped
	h.dumped++
	h.mu.Unlock()
	if n >= 400 {
		return
	}
	p.wk.sol.define(cond)
	script := p.wk.sol.Script(cond, true)
	os.MkdirAll(h.dumpDir, 0o755)
	os.WriteFile(filepath.Join(h.dumpDir, fmt.Sprintf("%s_q%04d.smt2", h.name, n)), []byte(script), 0o644)
}

func newWorker(w *World, id int, timeoutMs int) (*Worker, error) {
	name := os.Getenv("GOSYM_SOLVER")
	if name == "" {
		name = "z3-new" // z3 5.1.0: measured 25x faster than 4.8.12 on the ite-heavy byte queries
	}
	sol, err := NewSolver(name, timeoutMs)
	if err != nil {
		return nil, err
	}
	return &Worker{w: w, id: id, tc: NewTermCtx(), sol: sol, globals: map[*ssa.Global]ObjID{},
		pkgState: map[*ssa.Package]int{}, msCache: map[string]*ssa.Function{}, funcsSeen: map[*ssa.Function]int64{}}, nil
}

type pathResult struct {
	end     pathEnd
	newAlts [][]int
}

func (wk *Worker) runPath(h *harnessRun, prefix []int, model map[string]uint64) (res pathResult, p *Path) {
	p = &Path{wk: wk, spec: h, prefix: prefix, maxLen: 8, unwind: 64, maxSteps: 20_000_000,
		replace: map[string]FuncV{}, reached: map[string]bool{}, locks: map[string]*lockState{},
		ghost: map[string]Value{}, guards: map[string]string{}, maxPreempt: 2, concreteModel: model}
	p.h = newHeap(wk)
	wk.alignSolver(prefix)
	defer func() {
		wk.prevTaken = append([]int(nil), p.taken...)
		if r := recover(); r != nil {
			if pe, ok := r.(pathEnd); ok {
				if pe.kind == endUnsupported && !strings.Contains(pe.msg, " at ") {
					pe.msg += " at " + p.where()
				}
				res.end = pe
			} else {
				st := string(debug.Stack())
				// keep the frames of interest
				lines := strings.Split(st, "\n")
				if len(lines) > 24 {
					lines = lines[:24]
				}
				res.end = pathEnd{endUnsupported, fmt.Sprintf("engine panic: %v at %s\n%s", r, p.where(), strings.Join(lines, "\n"))}
			}
		}
		res.newAlts = p.newAlts
	}()
	th := p.newThread("main")
	th.frames = append(th.frames, &Frame{native: true, info: &fnInfo{name: "<harness>"}, retSlot: -1})
	p.callValue(th, FuncV{fn: h.fn}, nil, -1, func(Value) {
		th.frames = th.frames[:0]
		th.state = thDone
	}, nil)
	p.run()
	// end-of-harness monitors
	for _, t := range p.threads {
		for _, k := range t.held {
			l := p.locks[k]
			site := ""
			if l != nil {
				site = l.site
			}
			p.cur = 0
			p.violationNow("lock-leak", fmt.Sprintf("mutex %s acquired at %s is still held after the operation returned", k, site))
			break
		}
	}
	h.mu.Lock()
	want := len(h.samples) < 3
	h.mu.Unlock()
	if want && len(p.inputs) > 0 {
		r, model := p.wk.sol.CheckModel(nil, false, p.inputTerms())
		if r == Sat {
			s := map[string]interface{}{"harness": h.name, "decisions": append([]int(nil), p.taken...)}
			in := map[string]uint64{}
			for i, iv := range p.modelInputs(model) {
				if i >= 24 {
					break
				}
				in[iv.Name] = iv.Val
			}
			s["inputs"] = in
			var ls []string
			for l := range p.reached {
				ls = append(ls, l)
			}
			sort.Strings(ls)
			s["reached"] = ls
			p.sample = s
		}
	}
	res.end = pathEnd{endDone, ""}
	return
}

func (h *harnessRun) record(p *Path, res pathResult) {
	h.mu.Lock()
	defer h.mu.Unlock()
	h.paths++
	k := endNames[res.end.kind]
	h.ends[k]++
	if res.end.kind != endDone && res.end.kind != endInfeasible && len(h.endSamples[k]) < 5 {
		dup := false
		for _, s := range h.endSamples[k] {
			if s == res.end.msg {
				dup = true
			}
		}
		if !dup {
			h.endSamples[k] = append(h.endSamples[k], res.end.msg)
		}
	}
	for _, v := range p.viols {
		key := v.Kind + "|" + v.Msg
		if h.violKeys[key] {
			continue
		}
		h.violKeys[key] = true
		v.Harness = h.name
		h.viols = append(h.viols, v)
	}
	for l := range p.reached {
		h.reached[l] = true
	}
	h.unknowns += p.unknownBranches
	for _, n := range p.noteLines {
		h.notes[n] = true
	}
	if len(p.inputs) > h.inputsMax {
		h.inputsMax = len(p.inputs)
	}
	if p.usedStub {
		h.stubbed = true
	}
	h.assumes += p.assumes
	h.schedPts += p.schedPoints
	h.stepsTotal += p.steps
	if p.sample != nil && len(h.samples) < 3 {
		h.samples = append(h.samples, p.sample)
	}
}

var progress = os.Getenv("GOSYM_PROGRESS") != ""

// explore runs all paths of a harness with nworkers workers.
func explore(w *World, h *harnessRun, workers []*Worker, maxPaths int, deadline time.Time) {
	start := time.Now()
	h.ends = map[string]int{}
	h.endSamples = map[string][]string{}
	h.violKeys = map[string]bool{}
	h.reached = map[string]bool{}
	h.notes = map[string]bool{}
	for _, wk := range workers {
		for len(wk.solLevels) > 0 {
			wk.sol.Pop()
			wk.solLevels = wk.solLevels[:len(wk.solLevels)-1]
		}
		wk.prevTaken = nil
	}
	var mu sync.Mutex
	cond := sync.NewCond(&mu)
	work := [][]int{{}}
	active := 0
	stopped := false
	violAt := 0
	var wg sync.WaitGroup
	for _, wk := range workers {
		wk := wk
		wg.Add(1)
		go func() {
			defer wg.Done()
			for {
				mu.Lock()
				for len(work) == 0 && active > 0 && !stopped {
					cond.Wait()
				}
				if stopped || (len(work) == 0 && active == 0) {
					mu.Unlock()
					cond.Broadcast()
					return
				}
				pre := work[len(work)-1]
				work = work[:len(work)-1]
				active++
				mu.Unlock()

				res, p := wk.runPath(h, pre, nil)
				// record needs the solver scope of the path for witnesses, so it re-runs nothing: witnesses are taken inside runPath's scope
				h.record(p, res)

				mu.Lock()
				active--
				work = append(work, res.newAlts...)
				h.mu.Lock()
				np := h.paths
				h.mu.Unlock()
				if progress && np%200 == 0 {
					h.mu.Lock()
					fmt.Fprintf(os.Stderr, "[progress] %s paths=%d pending=%d ends=%v %.0fs\n", h.name, np, len(work), h.ends, time.Since(start).Seconds())
					h.mu.Unlock()
				}
				h.mu.Lock()
				nv := 0
				for _, v := range h.viols {
					// a listed known finding does not end the exploration early: a different
					// violation further on in the same harness must still be found
					if h.known == nil || h.known.match(h.prop, v) == "" {
						nv++
					}
				}
				h.mu.Unlock()
				if nv > 0 && !h.isMutant {
					if violAt == 0 {
						violAt = np
					}
					// the verdict is already "violated": look a little further for other kinds of
					// violation, then stop instead of enumerating the rest of the path space
					if np-violAt > 2000 {
						stopped = true
					}
				}
				if h.isMutant && nv > 0 {
					stopped = true // a control only has to be detected
				}
				if np >= maxPaths || time.Now().After(deadline) {
					if (len(work) > 0 || active > 0) && !stopped {
						h.mu.Lock()
						h.ends["budget"]++
						h.endSamples["budget"] = append(h.endSamples["budget"], fmt.Sprintf("exploration stopped after %d paths (%d prefixes pending)", np, len(work)))
						h.mu.Unlock()
					}
					stopped = true
				}
				mu.Unlock()
				cond.Broadcast()
			}
		}()
	}
	wg.Wait()
	h.wall = time.Since(start)
}

// expectedLabels scans a harness function (and its closures) for zzverif.Reach("...") calls.
func expectedLabels(fn *ssa.Function, seen map[*ssa.Function]bool, out map[string]bool) {
	if seen[fn] {
		return
	}
	seen[fn] = true
	for _, b := range fn.Blocks {
		for _, in := range b.Instrs {
			var cc *ssa.CallCommon
			switch x := in.(type) {
			case *ssa.Call:
				cc = &x.Call
			case *ssa.Defer:
				cc = &x.Call
			case *ssa.Go:
				cc = &x.Call
			case *ssa.MakeClosure:
				if f, ok := x.Fn.(*ssa.Function); ok {
					expectedLabels(f, seen, out)
				}
			}
			if cc == nil {
				continue
			}
			if f, ok := cc.Value.(*ssa.Function); ok {
				if f.Pkg != nil && f.Pkg.Pkg.Path() == zzPath && f.Name() == "Reach" {
					if c, ok := cc.Args[0].(*ssa.Const); ok {
						out[strings.Trim(c.Value.ExactString(), "\"")] = true
					}
				}
				// follow helper functions that live in harness files
				if f.Pkg == fn.Pkg && f.Pos().IsValid() && strings.Contains(fn.Prog.Fset.Position(f.Pos()).Filename, "zz_verif") {
					expectedLabels(f, seen, out)
				}
			}
		}
	}
	for _, af := range fn.AnonFuncs {
		expectedLabels(af, seen, out)
	}
}
