package main

import (
	"fmt"
	"os"

	"golang.org/x/tools/go/ssa"
)

var debugInit = os.Getenv("GOSYM_DEBUG_INIT") != ""

// ensureInit runs the package initializer of pkg concretely, writing into the worker's base layer.
// Initializers of imported packages are not run eagerly: they are triggered on first use.
func (wk *Worker) ensureInit(pkg *ssa.Package) {
	if wk.pkgState[pkg] != 0 {
		return
	}
	wk.pkgState[pkg] = 1
	defer func() { wk.pkgState[pkg] = 2 }()
	initFn := pkg.Func("init")
	if initFn == nil || len(initFn.Blocks) == 0 {
		return
	}
	ip := &Path{wk: wk, nofork: true, maxSteps: 200_000_000, unwind: 1 << 30, maxLen: 1 << 20,
		replace: map[string]FuncV{}, reached: map[string]bool{}, locks: map[string]*lockState{},
		ghost: map[string]Value{}, guards: map[string]string{}, spec: &harnessRun{}}
	ip.h = newHeap(wk)
	wk.initDepth++
	defer func() { wk.initDepth-- }()
	th := ip.newThread("init " + pkg.Pkg.Path())
	th.frames = append(th.frames, &Frame{native: true, info: &fnInfo{name: "<init>"}, retSlot: -1})
	done := false
	ip.callValue(th, FuncV{fn: initFn}, nil, -1, func(Value) { done = true; th.frames = th.frames[:0]; th.state = thDone }, nil)
	poisoned := 0
	for !done && th.state != thDone {
		err := ip.initStep(th)
		if err == nil {
			continue
		}
		poisoned++
		if debugInit {
			fmt.Fprintf(os.Stderr, "init %s: %s at %s\n", pkg.Pkg.Path(), err.msg, ip.where())
		}
		// unwind to the package init frame (index 1) and poison the current instruction
		if len(th.frames) < 2 {
			return
		}
		inCallee := len(th.frames) > 2
		th.frames = th.frames[:2]
		fr := th.top()
		fr.phase = phNormal
		fr.panicking = false
		if inCallee && fr.ip > 0 {
			// the call instruction already advanced ip when the callee frame was pushed
			if cv, ok := fr.block.Instrs[fr.ip-1].(ssa.Value); ok {
				ip.set(fr, cv, PoisonV{why: fmt.Sprintf("init of %s: %s", pkg.Pkg.Path(), err.msg)})
			}
			continue
		}
		if fr.ip >= len(fr.block.Instrs) {
			return
		}
		in := fr.block.Instrs[fr.ip]
		switch x := in.(type) {
		case *ssa.If, *ssa.Jump, *ssa.Return, *ssa.Panic:
			// cannot continue sensibly
			if debugInit {
				fmt.Fprintf(os.Stderr, "init %s: aborted at control instruction\n", pkg.Pkg.Path())
			}
			return
		case ssa.Value:
			ip.set(fr, x, PoisonV{why: fmt.Sprintf("init of %s: %s", pkg.Pkg.Path(), err.msg)})
			fr.ip++
		default:
			fr.ip++
		}
		if poisoned > 10000 {
			return
		}
	}
}

func (ip *Path) initStep(th *Thread) (err *pathEnd) {
	defer func() {
		if r := recover(); r != nil {
			if pe, ok := r.(pathEnd); ok {
				err = &pe
				return
			}
			err = &pathEnd{endUnsupported, fmt.Sprintf("engine panic: %v", r)}
		}
	}()
	// an init that called a function which left the frame in the caller having advanced ip: handled by callValue
	if th.state == thBlocked {
		return &pathEnd{endUnsupported, "init blocked"}
	}
	ip.stepThread(th)
	return nil
}
