package main

import (
	"encoding/json"
	"flag"
	"fmt"
	"go/token"
	"os"
	"path/filepath"
	"runtime"
	"runtime/pprof"
	"sort"
	"strconv"
	"strings"
	"time"

	"golang.org/x/tools/go/packages"
	"golang.org/x/tools/go/ssa"
	"golang.org/x/tools/go/ssa/ssautil"
)

// repoDir is the tree under verification: /repo, unless a trial run against a scratch copy with a seeded
// change applied points GOSYM_REPO elsewhere (registered checks never set it).
var repoDir = func() string {
	if d := os.Getenv("GOSYM_REPO"); d != "" {
		return d
	}
	return "/repo"
}()

var verifDir = "/verif"

// Spec is /verif/harness/<id>/spec.json.
type Spec struct {
	Property  string            `json:"property"`
	Packages  []string          `json:"packages"`  // package patterns relative to /repo
	Files     map[string]string `json:"files"`     // repo-relative virtual path -> file in the harness dir
	Bounds    map[string]string `json:"bounds"`    // human-readable statement of bounds (copied to evidence)
	Stubs     []string          `json:"stubs"`     // stubs/assumptions that are part of the claim
	Outside   []string          `json:"outside"`   // what lies outside the claim
	MaxPaths  int               `json:"max_paths"` // per harness
	QuickOnly []string          `json:"quick_only_harnesses"`
	Skip      map[string]string `json:"skip_in_quick"` // harness -> reason (only run in thorough)
	TimeoutS  int               `json:"timeout_s"`
	ThoroughTimeoutS int        `json:"thorough_timeout_s"`
	NativeReplay *bool          `json:"native_replay"`
}

func loadWorld(spec *Spec, hdir string, thorough bool) (*World, []*ssa.Function, error) {
	overlay := map[string][]byte{}
	shim, err := os.ReadFile(filepath.Join(verifDir, "shim", "zzverif_sym.go"))
	if err != nil {
		return nil, nil, err
	}
	overlay[filepath.Join(repoDir, "pkg/internal/zzverif/zzverif.go")] = shim
	for virt, real := range spec.Files {
		b, err := os.ReadFile(filepath.Join(hdir, real))
		if err != nil {
			return nil, nil, err
		}
		overlay[filepath.Join(repoDir, virt)] = b
	}
	fset := token.NewFileSet()
	cfg := &packages.Config{
		Mode: packages.NeedName | packages.NeedFiles | packages.NeedCompiledGoFiles | packages.NeedImports |
			packages.NeedDeps | packages.NeedTypes | packages.NeedSyntax | packages.NeedTypesInfo | packages.NeedTypesSizes | packages.NeedModule,
		Dir:     repoDir,
		Fset:    fset,
		Overlay: overlay,
		Env:     goEnv(),
	}
	patterns := append([]string{"./pkg/internal/zzverif"}, spec.Packages...)
	pkgs, err := packages.Load(cfg, patterns...)
	if err != nil {
		return nil, nil, err
	}
	var errs []string
	packages.Visit(pkgs, nil, func(p *packages.Package) {
		for _, e := range p.Errors {
			errs = append(errs, e.Error())
		}
	})
	if len(errs) > 0 {
		if len(errs) > 20 {
			errs = errs[:20]
		}
		return nil, nil, fmt.Errorf("package load errors:\n%s", strings.Join(errs, "\n"))
	}
	prog, spkgs := ssautil.AllPackages(pkgs, ssa.InstantiateGenerics)
	prog.Build()
	w := &World{prog: prog, pkgs: pkgs, fset: fset, infos: map[*ssa.Function]*fnInfo{}, byPath: map[string]*ssa.Package{}, thorough: thorough}
	var harnesses []*ssa.Function
	for _, sp := range spkgs {
		if sp == nil {
			continue
		}
		w.byPath[sp.Pkg.Path()] = sp
		if sp.Pkg.Path() == zzPath {
			w.zzPkg = sp
			if t := sp.Type("RuntimeError"); t != nil {
				w.rtErr = t.Type()
			}
			continue
		}
		var names []string
		for n := range sp.Members {
			names = append(names, n)
		}
		sort.Strings(names)
		for _, n := range names {
			if f, ok := sp.Members[n].(*ssa.Function); ok {
				if strings.HasPrefix(n, "VerifHarness_") || strings.HasPrefix(n, "VerifMutant_") {
					harnesses = append(harnesses, f)
				}
			}
		}
	}
	if w.zzPkg == nil {
		return nil, nil, fmt.Errorf("zzverif shim package not loaded")
	}
	return w, harnesses, nil
}

type harnessReport struct {
	Name       string              `json:"name"`
	Mutant     bool                `json:"negative_control"`
	Verdict    string              `json:"verdict"`
	Paths      int                 `json:"paths"`
	Ends       map[string]int      `json:"path_ends"`
	EndSamples map[string][]string `json:"inconclusive_reasons,omitempty"`
	Violations []*Violation        `json:"violations,omitempty"`
	Reached    []string            `json:"reached_labels"`
	Missing    []string            `json:"unreached_labels,omitempty"`
	Unknown    int                 `json:"solver_unknown_branches"`
	Notes      []string            `json:"notes,omitempty"`
	MaxInputs  int                 `json:"max_symbolic_inputs"`
	WallS      float64             `json:"wall_s"`
	Steps      int64               `json:"ssa_instructions_executed"`
	SchedPts   int                 `json:"schedule_points"`
}

func main() {
	if len(os.Args) < 2 {
		fmt.Fprintln(os.Stderr, "usage: gosym check -prop Cxx [-tier quick|thorough] | gosym selftest")
		os.Exit(2)
	}
	os.Setenv("PATH", "/opt/veriftools/go1.26.8/bin:"+os.Getenv("PATH"))
	os.Setenv("GOTOOLCHAIN", "local")
	os.Setenv("GOFLAGS", "-mod=mod")
	os.Setenv("GOPROXY", "off")
	os.Setenv("GOSUMDB", "off")
	if v := os.Getenv("VERIF_DIR"); v != "" {
		verifDir = v
	}
	if pf := os.Getenv("GOSYM_PROF"); pf != "" {
		f, _ := os.Create(pf)
		pprof.StartCPUProfile(f)
		defer pprof.StopCPUProfile()
	}
	switch os.Args[1] {
	case "check":
		code := cmdCheck(os.Args[2:])
		pprof.StopCPUProfile()
		os.Exit(code)
	case "replay":
		os.Exit(cmdReplay(os.Args[2:]))
	case "version":
		fmt.Println("gosym (go/ssa symbolic interpreter, SMT-decided)")
	case "check-old":
		os.Exit(cmdCheck(os.Args[2:]))
	default:
		fmt.Fprintln(os.Stderr, "unknown command", os.Args[1])
		os.Exit(2)
	}
}

func cmdCheck(args []string) int {
	fs := flag.NewFlagSet("check", flag.ExitOnError)
	prop := fs.String("prop", "", "property id")
	tier := fs.String("tier", "", "quick|thorough")
	only := fs.String("only", "", "run only harnesses whose name contains this")
	nw := fs.Int("workers", 0, "worker count")
	noEvidence := fs.Bool("no-evidence", false, "do not write the evidence file")
	hdirFlag := fs.String("hdir", "", "harness directory (default /verif/harness/<prop>)")
	verbose := fs.Bool("v", false, "verbose")
	fs.Parse(args)
	if os.Getenv("GOSYM_NO_EVIDENCE") != "" {
		*noEvidence = true
	}
	if *tier == "" {
		*tier = os.Getenv("VERIF_TIER")
	}
	if *tier == "" {
		*tier = "quick"
	}
	thorough := *tier == "thorough"
	seed, _ := strconv.Atoi(os.Getenv("VERIF_SEED"))
	start := time.Now()
	hdir := *hdirFlag
	if hdir == "" {
		hdir = filepath.Join(verifDir, "harness", *prop)
	}
	sb, err := os.ReadFile(filepath.Join(hdir, "spec.json"))
	if err != nil {
		fmt.Println("ENGINE-ERROR:", err)
		return 2
	}
	var spec Spec
	if err := json.Unmarshal(sb, &spec); err != nil {
		fmt.Println("ENGINE-ERROR: spec.json:", err)
		return 2
	}
	w, harnesses, err := loadWorld(&spec, hdir, thorough)
	if err != nil {
		fmt.Println("ENGINE-ERROR: cannot load /repo with the harness overlay (a harness no longer type-checks against the tree?):")
		fmt.Println(err)
		return 2
	}
	loadS := time.Since(start).Seconds()
	if *nw == 0 {
		*nw = runtime.NumCPU()
		if *nw > 16 {
			*nw = 16
		}
	}
	timeoutMs := 30000 // slowest quick-tier query measured on the unchanged tree: 4.5 s (C40)
	if thorough {
		timeoutMs = 120000
	}
	var workers []*Worker
	for i := 0; i < *nw; i++ {
		wk, err := newWorker(w, i, timeoutMs)
		if err != nil {
			fmt.Println("ENGINE-ERROR: solver:", err)
			return 2
		}
		workers = append(workers, wk)
	}
	defer func() {
		for _, wk := range workers {
			wk.sol.Close()
		}
	}()
	maxPaths := spec.MaxPaths
	if maxPaths == 0 {
		maxPaths = 200000
	}
	budget := time.Duration(spec.TimeoutS) * time.Second
	if budget == 0 {
		budget = 10 * time.Minute
	}
	if thorough {
		budget = time.Duration(spec.ThoroughTimeoutS) * time.Second
		if budget == 0 {
			budget = 40 * time.Minute
		}
	}
	known := loadKnown()
	var reports []*harnessReport
	exit := 0
	violCount := 0
	var violLines []string
	inconclusive := false
	broken := false
	ran := 0
	var samples []interface{}
	replays, replayedOK := 0, 0
	for _, hf := range harnesses {
		name := hf.Name()
		if *only != "" && !strings.Contains(name, *only) {
			continue
		}
		if !thorough {
			if _, skip := spec.Skip[name]; skip {
				continue
			}
		}
		ran++
		h := &harnessRun{name: name, fn: hf, isMutant: strings.HasPrefix(name, "VerifMutant_"), known: known, prop: *prop}
		if os.Getenv("GOSYM_DUMP") != "" {
			h.dumpDir = filepath.Join(verifDir, "out", *prop, "queries")
		}
		exp := map[string]bool{}
		expectedLabels(hf, map[*ssa.Function]bool{}, exp)
		for l := range exp {
			h.expect = append(h.expect, l)
		}
		sort.Strings(h.expect)
		explore(w, h, workers, maxPaths, time.Now().Add(budget))
		rep := &harnessReport{Name: name, Mutant: h.isMutant, Paths: h.paths, Ends: h.ends, EndSamples: h.endSamples,
			Violations: h.viols, Unknown: h.unknowns, MaxInputs: h.inputsMax, WallS: h.wall.Seconds(), Steps: h.stepsTotal, SchedPts: h.schedPts}
		for l := range h.reached {
			rep.Reached = append(rep.Reached, l)
		}
		sort.Strings(rep.Reached)
		for _, l := range h.expect {
			if !h.reached[l] {
				rep.Missing = append(rep.Missing, l)
			}
		}
		for n := range h.notes {
			rep.Notes = append(rep.Notes, n)
		}
		sort.Strings(rep.Notes)
		incon := h.ends["unsupported"]+h.ends["unwind"]+h.ends["budget"] > 0
		switch {
		case h.isMutant:
			if len(h.viols) > 0 {
				rep.Verdict = "control-detected"
			} else {
				rep.Verdict = "CONTROL-NOT-DETECTED"
				broken = true
			}
		case len(h.viols) > 0:
			rep.Verdict = "violated"
		case incon:
			rep.Verdict = "inconclusive"
			inconclusive = true
		case len(rep.Missing) > 0:
			rep.Verdict = "vacuous"
			inconclusive = true
		default:
			rep.Verdict = "holds-within-bounds"
		}
		reports = append(reports, rep)
		for _, s := range h.samples {
			if len(samples) < 8 {
				samples = append(samples, s)
			}
		}
		if *verbose || rep.Verdict != "holds-within-bounds" && rep.Verdict != "control-detected" {
			fmt.Printf("[%s] %s: %s paths=%d ends=%v wall=%.1fs\n", *prop, name, rep.Verdict, h.paths, h.ends, h.wall.Seconds())
			for k, v := range h.endSamples {
				for _, s := range v {
					fmt.Printf("    %s: %s\n", k, s)
				}
			}
			if len(rep.Missing) > 0 {
				fmt.Printf("    unreached labels: %v\n", rep.Missing)
			}
		} else {
			fmt.Printf("[%s] %s: %s paths=%d wall=%.1fs\n", *prop, name, rep.Verdict, h.paths, h.wall.Seconds())
		}
		if !h.isMutant {
			for i, v := range h.viols {
				kf := known.match(*prop, v)
				if kf != "" {
					fmt.Printf("KNOWN-FINDING: property=%s %s\n", *prop, kf)
					continue
				}
				rp := writeReplay(*prop, name, i, v)
				var oc replayOutcome
				if replays >= 3 || os.Getenv("GOSYM_NOREPLAY") != "" {
					oc = replayOutcome{status: "symbolic-only", detail: "native replay skipped (limit of 3 per run)"}
				} else {
					replays++
					oc = replayNative(w, &spec, hdir, *prop, hf.Pkg.Pkg.Path(), hf.Pkg.Pkg.Name(), name, v, rp)
				}
				v.Extra = map[string]string{"native_replay": oc.status, "native_replay_detail": oc.detail}
				writeReplay(*prop, name, i, v)
				fmt.Printf("  %s: %s [%s]\n    native replay: %s (%s)\n    at %s\n", v.Kind, v.Msg, name, oc.status, oc.detail, v.Where)
				if oc.status == "not-reproduced" {
					fmt.Printf("UNCONFIRMED property=%s harness=%s: the solver's counterexample did not reproduce natively; treated as inconclusive\n", *prop, name)
					inconclusive = true
					continue
				}
				if oc.reproduced {
					replayedOK++
				}
				violCount++
				line := fmt.Sprintf("VIOLATION property=%s replay=%s", *prop, rp)
				violLines = append(violLines, line)
			}
		}
	}
	if ran == 0 {
		fmt.Println("ENGINE-ERROR: no harness ran")
		return 2
	}
	// evidence
	wall := time.Since(start).Seconds()
	if !*noEvidence && *only == "" {
		writeEvidence(*prop, *tier, seed, &spec, w, workers, reports, samples, wall, loadS, violCount, replayedOK)
	}
	for _, l := range violLines {
		fmt.Println(l)
	}
	switch {
	case violCount > 0:
		exit = 1
	case broken:
		fmt.Println("ENGINE-ERROR: a negative control was not detected; the check is broken")
		exit = 2
	case inconclusive:
		fmt.Printf("INCONCLUSIVE property=%s (see reasons above)\n", *prop)
		exit = 3
	}
	if exit == 0 {
		fmt.Printf("OK property=%s tier=%s harnesses=%d wall=%.1fs\n", *prop, *tier, ran, wall)
	}
	return exit
}

func writeEvidence(prop, tier string, seed int, spec *Spec, w *World, workers []*Worker, reports []*harnessReport, samples []interface{}, wall, loadS float64, viol int, validated int) {
	paths, queries, asserts := 0, 0, 0
	var solverT float64
	funcs := map[string]int64{}
	for _, r := range reports {
		paths += r.Paths
	}
	unk := 0
	for _, wk := range workers {
		queries += wk.sol.Queries
		unk += wk.sol.UnkQ
		asserts += wk.assertQueries
		solverT += wk.sol.Time.Seconds()
		for f, n := range wk.funcsSeen {
			if f.Pkg != nil && strings.HasPrefix(f.Pkg.Pkg.Path(), "go.minekube.com/gate") && f.Pkg.Pkg.Path() != zzPath {
				if pos := f.Pos(); pos.IsValid() && strings.Contains(w.fset.Position(pos).Filename, "zz_verif") {
					continue
				}
				funcs[f.String()] += n
			}
		}
	}
	var fl []string
	for f := range funcs {
		fl = append(fl, f)
	}
	sort.Strings(fl)
	if len(samples) == 0 {
		samples = append(samples, map[string]interface{}{"note": "harnesses have no symbolic inputs on completed paths"})
	}
	var assumptions []string
	assumptions = append(assumptions, spec.Stubs...)
	for _, o := range spec.Outside {
		assumptions = append(assumptions, "outside the claim: "+o)
	}
	assumptions = append(assumptions, "engine: gosym (own go/ssa symbolic interpreter) is trusted; z3 5.1.0 (z3-new) is trusted, with z3 4.8.12 / cvc5 1.0 re-deciding queries it leaves unknown; Go semantics as modelled in /verif/DESIGN.md §2")
	ev := map[string]interface{}{
		"property_id": prop,
		"tier":        tier,
		"seed":        seed,
		"level":       "model_checking",
		"coverage": map[string]interface{}{
			"states":                        maxInt(paths, 1),
			"transitions":                   maxInt(queries, 1),
			"traces_validated_against_impl": validated + selftestCount(),
			"samples":                       samples,
			"explanation":                   "states = feasible symbolic paths explored to completion or cut; transitions = SMT queries decided (branch feasibility + assertion queries)",
			"functions_encoded":             fl,
			"bounds":                        spec.Bounds,
			"assertion_queries":             asserts,
			"solver_unknown":                unk,
			"solver_time_s":                 solverT,
			"load_time_s":                   loadS,
			"harnesses":                     reports,
			"exhaustive":                    false,
		},
		"assumptions": assumptions,
		"wall_s":      wall,
		"violations":  viol,
	}
	b, _ := json.MarshalIndent(ev, "", " ")
	os.MkdirAll(filepath.Join(verifDir, "evidence"), 0o755)
	os.WriteFile(filepath.Join(verifDir, "evidence", prop+".json"), b, 0o644)
}

func maxInt(a, b int) int {
	if a > b {
		return a
	}
	return b
}

func writeReplay(prop, harness string, i int, v *Violation) string {
	dir := filepath.Join(verifDir, "replays", prop)
	if d := os.Getenv("GOSYM_REPLAY_DIR"); d != "" { // trial runs against seeded changes keep their counterexamples out of /verif
		dir = filepath.Join(d, prop)
	}
	os.MkdirAll(dir, 0o755)
	p := filepath.Join(dir, fmt.Sprintf("%s-%d.json", harness, i))
	b, _ := json.MarshalIndent(v, "", " ")
	os.WriteFile(p, b, 0o644)
	return p
}

// goEnv is the environment for every go command the engine runs (offline, Go 1.26 toolchain).
func goEnv() []string {
	env := []string{}
	for _, e := range os.Environ() {
		if strings.HasPrefix(e, "PATH=") || strings.HasPrefix(e, "GOFLAGS=") || strings.HasPrefix(e, "GOTOOLCHAIN=") {
			continue
		}
		env = append(env, e)
	}
	return append(env, "PATH=/opt/veriftools/go1.26.8/bin:"+os.Getenv("PATH"), "GOFLAGS=-mod=mod", "GOPROXY=off", "GOSUMDB=off", "GOTOOLCHAIN=local", "CGO_ENABLED=0")
}
