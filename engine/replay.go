package main

// replayViolation re-executes the counterexample natively where the harness allows it.
func replayViolation(w *World, spec *Spec, hdir, prop, harness string, v *Violation, replayPath string) string {
	return "symbolic counterexample; native replay not run"
}
