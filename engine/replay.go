package main

import (
	"encoding/json"
	"fmt"
	"os"
	"os/exec"
	"path/filepath"
	"strings"
	"time"
)

const modulePath = "go.minekube.com/gate"

type replayOutcome struct {
	status     string // reproduced | symbolic-only | not-reproduced | error
	detail     string
	reproduced bool
	supported  bool
}

// replayNative compiles the harness with the native zzverif implementation and the real Go toolchain
// and runs it on the model's input values against the real package.
func replayNative(w *World, spec *Spec, hdir, prop string, pkgPath, pkgName, harness string, v *Violation, replayPath string) replayOutcome {
	if !strings.HasPrefix(pkgPath, modulePath) {
		return replayOutcome{status: "symbolic-only", detail: "harness package outside the module"}
	}
	rel := strings.TrimPrefix(strings.TrimPrefix(pkgPath, modulePath), "/")
	tmp := filepath.Join(verifDir, "out", "replay", fmt.Sprintf("%s-%s-%d", prop, harness, os.Getpid()))
	os.MkdirAll(tmp, 0o755)
	defer os.RemoveAll(tmp)
	testSrc := fmt.Sprintf("package %s\n\nimport (\n\t\"testing\"\n\n\tzz \"%s\"\n)\n\nfunc TestZZReplay(t *testing.T) { zz.Replay(%s) }\n", pkgName, zzPath, harness)
	testFile := filepath.Join(tmp, "replay_test.go")
	os.WriteFile(testFile, []byte(testSrc), 0o644)
	repl := map[string]string{
		filepath.Join(repoDir, "pkg/internal/zzverif/zzverif.go"): filepath.Join(verifDir, "shim", "zzverif_native.go"),
		filepath.Join(repoDir, rel, "zz_verif_replay_test.go"):    testFile,
	}
	for virt, real := range spec.Files {
		repl[filepath.Join(repoDir, virt)] = filepath.Join(hdir, real)
	}
	ob, _ := json.Marshal(map[string]interface{}{"Replace": repl})
	ofile := filepath.Join(tmp, "overlay.json")
	os.WriteFile(ofile, ob, 0o644)
	args := []string{"test", "-v", "-vet=off", "-count=1", "-run", "^TestZZReplay$", "-timeout", "120s", "-overlay", ofile, "./" + rel}
	cmd := exec.Command("go", args...)
	cmd.Dir = repoDir
	env := goEnv()
	env = append(env, "ZZ_REPLAY="+replayPath)
	if w.thorough {
		env = append(env, "ZZ_THOROUGH=1")
	}
	cmd.Env = env
	done := make(chan struct{})
	var out []byte
	var err error
	go func() { out, err = cmd.CombinedOutput(); close(done) }()
	select {
	case <-done:
	case <-time.After(240 * time.Second):
		cmd.Process.Kill()
		<-done
		return replayOutcome{status: "error", detail: "native replay timed out"}
	}
	text := string(out)
	res := ""
	for _, l := range strings.Split(text, "\n") {
		if strings.HasPrefix(l, "ZZ-RESULT: ") {
			res = strings.TrimPrefix(l, "ZZ-RESULT: ")
		}
	}
	if res == "" {
		// a crash of the test binary (fatal error, unrecovered panic in another goroutine, build failure)
		if strings.Contains(text, "fatal error:") || strings.Contains(text, "panic:") {
			first := ""
			for _, l := range strings.Split(text, "\n") {
				if strings.HasPrefix(l, "fatal error:") || strings.HasPrefix(l, "panic:") {
					first = l
					break
				}
			}
			if v.Kind == "panic" || v.Kind == "deadlock" || v.Kind == "race" {
				return replayOutcome{status: "reproduced", detail: "native run crashed: " + first, reproduced: true, supported: true}
			}
			return replayOutcome{status: "not-reproduced", detail: "native run crashed differently: " + first, supported: true}
		}
		_ = err
		tail := text
		if len(tail) > 600 {
			tail = tail[len(tail)-600:]
		}
		return replayOutcome{status: "error", detail: "native replay produced no result: " + tail}
	}
	switch {
	case strings.HasPrefix(res, "unsupported:"), strings.HasPrefix(res, "diverged:") && v.Stubbed:
		return replayOutcome{status: "symbolic-only", detail: res}
	case strings.HasPrefix(res, "assert-fail "):
		return replayOutcome{status: "reproduced", detail: "native assertion failed: " + strings.TrimPrefix(res, "assert-fail "), reproduced: true, supported: true}
	case strings.HasPrefix(res, "panic "):
		if v.Kind == "panic" || v.Kind == "assert" {
			return replayOutcome{status: "reproduced", detail: "native " + res, reproduced: true, supported: true}
		}
		return replayOutcome{status: "not-reproduced", detail: "native " + res, supported: true}
	case strings.HasPrefix(res, "timeout"):
		if v.Kind == "deadlock" || v.Kind == "lock-leak" {
			return replayOutcome{status: "reproduced", detail: "native run did not return (deadlock)", reproduced: true, supported: true}
		}
		return replayOutcome{status: "not-reproduced", detail: "native run hung", supported: true}
	case res == "ok":
		if v.Kind == "lock-leak" || v.Kind == "race" || v.Kind == "alloc" {
			return replayOutcome{status: "symbolic-only", detail: "the " + v.Kind + " monitor has no native observable in this harness"}
		}
		return replayOutcome{status: "not-reproduced", detail: "native run passed", supported: true}
	}
	return replayOutcome{status: "not-reproduced", detail: res, supported: true}
}

// cmdReplay is `gosym replay <replay.json>`: runs the recorded counterexample natively (go test
// -overlay against /repo's current tree). Exit 1 with a VIOLATION line when it reproduces, 0 when
// the current tree passes it, 2 on error.
func cmdReplay(args []string) int {
	if len(args) != 1 {
		fmt.Fprintln(os.Stderr, "usage: gosym replay /verif/replays/<prop>/<harness>-<n>.json")
		return 2
	}
	path, err := filepath.Abs(args[0])
	if err != nil {
		fmt.Println("ENGINE-ERROR:", err)
		return 2
	}
	b, err := os.ReadFile(path)
	if err != nil {
		fmt.Println("ENGINE-ERROR:", err)
		return 2
	}
	var v Violation
	if err := json.Unmarshal(b, &v); err != nil || v.Harness == "" {
		fmt.Println("ENGINE-ERROR: not a replay file:", path)
		return 2
	}
	prop := filepath.Base(filepath.Dir(path))
	hdir := filepath.Join(verifDir, "harness", prop)
	sb, err := os.ReadFile(filepath.Join(hdir, "spec.json"))
	if err != nil {
		fmt.Println("ENGINE-ERROR:", err)
		return 2
	}
	var spec Spec
	if err := json.Unmarshal(sb, &spec); err != nil {
		fmt.Println("ENGINE-ERROR: spec.json:", err)
		return 2
	}
	// the harness file that defines the entry point gives the package
	pkgPath, pkgName := "", ""
	for virt, real := range spec.Files {
		src, err := os.ReadFile(filepath.Join(hdir, real))
		if err != nil || !strings.Contains(string(src), "func "+v.Harness+"(") {
			continue
		}
		pkgPath = modulePath + "/" + filepath.ToSlash(filepath.Dir(virt))
		for _, l := range strings.Split(string(src), "\n") {
			if strings.HasPrefix(l, "package ") {
				pkgName = strings.TrimSpace(strings.TrimPrefix(l, "package "))
				break
			}
		}
	}
	if pkgPath == "" || pkgName == "" {
		fmt.Printf("ENGINE-ERROR: harness %s not found in %s\n", v.Harness, hdir)
		return 2
	}
	w := &World{thorough: os.Getenv("VERIF_TIER") == "thorough"}
	oc := replayNative(w, &spec, hdir, prop, pkgPath, pkgName, v.Harness, &v, path)
	fmt.Printf("replay %s [%s: %s]\n  native replay: %s (%s)\n", path, v.Kind, v.Msg, oc.status, oc.detail)
	switch {
	case oc.reproduced:
		fmt.Printf("VIOLATION property=%s replay=%s\n", prop, path)
		return 1
	case oc.status == "not-reproduced":
		fmt.Println("OK: the recorded counterexample does not fail on the current tree")
		return 0
	}
	return 2
}
