package main

import (
	"encoding/json"
	"fmt"
	"os"
	"os/exec"
	"path/filepath"
	"strings"
	"time"
)

const modulePath = "go.minekube.com/gate"

type replayOutcome struct {
	status     string // reproduced | symbolic-only | not-reproduced | error
	detail     string
	reproduced bool
	supported  bool
}

// replayNative compiles the harness with the native zzverif implementation and the real Go toolchain
// and runs it on the model's input values against the real package.
func replayNative(w *World, spec *Spec, hdir, prop string, pkgPath, pkgName, harness string, v *Violation, replayPath string) replayOutcome {
	if !strings.HasPrefix(pkgPath, modulePath) {
		return replayOutcome{status: "symbolic-only", detail: "harness package outside the module"}
	}
	rel := strings.TrimPrefix(strings.TrimPrefix(pkgPath, modulePath), "/")
	tmp := filepath.Join(verifDir, "out", "replay", fmt.Sprintf("%s-%s-%d", prop, harness, os.Getpid()))
	os.MkdirAll(tmp, 0o755)
	defer os.RemoveAll(tmp)
	testSrc := fmt.Sprintf("package %s\n\nimport (\n\t\"testing\"\n\n\tzz \"%s\"\n)\n\nfunc TestZZReplay(t *testing.T) { zz.Replay(%s) }\n", pkgName, zzPath, harness)
	testFile := filepath.Join(tmp, "replay_test.go")
	os.WriteFile(testFile, []byte(testSrc), 0o644)
	repl := map[string]string{
		filepath.Join(repoDir, "pkg/internal/zzverif/zzverif.go"): filepath.Join(verifDir, "shim", "zzverif_native.go"),
		filepath.Join(repoDir, rel, "zz_verif_replay_test.go"):    testFile,
	}
	for virt, real := range spec.Files {
		repl[filepath.Join(repoDir, virt)] = filepath.Join(hdir, real)
	}
	ob, _ := json.Marshal(map[string]interface{}{"Replace": repl})
	ofile := filepath.Join(tmp, "overlay.json")
	os.WriteFile(ofile, ob, 0o644)
	args := []string{"test", "-v", "-vet=off", "-count=1", "-run", "^TestZZReplay$", "-timeout", "120s", "-overlay", ofile, "./" + rel}
	cmd := exec.Command("go", args...)
	cmd.Dir = repoDir
	env := goEnv()
	env = append(env, "ZZ_REPLAY="+replayPath)
	if w.thorough {
		env = append(env, "ZZ_THOROUGH=1")
	}
	cmd.Env = env
	done := make(chan struct{})
	var out []byte
	var err error
	go func() { out, err = cmd.CombinedOutput(); close(done) }()
	select {
	case <-done:
	case <-time.After(240 * time.Second):
		cmd.Process.Kill()
		<-done
		return replayOutcome{status: "error", detail: "native replay timed out"}
	}
	text := string(out)
	res := ""
	for _, l := range strings.Split(text, "\n") {
		if strings.HasPrefix(l, "ZZ-RESULT: ") {
			res = strings.TrimPrefix(l, "ZZ-RESULT: ")
		}
	}
	if res == "" {
		// a crash of the test binary (fatal error, unrecovered panic in another goroutine, build failure)
		if strings.Contains(text, "fatal error:") || strings.Contains(text, "panic:") {
			first := ""
			for _, l := range strings.Split(text, "\n") {
				if strings.HasPrefix(l, "fatal error:") || strings.HasPrefix(l, "panic:") {
					first = l
					break
				}
			}
			if v.Kind == "panic" || v.Kind == "deadlock" || v.Kind == "race" {
				return replayOutcome{status: "reproduced", detail: "native run crashed: " + first, reproduced: true, supported: true}
			}
			return replayOutcome{status: "not-reproduced", detail: "native run crashed differently: " + first, supported: true}
		}
		_ = err
		tail := text
		if len(tail) > 600 {
			tail = tail[len(tail)-600:]
		}
		return replayOutcome{status: "error", detail: "native replay produced no result: " + tail}
	}
	switch {
	case strings.HasPrefix(res, "unsupported:"), strings.HasPrefix(res, "diverged:") && v.Stubbed:
		return replayOutcome{status: "symbolic-only", detail: res}
	case strings.HasPrefix(res, "assert-fail "):
		return replayOutcome{status: "reproduced", detail: "native assertion failed: " + strings.TrimPrefix(res, "assert-fail "), reproduced: true, supported: true}
	case strings.HasPrefix(res, "panic "):
		if v.Kind == "panic" || v.Kind == "assert" {
			return replayOutcome{status: "reproduced", detail: "native " + res, reproduced: true, supported: true}
		}
		return replayOutcome{status: "not-reproduced", detail: "native " + res, supported: true}
	case strings.HasPrefix(res, "timeout"):
		if v.Kind == "deadlock" || v.Kind == "lock-leak" {
			return replayOutcome{status: "reproduced", detail: "native run did not return (deadlock)", reproduced: true, supported: true}
		}
		return replayOutcome{status: "not-reproduced", detail: "native run hung", supported: true}
	case res == "ok":
		if v.Kind == "lock-leak" || v.Kind == "race" || v.Kind == "alloc" {
			return replayOutcome{status: "symbolic-only", detail: "the " + v.Kind + " monitor has no native observable in this harness"}
		}
		return replayOutcome{status: "not-reproduced", detail: "native run passed", supported: true}
	}
	return replayOutcome{status: "not-reproduced", detail: res, supported: true}
}
