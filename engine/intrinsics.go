package main

import (
	"fmt"
	"go/token"
	"go/types"
	"math"
	"strings"

	"golang.org/x/tools/go/ssa"
)

const tokenLSS = token.LSS

var intrinsics = map[string]intrinsicFn{}
var nativeFuncs = map[string]intrinsicFn{}

// goModels maps a function of the program to a Go-bodied model in the zzverif shim package.
var goModels = map[string]string{
	"errors.Is":                          "ModelErrorsIs",
	"errors.As":                          "ModelErrorsAs",
	"internal/bytealg.IndexByte":         "ModelIndexByte",
	"internal/bytealg.IndexByteString":   "ModelIndexByteString",
	"internal/bytealg.Count":             "ModelCount",
	"internal/bytealg.CountString":       "ModelCountString",
	"internal/bytealg.Compare":           "ModelCompare",
	"internal/bytealg.Index":             "ModelIndex",
	"internal/bytealg.IndexString":       "ModelIndexString",
	"internal/bytealg.LastIndexByte":     "ModelLastIndexByte",
	"internal/bytealg.LastIndexByteString": "ModelLastIndexByteString",
	"internal/stringslite.Index":         "ModelIndexString",
	"bytes.Equal":                        "ModelBytesEqual",
	"strings.Index":                      "ModelIndexString",
	"bytes.Index":                        "ModelIndex",
	"(*sync.Once).Do":                    "ModelOnceDo",
	"(*sync.Cond).Wait":                  "ModelCondWait",
	"(*sync.Cond).Signal":                "ModelCondNotify",
	"(*sync.Cond).Broadcast":             "ModelCondNotify",
	"(*sync.Map).Load":                   "ModelSyncMapLoad",
	"(*sync.Map).Store":                  "ModelSyncMapStore",
	"(*sync.Map).LoadOrStore":            "ModelSyncMapLoadOrStore",
	"(*sync.Map).LoadAndDelete":          "ModelSyncMapLoadAndDelete",
	"(*sync.Map).Delete":                 "ModelSyncMapDelete",
	"(*sync.Map).Swap":                   "ModelSyncMapSwap",
	"(*sync.Map).Range":                  "ModelSyncMapRange",
	"(*sync.Map).Clear":                  "ModelSyncMapClear",
	"(*sync.Map).CompareAndDelete":       "ModelSyncMapCompareAndDelete",
	"(*sync.Map).CompareAndSwap":         "ModelSyncMapCompareAndSwap",
	"(*sync.Pool).Get":                   "ModelPoolGet",
	"(*sync.Pool).Put":                   "ModelPoolPut",
	"crypto/subtle.ConstantTimeCompare":  "ModelConstantTimeCompare",
	"crypto/subtle.XORBytes":             "ModelXORBytes",
	"crypto/internal/fips140/subtle.XORBytes": "ModelXORBytes",
}

func goModel(w *World, fi *fnInfo) *ssa.Function {
	name, ok := goModels[fi.name]
	if !ok && fi.gname != "" {
		name, ok = goModels[fi.gname]
	}
	if !ok || w.zzPkg == nil {
		return nil
	}
	return w.zzPkg.Func(name)
}

func lookupIntrinsic(fi *fnInfo) intrinsicFn {
	if h, ok := intrinsics[fi.name]; ok {
		return h
	}
	if fi.gname != "" {
		if h, ok := intrinsics[fi.gname]; ok {
			return h
		}
	}
	if strings.IndexByte(fi.name, '[') >= 0 {
		if h, ok := intrinsics[trimGeneric(fi.name)]; ok {
			return h
		}
	}
	return nil
}

func chanElem(t types.Type) types.Type { return t.Underlying().(*types.Chan).Elem() }

func retNil(c *callCtx) (Value, ctl) { return nil, ctlRet }

func init() {
	reg := func(h intrinsicFn, names ...string) {
		for _, n := range names {
			intrinsics[n] = h
		}
	}
	// ---- sync ----
	reg(func(c *callCtx) (Value, ctl) {
		v, k := c.p.muLock(c, true, false)
		if k == ctlRet {
			c.p.schedPointAfter(c)
		}
		return v, k
	}, "(*sync.Mutex).Lock", "(*sync.RWMutex).Lock")
	reg(func(c *callCtx) (Value, ctl) { return c.p.muLock(c, true, true) }, "(*sync.Mutex).TryLock", "(*sync.RWMutex).TryLock")
	reg(func(c *callCtx) (Value, ctl) {
		v, k := c.p.muLock(c, false, false)
		if k == ctlRet {
			c.p.schedPointAfter(c)
		}
		return v, k
	}, "(*sync.RWMutex).RLock")
	reg(func(c *callCtx) (Value, ctl) { return c.p.muLock(c, false, true) }, "(*sync.RWMutex).TryRLock")
	reg(func(c *callCtx) (Value, ctl) {
		v, k := c.p.muUnlock(c, true)
		if k == ctlRet {
			c.p.schedPointAfter(c)
		}
		return v, k
	}, "(*sync.Mutex).Unlock", "(*sync.RWMutex).Unlock")
	reg(func(c *callCtx) (Value, ctl) {
		v, k := c.p.muUnlock(c, false)
		if k == ctlRet {
			c.p.schedPointAfter(c)
		}
		return v, k
	}, "(*sync.RWMutex).RUnlock")
	// WaitGroup
	reg(func(c *callCtx) (Value, ctl) {
		key := "wg:" + c.p.asPtr(c.args[0]).key()
		cur, _ := c.p.ghost[key].(int)
		d := c.p.asTerm(c.args[1])
		if !d.IsConst() {
			panic(unsupportedf("WaitGroup.Add with symbolic delta"))
		}
		cur += int(sext64(d.Val, d.W))
		if cur < 0 {
			c.p.goPanic(c.th, IfaceV{t: types.Typ[types.String], v: StrV{s: "sync: negative WaitGroup counter"}})
			return nil, ctlPanicked
		}
		c.p.ghost[key] = cur
		return nil, ctlRet
	}, "(*sync.WaitGroup).Add")
	reg(func(c *callCtx) (Value, ctl) {
		key := "wg:" + c.p.asPtr(c.args[0]).key()
		cur, _ := c.p.ghost[key].(int)
		cur--
		if cur < 0 {
			c.p.goPanic(c.th, IfaceV{t: types.Typ[types.String], v: StrV{s: "sync: negative WaitGroup counter"}})
			return nil, ctlPanicked
		}
		c.p.ghost[key] = cur
		c.p.schedPointAfter(c)
		return nil, ctlRet
	}, "(*sync.WaitGroup).Done")
	reg(func(c *callCtx) (Value, ctl) {
		key := "wg:" + c.p.asPtr(c.args[0]).key()
		p := c.p
		if cur, _ := p.ghost[key].(int); cur > 0 {
			p.block(c.th, func() bool { n, _ := p.ghost[key].(int); return n == 0 }, "waitgroup")
			return nil, ctlBlock
		}
		return nil, ctlRet
	}, "(*sync.WaitGroup).Wait")
	reg(func(c *callCtx) (Value, ctl) {
		// wg.Go(f): Add(1); go func(){ defer Done(); f() }
		key := "wg:" + c.p.asPtr(c.args[0]).key()
		cur, _ := c.p.ghost[key].(int)
		c.p.ghost[key] = cur + 1
		p := c.p
		f := c.args[1].(FuncV)
		th := p.newThread("wg.Go")
		th.frames = append(th.frames, &Frame{native: true, info: &fnInfo{name: "<goroutine>"}, retSlot: -1})
		saved := p.cur
		p.cur = th.id
		p.callValue(th, f, nil, -1, func(Value) {
			n, _ := p.ghost[key].(int)
			p.ghost[key] = n - 1
			th.frames = th.frames[:0]
			th.state = thDone
		}, nil)
		p.cur = saved
		return nil, ctlRet
	}, "(*sync.WaitGroup).Go")

	// ---- atomics (functions; typed wrappers call these) ----
	for _, ty := range []string{"Int32", "Int64", "Uint32", "Uint64", "Uintptr"} {
		ty := ty
		reg(func(c *callCtx) (Value, ctl) {
			ptr := c.p.asPtr(c.args[0])
			v := c.p.h.load(ptr)
			c.p.schedPointAfter(c)
			return v, ctlRet
		}, "sync/atomic.Load"+ty)
		reg(func(c *callCtx) (Value, ctl) {
			ptr := c.p.asPtr(c.args[0])
			c.p.h.store(ptr, c.args[1])
			c.p.schedPointAfter(c)
			return nil, ctlRet
		}, "sync/atomic.Store"+ty)
		reg(func(c *callCtx) (Value, ctl) {
			ptr := c.p.asPtr(c.args[0])
			old := c.p.asTerm(c.p.h.load(ptr))
			nv := c.p.tc().Bin(OpBvAdd, old, c.p.asTerm(c.args[1]))
			c.p.h.store(ptr, nv)
			c.p.schedPointAfter(c)
			return nv, ctlRet
		}, "sync/atomic.Add"+ty)
		reg(func(c *callCtx) (Value, ctl) {
			ptr := c.p.asPtr(c.args[0])
			old := c.p.h.load(ptr)
			c.p.h.store(ptr, c.args[1])
			c.p.schedPointAfter(c)
			return old, ctlRet
		}, "sync/atomic.Swap"+ty)
		reg(func(c *callCtx) (Value, ctl) {
			ptr := c.p.asPtr(c.args[0])
			old := c.p.asTerm(c.p.h.load(ptr))
			eq := c.p.tc().Eq(old, c.p.asTerm(c.args[1]))
			ok := c.p.branch(eq, "cas")
			if ok {
				c.p.h.store(ptr, c.args[2])
			}
			c.p.schedPointAfter(c)
			return c.p.tc().Bool(ok), ctlRet
		}, "sync/atomic.CompareAndSwap"+ty)
		reg(func(c *callCtx) (Value, ctl) {
			ptr := c.p.asPtr(c.args[0])
			old := c.p.asTerm(c.p.h.load(ptr))
			c.p.h.store(ptr, c.p.tc().Bin(OpBvAnd, old, c.p.asTerm(c.args[1])))
			return old, ctlRet
		}, "sync/atomic.And"+ty)
		reg(func(c *callCtx) (Value, ctl) {
			ptr := c.p.asPtr(c.args[0])
			old := c.p.asTerm(c.p.h.load(ptr))
			c.p.h.store(ptr, c.p.tc().Bin(OpBvOr, old, c.p.asTerm(c.args[1])))
			return old, ctlRet
		}, "sync/atomic.Or"+ty)
	}
	reg(func(c *callCtx) (Value, ctl) {
		v := c.p.h.load(c.p.asPtr(c.args[0]))
		c.p.schedPointAfter(c)
		return v, ctlRet
	}, "sync/atomic.LoadPointer")
	reg(func(c *callCtx) (Value, ctl) {
		c.p.h.store(c.p.asPtr(c.args[0]), c.args[1])
		c.p.schedPointAfter(c)
		return nil, ctlRet
	}, "sync/atomic.StorePointer")
	reg(func(c *callCtx) (Value, ctl) {
		ptr := c.p.asPtr(c.args[0])
		old := c.p.h.load(ptr)
		c.p.h.store(ptr, c.args[1])
		c.p.schedPointAfter(c)
		return old, ctlRet
	}, "sync/atomic.SwapPointer")
	reg(func(c *callCtx) (Value, ctl) {
		ptr := c.p.asPtr(c.args[0])
		old := c.p.asPtr(c.p.h.load(ptr))
		ok := ptrEq(old, c.p.asPtr(c.args[1]))
		if ok {
			c.p.h.store(ptr, c.args[2])
		}
		c.p.schedPointAfter(c)
		return c.p.tc().Bool(ok), ctlRet
	}, "sync/atomic.CompareAndSwapPointer")
	// atomic.Pointer[T]: field 2 ("v unsafe.Pointer") after two zero-size fields
	ptrField := func(c *callCtx) PtrV {
		recv := c.p.asPtr(c.args[0])
		return recv.child(2)
	}
	reg(func(c *callCtx) (Value, ctl) {
		v := c.p.h.load(ptrField(c))
		c.p.schedPointAfter(c)
		return v, ctlRet
	}, "(*sync/atomic.Pointer).Load")
	reg(func(c *callCtx) (Value, ctl) {
		c.p.h.store(ptrField(c), c.args[1])
		c.p.schedPointAfter(c)
		return nil, ctlRet
	}, "(*sync/atomic.Pointer).Store")
	reg(func(c *callCtx) (Value, ctl) {
		f := ptrField(c)
		old := c.p.h.load(f)
		c.p.h.store(f, c.args[1])
		c.p.schedPointAfter(c)
		return old, ctlRet
	}, "(*sync/atomic.Pointer).Swap")
	reg(func(c *callCtx) (Value, ctl) {
		f := ptrField(c)
		old := c.p.asPtr(c.p.h.load(f))
		ok := ptrEq(old, c.p.asPtr(c.args[1]))
		if ok {
			c.p.h.store(f, c.args[2])
		}
		c.p.schedPointAfter(c)
		return c.p.tc().Bool(ok), ctlRet
	}, "(*sync/atomic.Pointer).CompareAndSwap")
	// atomic.Value: field 0 "v any"
	reg(func(c *callCtx) (Value, ctl) {
		v := c.p.h.load(c.p.asPtr(c.args[0]).child(0))
		c.p.schedPointAfter(c)
		return v, ctlRet
	}, "(*sync/atomic.Value).Load")
	reg(func(c *callCtx) (Value, ctl) {
		if iv, ok := c.args[1].(IfaceV); ok && iv.t == nil {
			c.p.goPanic(c.th, IfaceV{t: types.Typ[types.String], v: StrV{s: "sync/atomic: store of nil value into Value"}})
			return nil, ctlPanicked
		}
		c.p.h.store(c.p.asPtr(c.args[0]).child(0), c.args[1])
		c.p.schedPointAfter(c)
		return nil, ctlRet
	}, "(*sync/atomic.Value).Store")
	reg(func(c *callCtx) (Value, ctl) {
		f := c.p.asPtr(c.args[0]).child(0)
		old := c.p.h.load(f)
		c.p.h.store(f, c.args[1])
		return old, ctlRet
	}, "(*sync/atomic.Value).Swap")

	// ---- runtime / abi / misc no-ops ----
	reg(retNil, "runtime.SetFinalizer", "runtime.KeepAlive", "runtime.Gosched", "runtime.GC", "time.Sleep",
		"internal/race.Acquire", "internal/race.Release", "internal/race.ReleaseMerge", "internal/race.Disable", "internal/race.Enable",
		"internal/race.Read", "internal/race.Write", "internal/race.ReadRange", "internal/race.WriteRange",
		"(*sync.noCopy).Lock", "(*sync.noCopy).Unlock", "internal/godebug.(*Setting).IncNonDefault")
	reg(func(c *callCtx) (Value, ctl) { return c.args[0], ctlRet }, "internal/abi.NoEscape", "internal/abi.Escape")
	reg(func(c *callCtx) (Value, ctl) { return StrV{}, ctlRet }, "os.Getenv", "syscall.Getenv", "internal/godebug.(*Setting).Value")
	reg(func(c *callCtx) (Value, ctl) { return c.p.tc().BV(16, 64), ctlRet }, "runtime.GOMAXPROCS", "runtime.NumCPU")
	// math bit casts (floats are carried as bit patterns)
	reg(func(c *callCtx) (Value, ctl) { return c.args[0], ctlRet }, "math.Float64bits", "math.Float64frombits", "math.Float32bits", "math.Float32frombits")
	reg(func(c *callCtx) (Value, ctl) {
		x := c.p.asTerm(c.args[0])
		if !x.IsConst() {
			panic(unsupportedf("math function on symbolic float"))
		}
		f := fconst(x)
		var r float64
		switch c.name {
		case "math.Floor":
			r = math.Floor(f)
		case "math.Ceil":
			r = math.Ceil(f)
		case "math.Trunc":
			r = math.Trunc(f)
		case "math.Sqrt":
			r = math.Sqrt(f)
		case "math.Abs":
			r = math.Abs(f)
		case "math.Log":
			r = math.Log(f)
		case "math.Exp":
			r = math.Exp(f)
		case "math.Round":
			r = math.Round(f)
		}
		return c.p.fmake(r, 64), ctlRet
	}, "math.Floor", "math.Ceil", "math.Trunc", "math.Sqrt", "math.Abs", "math.Log", "math.Exp", "math.Round")
	reg(func(c *callCtx) (Value, ctl) {
		x := c.p.asTerm(c.args[0])
		if !x.IsConst() {
			panic(unsupportedf("math.IsNaN on symbolic float"))
		}
		return c.p.tc().Bool(math.IsNaN(fconst(x))), ctlRet
	}, "math.IsNaN")
	reg(func(c *callCtx) (Value, ctl) {
		n := c.p.asTerm(c.args[0])
		if !n.IsConst() {
			panic(unsupportedf("MakeNoZero with symbolic size"))
		}
		bs := make([]*Term, n.Val)
		for i := range bs {
			bs[i] = c.p.tc().BV(0, 8)
		}
		return c.p.newByteSlice(bs, nil), ctlRet
	}, "internal/bytealg.MakeNoZero")

	// ---- fmt (messages are not part of any property: best effort text) ----
	reg(func(c *callCtx) (Value, ctl) {
		return c.p.sprintfExact(c.args[0], c.args[1]), ctlRet
	}, "fmt.Sprintf")
	reg(func(c *callCtx) (Value, ctl) {
		return StrV{s: c.p.format(nil, c.args[0])}, ctlRet
	}, "fmt.Sprint", "fmt.Sprintln")
	reg(func(c *callCtx) (Value, ctl) {
		return TupleV{c.p.tc().BV(0, 64), IfaceV{}}, ctlRet
	}, "fmt.Printf", "fmt.Println", "fmt.Print", "fmt.Fprintf", "fmt.Fprintln", "fmt.Fprint")
	reg(func(c *callCtx) (Value, ctl) { return c.p.fmtErrorf(c), ctlRet }, "fmt.Errorf")
	reg(func(c *callCtx) (Value, ctl) {
		// Error() of an error value as text; uses a callback when the value has an interpreted Error method
		return StrV{s: "<error>"}, ctlRet
	}, "zz.errorText")

	// ---- unique.Make: one canonical cell per distinct (concrete) value ----
	reg(func(c *callCtx) (Value, ctl) {
		ks, ok := keyString(c.args[0])
		if !ok {
			panic(unsupportedf("unique.Make of a symbolic value"))
		}
		key := c.name + "|" + ks
		wk := c.p.wk
		if wk.uniq == nil {
			wk.uniq = map[string]ObjID{}
		}
		id, ok := wk.uniq[key]
		if !ok {
			wk.initDepth++
			o := c.p.h.alloc(nil, copyVal(c.args[0]), "unique.Make")
			wk.initDepth--
			id = o.id
			wk.uniq[key] = id
		}
		return &StructV{f: []Value{PtrV{id: id}}}, ctlRet
	}, "unique.Make")

	// ---- encoding/json: reflection driven, replaced by an opaque document (JSON syntax is outside every claim) ----
	reg(func(c *callCtx) (Value, ctl) {
		c.p.usedStub = true
		bs := []*Term{}
		for _, ch := range []byte(`{"zz":"opaque-json"}`) {
			bs = append(bs, c.p.tc().BV(uint64(ch), 8))
		}
		return TupleV{c.p.newByteSliceNoMonitor(bs), IfaceV{}}, ctlRet
	}, "encoding/json.Marshal", "encoding/json.MarshalIndent")

	// ---- timers never fire within a run (timeouts do not expire; stated as an assumption) ----
	newTimer := func(c *callCtx, withChan bool) Value {
		p := c.p
		pkg := p.wk.w.prog.ImportedPackage("time")
		tt := pkg.Pkg.Scope().Lookup("Timer").Type()
		zv := p.wk.zero(tt).(*StructV)
		if withChan {
			st := tt.Underlying().(*types.Struct)
			for i := 0; i < st.NumFields(); i++ {
				if st.Field(i).Name() == "C" {
					ct := st.Field(i).Type()
					cd := &ChanData{cap: 1, et: ct.Underlying().(*types.Chan).Elem()}
					o := p.h.alloc(ct, cd, "timer chan")
					zv.f[i] = ChanV{id: o.id}
				}
			}
		}
		o := p.h.alloc(tt, zv, "timer")
		return PtrV{id: o.id}
	}
	reg(func(c *callCtx) (Value, ctl) { return newTimer(c, false), ctlRet }, "time.AfterFunc")
	reg(func(c *callCtx) (Value, ctl) { return newTimer(c, true), ctlRet }, "time.NewTimer")
	reg(func(c *callCtx) (Value, ctl) { return c.p.tc().True, ctlRet }, "(*time.Timer).Stop", "(*time.Timer).Reset")

	// ---- randomness: fresh symbolic bytes ----
	reg(func(c *callCtx) (Value, ctl) {
		p := c.p
		sl := c.args[0].(SliceV)
		if sl.len > 0 {
			arr := p.arrayAt(sl.arr, true)
			for i := 0; i < sl.len; i++ {
				arr.e[sl.off+i] = p.fresh("rand", 8)
			}
		}
		return TupleV{p.tc().BV(uint64(sl.len), 64), IfaceV{}}, ctlRet
	}, "crypto/rand.Read")

	// ---- time ----
	reg(func(c *callCtx) (Value, ctl) { return c.p.timeNow(), ctlRet }, "time.Now")
	reg(func(c *callCtx) (Value, ctl) { return c.p.tc().BV(0, 64), ctlRet }, "time.runtimeNano", "runtime.nanotime")
	// "bubbled" makes time.Since/Until take their general path Now().Sub(t), which uses the modelled clock
	reg(func(c *callCtx) (Value, ctl) { return c.p.tc().True, ctlRet }, "time.runtimeIsBubbled")
}

// schedPointAfter offers a context switch after a synchronisation operation completed.
func (p *Path) schedPointAfter(c *callCtx) {
	if len(p.threads) > 1 {
		p.pendingSched = c.th
	}
}

// timeNow returns a time.Time with a monotonic reading that never decreases.
func (p *Path) timeNow() Value {
	tc := p.tc()
	t := p.fresh("now", 64)
	prev, _ := p.ghost["time.last"].(*Term)
	if prev == nil {
		prev = tc.BV(1, 64)
	}
	// 1 <= prev <= t < 2^62 keeps every Sub/Add in range
	c := tc.And(tc.Cmp(OpBvSle, prev, t), tc.Cmp(OpBvSlt, t, tc.BV(1<<62, 64)))
	p.assume(c, "clock is non-decreasing")
	p.ghost["time.last"] = t
	// wall: hasMonotonic | (sec since 1885 << 30); keep a fixed wall second so that wall clock reads are stable
	const hasMonotonic = uint64(1) << 63
	wall := hasMonotonic | (uint64(4_400_000_000) << 30 & (uint64(1)<<63 - 1))
	return &StructV{f: []Value{tc.BV(wall, 64), t, PtrV{}}}
}

func (p *Path) assume(c *Term, why string) {
	if c.IsConst() {
		if c.Val == 0 {
			panic(pathEnd{endInfeasible, "assumption is false: " + why})
		}
		return
	}
	if p.concreteModel != nil {
		return
	}
	p.assumes++
	if p.wk.sol.CheckWith(c, false) == Unsat {
		panic(pathEnd{endInfeasible, "assumption unsatisfiable: " + why})
	}
	p.assertPC(c)
}

// goValue converts a concrete interpreter value into a Go value for text formatting.
// unrenderedMark starts the placeholder text of a fmt argument the engine cannot render. Such text is
// fine in messages nobody inspects; comparing it would be unsound, so string comparisons refuse it.
const unrenderedMark = "<\x00unrendered:"

func constBytes(es []Value) ([]byte, bool) {
	out := make([]byte, len(es))
	for i, e := range es {
		t, ok := e.(*Term)
		if !ok || !t.IsConst() || t.W != 8 {
			return nil, false
		}
		out[i] = byte(t.Val)
	}
	return out, true
}

func (p *Path) goValue(v Value) interface{} {
	switch x := v.(type) {
	case IfaceV:
		if x.t == nil {
			return nil
		}
		if t, ok := x.v.(*Term); ok {
			if !t.IsConst() {
				return unrenderedMark + "sym>"
			}
			if w, signed, ok := isInt(x.t); ok {
				if signed {
					return sext64(t.Val, w)
				}
				return t.Val
			}
			if isBoolT(x.t) {
				return t.Val != 0
			}
			if _, ok := isFloat(x.t); ok {
				return fconst(t)
			}
		}
		if s, ok := x.v.(StrV); ok {
			if s.Concrete() {
				return s.s
			}
			return unrenderedMark + "symstr>"
		}
		// concrete byte arrays and slices render exactly
		switch y := x.v.(type) {
		case *ArrayV:
			if bs, ok := constBytes(y.e); ok {
				return bs
			}
		case SliceV:
			if sl, ok := x.t.Underlying().(*types.Slice); ok {
				if b, ok := sl.Elem().Underlying().(*types.Basic); ok && b.Kind() == types.Uint8 && !y.isNil {
					ts := p.sliceBytes(y)
					vs := make([]Value, len(ts))
					for i, t := range ts {
						vs[i] = t
					}
					if bs, ok := constBytes(vs); ok {
						return bs
					}
				}
			}
		}
		return unrenderedMark + x.t.String() + ">"
	case StrV:
		if x.Concrete() {
			return x.s
		}
		return unrenderedMark + "symstr>"
	}
	return unrenderedMark + "?>"
}

// sprintfExact formats with exact results for symbolic strings and byte slices under %s / %v (the
// bytes are spliced in); other symbolic values keep the best-effort placeholder and leave a note.
func (p *Path) sprintfExact(f Value, args Value) Value {
	fs := p.asStr(f)
	sv, ok := args.(SliceV)
	if !fs.Concrete() || !ok {
		return StrV{s: p.format(f, args)}
	}
	var argv []Value
	if sv.len > 0 {
		arr := p.arrayAt(sv.arr, false)
		for i := 0; i < sv.len; i++ {
			argv = append(argv, arr.e[sv.off+i])
		}
	}
	symbolicBytes := func(v Value) ([]*Term, bool) {
		iv, ok := v.(IfaceV)
		if !ok || iv.t == nil {
			return nil, false
		}
		switch x := iv.v.(type) {
		case StrV:
			if !x.Concrete() {
				return p.strBytes(x), true
			}
		case SliceV:
			if sl, ok := iv.t.Underlying().(*types.Slice); ok {
				if b, ok := sl.Elem().Underlying().(*types.Basic); ok && b.Kind() == types.Uint8 {
					bs := p.sliceBytes(x)
					for _, t := range bs {
						if !t.IsConst() {
							return bs, true
						}
					}
				}
			}
		}
		return nil, false
	}
	needExact := false
	for _, a := range argv {
		if _, ok := symbolicBytes(a); ok {
			needExact = true
		}
	}
	if !needExact {
		return StrV{s: p.format(f, args)}
	}
	// split the format at plain %s / %v verbs; anything fancier falls back to the placeholder form
	var out []*Term
	format := fs.s
	ai := 0
	lit := func(s string) {
		for i := 0; i < len(s); i++ {
			out = append(out, p.tc().BV(uint64(s[i]), 8))
		}
	}
	for i := 0; i < len(format); i++ {
		ch := format[i]
		if ch != '%' {
			lit(string(ch))
			continue
		}
		if i+1 >= len(format) {
			lit("%!(NOVERB)")
			break
		}
		verb := format[i+1]
		i++
		if verb == '%' {
			lit("%")
			continue
		}
		if ai >= len(argv) {
			lit("%!" + string(verb) + "(MISSING)")
			continue
		}
		a := argv[ai]
		ai++
		if bs, ok := symbolicBytes(a); ok && (verb == 's' || verb == 'v') {
			out = append(out, bs...)
			continue
		}
		if _, ok := symbolicBytes(a); ok {
			p.note("fmt.Sprintf: symbolic text under verb %%%c is rendered as a placeholder", verb)
		}
		lit(fmt.Sprintf("%"+string(verb), p.goValue(a)))
	}
	return p.mkStr(out)
}

func (p *Path) format(f Value, args Value) string {
	var ga []interface{}
	if sv, ok := args.(SliceV); ok && sv.len > 0 {
		arr := p.arrayAt(sv.arr, false)
		for i := 0; i < sv.len; i++ {
			ga = append(ga, p.goValue(arr.e[sv.off+i]))
		}
	}
	if f == nil {
		return fmt.Sprint(ga...)
	}
	fs := p.asStr(f)
	if !fs.Concrete() {
		return "<symfmt>"
	}
	format := strings.ReplaceAll(fs.s, "%w", "%v")
	return fmt.Sprintf(format, ga...)
}

// fmtErrorf builds *fmt.wrapError when %w is present, else *errors.errorString.
func (p *Path) fmtErrorf(c *callCtx) Value {
	msg := StrV{s: p.format(c.args[0], c.args[1])}
	fs := p.asStr(c.args[0])
	var wrapped Value
	if fs.Concrete() && strings.Contains(fs.s, "%w") {
		if sv, ok := c.args[1].(SliceV); ok && sv.len > 0 {
			arr := p.arrayAt(sv.arr, false)
			errT := types.Universe.Lookup("error").Type().Underlying().(*types.Interface)
			for i := 0; i < sv.len; i++ {
				if iv, ok := arr.e[sv.off+i].(IfaceV); ok && iv.t != nil && types.Implements(iv.t, errT) {
					wrapped = iv
					break
				}
			}
		}
	}
	prog := p.wk.w.prog
	if wrapped != nil {
		if fp := prog.ImportedPackage("fmt"); fp != nil {
			if m, ok := fp.Members["wrapError"].(*ssa.Type); ok {
				nt := m.Type()
				o := p.h.alloc(nt, &StructV{f: []Value{msg, wrapped}}, "fmt.Errorf")
				return IfaceV{t: types.NewPointer(nt), v: PtrV{id: o.id}}
			}
		}
	}
	if ep := prog.ImportedPackage("errors"); ep != nil {
		if m, ok := ep.Members["errorString"].(*ssa.Type); ok {
			nt := m.Type()
			o := p.h.alloc(nt, &StructV{f: []Value{msg}}, "fmt.Errorf")
			return IfaceV{t: types.NewPointer(nt), v: PtrV{id: o.id}}
		}
	}
	panic(unsupportedf("fmt.Errorf: errors package not loaded"))
}

func (p *Path) nativeImplements(iv IfaceV, it *types.Interface) bool {
	return false
}
