package main

import (
	"fmt"
	"math/bits"
	"strconv"
	"strings"
)

// Op is an SMT operator.
type Op uint8

const (
	OpConst Op = iota // BV or Bool constant
	OpVar
	OpNot
	OpAnd
	OpOr
	OpIte
	OpEq
	OpBvAdd
	OpBvSub
	OpBvMul
	OpBvUdiv
	OpBvUrem
	OpBvSdiv
	OpBvSrem
	OpBvAnd
	OpBvOr
	OpBvXor
	OpBvNot
	OpBvNeg
	OpBvShl
	OpBvLshr
	OpBvAshr
	OpBvUlt
	OpBvUle
	OpBvSlt
	OpBvSle
	OpConcat
	OpExtract // aux0=hi aux1=lo
	OpZext    // aux0 = extra bits
	OpSext
	OpUF // name, args; result sort given
	// floating point (bit-pattern in, bit-pattern/bool out); width 32 or 64
	OpFAdd
	OpFSub
	OpFMul
	OpFDiv
	OpFNeg
	OpFLt
	OpFLe
	OpFEq
	OpFFromSInt // aux0 = target float width; arg BV
	OpFFromUInt
	OpFToSInt // aux0 = target int width (RTZ)
	OpFToUInt
	OpFToF // aux0 = target width
)

var opNames = map[Op]string{
	OpNot: "not", OpAnd: "and", OpOr: "or", OpIte: "ite", OpEq: "=",
	OpBvAdd: "bvadd", OpBvSub: "bvsub", OpBvMul: "bvmul", OpBvUdiv: "bvudiv", OpBvUrem: "bvurem",
	OpBvSdiv: "bvsdiv", OpBvSrem: "bvsrem", OpBvAnd: "bvand", OpBvOr: "bvor", OpBvXor: "bvxor",
	OpBvNot: "bvnot", OpBvNeg: "bvneg", OpBvShl: "bvshl", OpBvLshr: "bvlshr", OpBvAshr: "bvashr",
	OpBvUlt: "bvult", OpBvUle: "bvule", OpBvSlt: "bvslt", OpBvSle: "bvsle", OpConcat: "concat",
}

// Term is a hash-consed SMT term. W==0 means Bool sort, otherwise (_ BitVec W).
type Term struct {
	Op   Op
	W    int
	Val  uint64 // for OpConst (W<=64); bool: 0/1
	Name string // OpVar / OpUF
	Args []*Term
	A0   int
	A1   int
	ID   int
	cl   int8
}

func (t *Term) IsConst() bool { return t.Op == OpConst }
func (t *Term) IsBool() bool  { return t.W == 0 }

// TermCtx owns the hash-cons table of one worker.
type TermCtx struct {
	tab   map[string]*Term
	terms []*Term
	True  *Term
	False *Term
}

func NewTermCtx() *TermCtx {
	c := &TermCtx{tab: map[string]*Term{}}
	c.True = c.mk(&Term{Op: OpConst, W: 0, Val: 1})
	c.False = c.mk(&Term{Op: OpConst, W: 0, Val: 0})
	return c
}

func (c *TermCtx) mk(t *Term) *Term {
	var sb strings.Builder
	sb.WriteByte(byte(t.Op))
	sb.WriteByte(':')
	sb.WriteString(strconv.Itoa(t.W))
	sb.WriteByte(':')
	switch t.Op {
	case OpConst:
		sb.WriteString(strconv.FormatUint(t.Val, 16))
	case OpVar:
		sb.WriteString(t.Name)
	default:
		if t.Name != "" {
			sb.WriteString(t.Name)
			sb.WriteByte(':')
		}
		sb.WriteString(strconv.Itoa(t.A0))
		sb.WriteByte(',')
		sb.WriteString(strconv.Itoa(t.A1))
		for _, a := range t.Args {
			sb.WriteByte(',')
			sb.WriteString(strconv.Itoa(a.ID))
		}
	}
	k := sb.String()
	if old, ok := c.tab[k]; ok {
		return old
	}
	t.ID = len(c.terms)
	c.terms = append(c.terms, t)
	c.tab[k] = t
	return t
}

func mask(w int) uint64 {
	if w >= 64 {
		return ^uint64(0)
	}
	return (uint64(1) << uint(w)) - 1
}

func sext64(v uint64, w int) int64 {
	if w >= 64 {
		return int64(v)
	}
	s := uint(64 - w)
	return int64(v<<s) >> s
}

func (c *TermCtx) Bool(b bool) *Term {
	if b {
		return c.True
	}
	return c.False
}

func (c *TermCtx) BV(v uint64, w int) *Term {
	if w <= 0 || w > 64 {
		panic(fmt.Sprintf("BV width %d", w))
	}
	return c.mk(&Term{Op: OpConst, W: w, Val: v & mask(w)})
}

func (c *TermCtx) Var(name string, w int) *Term {
	return c.mk(&Term{Op: OpVar, W: w, Name: name})
}

func (c *TermCtx) Not(a *Term) *Term {
	if a.IsConst() {
		return c.Bool(a.Val == 0)
	}
	if a.Op == OpNot {
		return a.Args[0]
	}
	return c.mk(&Term{Op: OpNot, W: 0, Args: []*Term{a}})
}

func (c *TermCtx) And(a, b *Term) *Term {
	if a.IsConst() {
		if a.Val == 0 {
			return c.False
		}
		return b
	}
	if b.IsConst() {
		if b.Val == 0 {
			return c.False
		}
		return a
	}
	if a == b {
		return a
	}
	return c.mk(&Term{Op: OpAnd, W: 0, Args: []*Term{a, b}})
}

func (c *TermCtx) Or(a, b *Term) *Term {
	if a.IsConst() {
		if a.Val != 0 {
			return c.True
		}
		return b
	}
	if b.IsConst() {
		if b.Val != 0 {
			return c.True
		}
		return a
	}
	if a == b {
		return a
	}
	return c.mk(&Term{Op: OpOr, W: 0, Args: []*Term{a, b}})
}

func (c *TermCtx) Ite(cond, a, b *Term) *Term {
	if cond.IsConst() {
		if cond.Val != 0 {
			return a
		}
		return b
	}
	if a == b {
		return a
	}
	if a.W != b.W {
		panic("ite sort mismatch")
	}
	if a.W == 0 && a.IsConst() && b.IsConst() {
		if a.Val != 0 {
			return cond
		}
		return c.Not(cond)
	}
	return c.mk(&Term{Op: OpIte, W: a.W, Args: []*Term{cond, a, b}})
}

func (c *TermCtx) Eq(a, b *Term) *Term {
	if a.W != b.W {
		panic(fmt.Sprintf("eq sort mismatch %d %d", a.W, b.W))
	}
	if a == b {
		return c.True
	}
	if a.IsConst() && b.IsConst() {
		return c.Bool(a.Val == b.Val)
	}
	if a.IsConst() && c.pushable(b) {
		return c.mapLeaves(b, func(l *Term) *Term { return c.Eq(a, l) }, map[*Term]*Term{})
	}
	if b.IsConst() && c.pushable(a) {
		return c.mapLeaves(a, func(l *Term) *Term { return c.Eq(l, b) }, map[*Term]*Term{})
	}
	if a.W == 0 {
		if a.IsConst() {
			if a.Val != 0 {
				return b
			}
			return c.Not(b)
		}
		if b.IsConst() {
			if b.Val != 0 {
				return a
			}
			return c.Not(a)
		}
	}
	if a.ID > b.ID {
		a, b = b, a
	}
	return c.mk(&Term{Op: OpEq, W: 0, Args: []*Term{a, b}})
}

func foldBin(op Op, x, y uint64, w int) (uint64, bool) {
	m := mask(w)
	switch op {
	case OpBvAdd:
		return (x + y) & m, true
	case OpBvSub:
		return (x - y) & m, true
	case OpBvMul:
		return (x * y) & m, true
	case OpBvUdiv:
		if y == 0 {
			return m, true
		}
		return x / y, true
	case OpBvUrem:
		if y == 0 {
			return x, true
		}
		return x % y, true
	case OpBvSdiv:
		sx, sy := sext64(x, w), sext64(y, w)
		if sy == 0 {
			if sx < 0 {
				return 1, true
			}
			return m, true
		}
		if sy == -1 {
			return uint64(-sx) & m, true
		}
		return uint64(sx/sy) & m, true
	case OpBvSrem:
		sx, sy := sext64(x, w), sext64(y, w)
		if sy == 0 {
			return x, true
		}
		if sy == -1 {
			return 0, true
		}
		return uint64(sx%sy) & m, true
	case OpBvAnd:
		return x & y, true
	case OpBvOr:
		return x | y, true
	case OpBvXor:
		return x ^ y, true
	case OpBvShl:
		if y >= uint64(w) {
			return 0, true
		}
		return (x << y) & m, true
	case OpBvLshr:
		if y >= uint64(w) {
			return 0, true
		}
		return x >> y, true
	case OpBvAshr:
		sx := sext64(x, w)
		if y >= uint64(w) {
			if sx < 0 {
				return m, true
			}
			return 0, true
		}
		return uint64(sx>>y) & m, true
	}
	return 0, false
}

func (c *TermCtx) Bin(op Op, a, b *Term) *Term {
	if a.W != b.W || a.W == 0 {
		panic(fmt.Sprintf("bin %v sort mismatch %d %d", opNames[op], a.W, b.W))
	}
	if a.IsConst() && b.IsConst() {
		if v, ok := foldBin(op, a.Val, b.Val, a.W); ok {
			return c.BV(v, a.W)
		}
	}
	if a.IsConst() && c.pushable(b) {
		return c.mapLeaves(b, func(l *Term) *Term { return c.Bin(op, a, l) }, map[*Term]*Term{})
	}
	if b.IsConst() && c.pushable(a) {
		return c.mapLeaves(a, func(l *Term) *Term { return c.Bin(op, l, b) }, map[*Term]*Term{})
	}
	// light identities
	switch op {
	case OpBvAdd, OpBvOr, OpBvXor:
		if a.IsConst() && a.Val == 0 {
			return b
		}
		if b.IsConst() && b.Val == 0 {
			return a
		}
	case OpBvSub, OpBvShl, OpBvLshr, OpBvAshr:
		if b.IsConst() && b.Val == 0 {
			return a
		}
		if (op == OpBvShl || op == OpBvLshr) && b.IsConst() && b.Val >= uint64(a.W) {
			return c.BV(0, a.W)
		}
	case OpBvAnd:
		if a.IsConst() && a.Val == 0 || b.IsConst() && b.Val == 0 {
			return c.BV(0, a.W)
		}
		if a.IsConst() && a.Val == mask(a.W) {
			return b
		}
		if b.IsConst() && b.Val == mask(a.W) {
			return a
		}
	case OpBvMul:
		if a.IsConst() && a.Val == 1 {
			return b
		}
		if b.IsConst() && b.Val == 1 {
			return a
		}
		if a.IsConst() && a.Val == 0 || b.IsConst() && b.Val == 0 {
			return c.BV(0, a.W)
		}
	}
	return c.mk(&Term{Op: op, W: a.W, Args: []*Term{a, b}})
}

func (c *TermCtx) Cmp(op Op, a, b *Term) *Term {
	if a.W != b.W || a.W == 0 {
		panic("cmp sort mismatch")
	}
	if a.IsConst() && b.IsConst() {
		switch op {
		case OpBvUlt:
			return c.Bool(a.Val < b.Val)
		case OpBvUle:
			return c.Bool(a.Val <= b.Val)
		case OpBvSlt:
			return c.Bool(sext64(a.Val, a.W) < sext64(b.Val, a.W))
		case OpBvSle:
			return c.Bool(sext64(a.Val, a.W) <= sext64(b.Val, a.W))
		}
	}
	if a == b {
		return c.Bool(op == OpBvUle || op == OpBvSle)
	}
	// canonical atoms: a <= b is written not(b < a), so that a test and its negation share one atom
	switch op {
	case OpBvUle:
		return c.Not(c.Cmp(OpBvUlt, b, a))
	case OpBvSle:
		return c.Not(c.Cmp(OpBvSlt, b, a))
	}
	if a.IsConst() && c.pushable(b) {
		return c.mapLeaves(b, func(l *Term) *Term { return c.Cmp(op, a, l) }, map[*Term]*Term{})
	}
	if b.IsConst() && c.pushable(a) {
		return c.mapLeaves(a, func(l *Term) *Term { return c.Cmp(op, l, b) }, map[*Term]*Term{})
	}
	return c.mk(&Term{Op: op, W: 0, Args: []*Term{a, b}})
}

func (c *TermCtx) BvNot(a *Term) *Term {
	if a.IsConst() {
		return c.BV(^a.Val, a.W)
	}
	return c.mk(&Term{Op: OpBvNot, W: a.W, Args: []*Term{a}})
}

func (c *TermCtx) BvNeg(a *Term) *Term {
	if a.IsConst() {
		return c.BV(-a.Val, a.W)
	}
	return c.mk(&Term{Op: OpBvNeg, W: a.W, Args: []*Term{a}})
}

func (c *TermCtx) Extract(a *Term, hi, lo int) *Term {
	if hi < lo || hi >= a.W {
		panic("extract range")
	}
	if lo == 0 && hi == a.W-1 {
		return a
	}
	if a.IsConst() {
		return c.BV(a.Val>>uint(lo), hi-lo+1)
	}
	if c.pushable(a) {
		return c.mapLeaves(a, func(l *Term) *Term { return c.Extract(l, hi, lo) }, map[*Term]*Term{})
	}
	switch a.Op {
	case OpZext, OpSext:
		inner := a.Args[0]
		if hi < inner.W {
			return c.Extract(inner, hi, lo)
		}
		if a.Op == OpZext && lo >= inner.W {
			return c.BV(0, hi-lo+1)
		}
	case OpConcat:
		lowPart := a.Args[1]
		if hi < lowPart.W {
			return c.Extract(lowPart, hi, lo)
		}
		if lo >= lowPart.W {
			return c.Extract(a.Args[0], hi-lowPart.W, lo-lowPart.W)
		}
	case OpExtract:
		return c.Extract(a.Args[0], hi+a.A1, lo+a.A1)
	}
	return c.mk(&Term{Op: OpExtract, W: hi - lo + 1, Args: []*Term{a}, A0: hi, A1: lo})
}

func (c *TermCtx) Zext(a *Term, to int) *Term {
	if to == a.W {
		return a
	}
	if to < a.W {
		return c.Extract(a, to-1, 0)
	}
	if a.IsConst() {
		return c.BV(a.Val, to)
	}
	if a.Op == OpZext {
		return c.Zext(a.Args[0], to)
	}
	if c.pushable(a) {
		return c.mapLeaves(a, func(l *Term) *Term { return c.Zext(l, to) }, map[*Term]*Term{})
	}
	return c.mk(&Term{Op: OpZext, W: to, Args: []*Term{a}, A0: to - a.W})
}

func (c *TermCtx) Sext(a *Term, to int) *Term {
	if to == a.W {
		return a
	}
	if to < a.W {
		return c.Extract(a, to-1, 0)
	}
	if a.IsConst() {
		return c.BV(uint64(sext64(a.Val, a.W)), to)
	}
	return c.mk(&Term{Op: OpSext, W: to, Args: []*Term{a}, A0: to - a.W})
}

func (c *TermCtx) Concat(hi, lo *Term) *Term {
	w := hi.W + lo.W
	if w > 64 {
		// wide terms only appear transiently (never constant folded)
		return c.mk(&Term{Op: OpConcat, W: w, Args: []*Term{hi, lo}})
	}
	if hi.IsConst() && lo.IsConst() {
		return c.BV(hi.Val<<uint(lo.W)|lo.Val, w)
	}
	return c.mk(&Term{Op: OpConcat, W: w, Args: []*Term{hi, lo}})
}

func (c *TermCtx) UF(name string, w int, args ...*Term) *Term {
	return c.mk(&Term{Op: OpUF, W: w, Name: name, Args: args})
}

func (c *TermCtx) FOp(op Op, w int, a0 int, args ...*Term) *Term {
	return c.mk(&Term{Op: op, W: w, A0: a0, Args: args})
}

// AndAll conjoins a list.
func (c *TermCtx) AndAll(ts ...*Term) *Term {
	r := c.True
	for _, t := range ts {
		r = c.And(r, t)
	}
	return r
}

// ---------- printing ----------

func sortStr(w int) string {
	if w == 0 {
		return "Bool"
	}
	return "(_ BitVec " + strconv.Itoa(w) + ")"
}

func fpSort(w int) string {
	if w == 32 {
		return "(_ FloatingPoint 8 24)"
	}
	return "(_ FloatingPoint 11 53)"
}

func toFP(w int, s string) string {
	if w == 32 {
		return "((_ to_fp 8 24) " + s + ")"
	}
	return "((_ to_fp 11 53) " + s + ")"
}

// fpBits turns an FP-sorted expression back into its IEEE bit pattern via a fresh
// definition is impossible in SMT-LIB without fp.to_ieee_bv (z3 extension); we use
// z3/cvc5's fp.to_ieee_bv which both solvers in this image accept.
func fpBits(s string) string { return "(fp.to_ieee_bv " + s + ")" }

// nodeStr prints the term with children referenced by name (tN) when they are non-leaf.
func (t *Term) ref() string {
	switch t.Op {
	case OpConst:
		if t.W == 0 {
			if t.Val != 0 {
				return "true"
			}
			return "false"
		}
		return "(_ bv" + strconv.FormatUint(t.Val, 10) + " " + strconv.Itoa(t.W) + ")"
	case OpVar:
		return t.Name
	}
	return "t" + strconv.Itoa(t.ID)
}

func (t *Term) body() string {
	var sb strings.Builder
	args := func() {
		for _, a := range t.Args {
			sb.WriteByte(' ')
			sb.WriteString(a.ref())
		}
	}
	switch t.Op {
	case OpExtract:
		fmt.Fprintf(&sb, "((_ extract %d %d) %s)", t.A0, t.A1, t.Args[0].ref())
	case OpZext:
		fmt.Fprintf(&sb, "((_ zero_extend %d) %s)", t.A0, t.Args[0].ref())
	case OpSext:
		fmt.Fprintf(&sb, "((_ sign_extend %d) %s)", t.A0, t.Args[0].ref())
	case OpUF:
		if len(t.Args) == 0 {
			sb.WriteString(t.Name)
		} else {
			sb.WriteString("(" + t.Name)
			args()
			sb.WriteByte(')')
		}
	case OpFAdd, OpFSub, OpFMul, OpFDiv:
		n := map[Op]string{OpFAdd: "fp.add", OpFSub: "fp.sub", OpFMul: "fp.mul", OpFDiv: "fp.div"}[t.Op]
		sb.WriteString(fpBits("(" + n + " RNE " + toFP(t.W, t.Args[0].ref()) + " " + toFP(t.W, t.Args[1].ref()) + ")"))
	case OpFNeg:
		sb.WriteString(fpBits("(fp.neg " + toFP(t.W, t.Args[0].ref()) + ")"))
	case OpFLt, OpFLe, OpFEq:
		n := map[Op]string{OpFLt: "fp.lt", OpFLe: "fp.leq", OpFEq: "fp.eq"}[t.Op]
		w := t.Args[0].W
		sb.WriteString("(" + n + " " + toFP(w, t.Args[0].ref()) + " " + toFP(w, t.Args[1].ref()) + ")")
	case OpFFromSInt:
		if t.W == 32 {
			sb.WriteString(fpBits("((_ to_fp 8 24) RNE " + t.Args[0].ref() + ")"))
		} else {
			sb.WriteString(fpBits("((_ to_fp 11 53) RNE " + t.Args[0].ref() + ")"))
		}
	case OpFFromUInt:
		if t.W == 32 {
			sb.WriteString(fpBits("((_ to_fp_unsigned 8 24) RNE " + t.Args[0].ref() + ")"))
		} else {
			sb.WriteString(fpBits("((_ to_fp_unsigned 11 53) RNE " + t.Args[0].ref() + ")"))
		}
	case OpFToSInt:
		fmt.Fprintf(&sb, "((_ fp.to_sbv %d) RTZ %s)", t.W, toFP(t.Args[0].W, t.Args[0].ref()))
	case OpFToUInt:
		fmt.Fprintf(&sb, "((_ fp.to_ubv %d) RTZ %s)", t.W, toFP(t.Args[0].W, t.Args[0].ref()))
	case OpFToF:
		if t.W == 32 {
			sb.WriteString(fpBits("((_ to_fp 8 24) RNE " + toFP(t.Args[0].W, t.Args[0].ref()) + ")"))
		} else {
			sb.WriteString(fpBits("((_ to_fp 11 53) RNE " + toFP(t.Args[0].W, t.Args[0].ref()) + ")"))
		}
	default:
		sb.WriteString("(" + opNames[t.Op])
		args()
		sb.WriteByte(')')
	}
	return sb.String()
}

// Eval evaluates a term under an assignment of variables (used to replay models in the engine).
func (t *Term) Eval(env map[string]uint64, memo map[int]uint64) uint64 {
	if v, ok := memo[t.ID]; ok {
		return v
	}
	var r uint64
	ev := func(i int) uint64 { return t.Args[i].Eval(env, memo) }
	switch t.Op {
	case OpConst:
		r = t.Val
	case OpVar:
		r = env[t.Name] & func() uint64 {
			if t.W == 0 {
				return 1
			}
			return mask(t.W)
		}()
	case OpNot:
		r = 1 - ev(0)
	case OpAnd:
		r = ev(0) & ev(1)
	case OpOr:
		r = ev(0) | ev(1)
	case OpIte:
		if ev(0) != 0 {
			r = ev(1)
		} else {
			r = ev(2)
		}
	case OpEq:
		if ev(0) == ev(1) {
			r = 1
		}
	case OpBvNot:
		r = ^ev(0) & mask(t.W)
	case OpBvNeg:
		r = -ev(0) & mask(t.W)
	case OpBvUlt:
		if ev(0) < ev(1) {
			r = 1
		}
	case OpBvUle:
		if ev(0) <= ev(1) {
			r = 1
		}
	case OpBvSlt:
		if sext64(ev(0), t.Args[0].W) < sext64(ev(1), t.Args[0].W) {
			r = 1
		}
	case OpBvSle:
		if sext64(ev(0), t.Args[0].W) <= sext64(ev(1), t.Args[0].W) {
			r = 1
		}
	case OpConcat:
		r = ev(0)<<uint(t.Args[1].W) | ev(1)
	case OpExtract:
		r = (ev(0) >> uint(t.A1)) & mask(t.W)
	case OpZext:
		r = ev(0)
	case OpSext:
		r = uint64(sext64(ev(0), t.Args[0].W)) & mask(t.W)
	default:
		if v, ok := foldBin(t.Op, ev(0), ev(1), t.W); ok {
			r = v
		} else {
			panic("Eval: unsupported op " + strconv.Itoa(int(t.Op)))
		}
	}
	memo[t.ID] = r
	return r
}

var _ = bits.Len

// ---------- pushing operations through ite-trees with constant leaves (table lookups) ----------

// constLeaves reports whether t is an ite-tree all of whose leaves are constants.
func (t *Term) constLeaves() bool {
	if t.cl != 0 {
		return t.cl == 1
	}
	r := false
	switch t.Op {
	case OpConst:
		r = true
	case OpIte:
		r = t.Args[1].constLeaves() && t.Args[2].constLeaves()
	}
	if r {
		t.cl = 1
	} else {
		t.cl = 2
	}
	return r
}

// mapLeaves rebuilds an ite-tree with constant leaves, applying f to every leaf.
func (c *TermCtx) mapLeaves(t *Term, f func(*Term) *Term, memo map[*Term]*Term) *Term {
	if t.Op == OpConst {
		return f(t)
	}
	if r, ok := memo[t]; ok {
		return r
	}
	r := c.Ite(t.Args[0], c.mapLeaves(t.Args[1], f, memo), c.mapLeaves(t.Args[2], f, memo))
	memo[t] = r
	return r
}

func (c *TermCtx) pushable(t *Term) bool {
	return t.Op == OpIte && t.constLeaves()
}
