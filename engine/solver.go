package main

import (
	"bufio"
	"fmt"
	"io"
	"os"
	"os/exec"
	"strconv"
	"strings"
	"time"
)

type SatResult int

const (
	Unsat SatResult = iota
	Sat
	Unknown
)

func (r SatResult) String() string { return [...]string{"unsat", "sat", "unknown"}[r] }

// Solver is one long-lived SMT-LIB2 solver process.
type Solver struct {
	name    string
	cmd     *exec.Cmd
	in      io.WriteCloser
	out     *bufio.Reader
	levels  []*level // levels[0] is the base
	Queries int
	SatQ    int
	UnsatQ  int
	UnkQ    int
	Fallbacks int
	Time    time.Duration
	Errors  []string
	timeout int // ms
	dead    bool
}

type level struct {
	defined  map[int]bool
	declared map[string]bool
	lines    []string
}

func newLevel() *level { return &level{defined: map[int]bool{}, declared: map[string]bool{}} }

func solverArgv(name string, timeoutMs int) []string {
	switch name {
	case "z3":
		return []string{"z3", "-in"}
	case "z3-new":
		return []string{"z3-new", "-in"}
	case "cvc5":
		return []string{"cvc5", "--incremental", "--lang=smt2", "--produce-models", "--tlimit-per=" + strconv.Itoa(timeoutMs)}
	}
	return []string{name, "-in"}
}

func NewSolver(name string, timeoutMs int) (*Solver, error) {
	argv := solverArgv(name, timeoutMs)
	cmd := exec.Command(argv[0], argv[1:]...)
	in, err := cmd.StdinPipe()
	if err != nil {
		return nil, err
	}
	out, err := cmd.StdoutPipe()
	if err != nil {
		return nil, err
	}
	cmd.Stderr = nil
	if err := cmd.Start(); err != nil {
		return nil, err
	}
	s := &Solver{name: name, cmd: cmd, in: in, out: bufio.NewReaderSize(out, 1<<16), timeout: timeoutMs}
	s.levels = []*level{newLevel()}
	if name != "cvc5" {
		s.raw(fmt.Sprintf("(set-option :timeout %d)", timeoutMs))
	} else {
		s.raw("(set-logic ALL)")
	}
	s.raw("(set-option :produce-models true)")
	return s, nil
}

func (s *Solver) Close() {
	if s.dead {
		return
	}
	s.dead = true
	s.in.Close()
	s.cmd.Process.Kill()
	s.cmd.Wait()
}

func (s *Solver) raw(line string) {
	io.WriteString(s.in, line)
	io.WriteString(s.in, "\n")
}

func (s *Solver) top() *level { return s.levels[len(s.levels)-1] }

func (s *Solver) emit(line string) {
	s.top().lines = append(s.top().lines, line)
	s.raw(line)
}

func (s *Solver) isDefined(id int) bool {
	for _, l := range s.levels {
		if l.defined[id] {
			return true
		}
	}
	return false
}

func (s *Solver) isDeclared(n string) bool {
	for _, l := range s.levels {
		if l.declared[n] {
			return true
		}
	}
	return false
}

// define makes sure t and all its sub-terms are known to the solver.
func (s *Solver) define(t *Term) {
	switch t.Op {
	case OpConst:
		return
	case OpVar:
		if !s.isDeclared(t.Name) {
			s.top().declared[t.Name] = true
			s.emit("(declare-const " + t.Name + " " + sortStr(t.W) + ")")
		}
		return
	}
	if s.isDefined(t.ID) {
		return
	}
	// iterative post-order to survive deep terms
	type fr struct {
		t *Term
		i int
	}
	stack := []fr{{t, 0}}
	for len(stack) > 0 {
		f := &stack[len(stack)-1]
		if f.i < len(f.t.Args) {
			a := f.t.Args[f.i]
			f.i++
			if a.Op == OpConst {
				continue
			}
			if a.Op == OpVar {
				s.define(a)
				continue
			}
			if !s.isDefined(a.ID) {
				stack = append(stack, fr{a, 0})
			}
			continue
		}
		cur := f.t
		stack = stack[:len(stack)-1]
		if s.isDefined(cur.ID) {
			continue
		}
		if cur.Op == OpUF && !s.isDeclared(cur.Name) {
			s.top().declared[cur.Name] = true
			var sb strings.Builder
			sb.WriteString("(declare-fun " + cur.Name + " (")
			for i, a := range cur.Args {
				if i > 0 {
					sb.WriteByte(' ')
				}
				sb.WriteString(sortStr(a.W))
			}
			sb.WriteString(") " + sortStr(cur.W) + ")")
			s.emit(sb.String())
		}
		s.top().defined[cur.ID] = true
		s.emit("(define-fun t" + strconv.Itoa(cur.ID) + " () " + sortStr(cur.W) + " " + cur.body() + ")")
	}
}

func (s *Solver) Push() {
	s.levels = append(s.levels, newLevel())
	s.raw("(push 1)")
}

func (s *Solver) Pop() {
	s.levels = s.levels[:len(s.levels)-1]
	s.raw("(pop 1)")
}

func (s *Solver) Assert(t *Term) {
	if t.IsConst() && t.Val != 0 {
		return
	}
	s.define(t)
	s.emit("(assert " + t.ref() + ")")
}

func (s *Solver) readLine() (string, error) {
	l, err := s.out.ReadString('\n')
	return strings.TrimSpace(l), err
}

func (s *Solver) readCheck() SatResult {
	for {
		l, err := s.readLine()
		if err != nil {
			s.Errors = append(s.Errors, "solver died: "+err.Error())
			s.dead = true
			return Unknown
		}
		switch {
		case l == "sat":
			return Sat
		case l == "unsat":
			return Unsat
		case l == "unknown" || l == "timeout":
			return Unknown
		case strings.HasPrefix(l, "(error"):
			s.Errors = append(s.Errors, l)
			// keep reading; the check-sat answer still follows, but the result is not trusted
		case l == "":
		default:
			s.Errors = append(s.Errors, "unexpected solver output: "+l)
		}
	}
}

// CheckWith decides satisfiability of the current assertions plus extra (nil = none).
func (s *Solver) CheckWith(extra *Term, neg bool) SatResult {
	r, _ := s.CheckModel(extra, neg, nil)
	return r
}

// CheckModel is CheckWith that also returns the values of vars when the answer is sat.
func (s *Solver) CheckModel(extra *Term, neg bool, vars []*Term) (SatResult, map[string]uint64) {
	if s.dead {
		return Unknown, nil
	}
	var model map[string]uint64
	nerr := len(s.Errors)
	start := time.Now()
	s.Queries++
	var r SatResult
	if extra == nil {
		s.raw("(check-sat)")
		r = s.readCheck()
		if r == Sat && len(vars) > 0 {
			model = s.getValues(vars)
		}
	} else {
		s.define(extra)
		lit := extra.ref()
		if neg {
			lit = "(not " + lit + ")"
		}
		s.raw("(push 1)")
		s.raw("(assert " + lit + ")")
		s.raw("(check-sat)")
		r = s.readCheck()
		if r == Sat && len(vars) > 0 {
			model = s.getValues(vars)
		}
		s.raw("(pop 1)")
	}
	if len(s.Errors) > nerr {
		r = Unknown
	}
	if r == Unknown && !s.dead && !noPortfolio {
		// portfolio fallback: the other installed solvers decide the same standalone script
		r, model = s.portfolio(extra, neg, vars)
		s.Fallbacks++
	}
	el := time.Since(start)
	s.Time += el
	if slowQ > 0 && el > slowQ {
		slowN++
		fn := fmt.Sprintf("/tmp/slowq_%d_%d.smt2", os.Getpid(), slowN)
		os.WriteFile(fn, []byte(s.Script(extra, neg)), 0o644)
		fmt.Fprintf(os.Stderr, "slow query %v (%s) levels=%d -> %s\n", el, r, len(s.levels), fn)
	}
	switch r {
	case Sat:
		s.SatQ++
	case Unsat:
		s.UnsatQ++
	default:
		s.UnkQ++
	}
	return r, model
}

func (s *Solver) readSexp() (string, error) {
	var sb strings.Builder
	depth := 0
	started := false
	for {
		l, err := s.out.ReadString('\n')
		if err != nil {
			return sb.String(), err
		}
		sb.WriteString(l)
		for _, ch := range l {
			if ch == '(' {
				depth++
				started = true
			} else if ch == ')' {
				depth--
			}
		}
		if started && depth <= 0 {
			return sb.String(), nil
		}
		if !started && strings.TrimSpace(l) != "" {
			return sb.String(), nil
		}
	}
}

func (s *Solver) getValues(vars []*Term) map[string]uint64 {
	m := map[string]uint64{}
	// chunk to keep lines reasonable
	for i := 0; i < len(vars); i += 64 {
		j := i + 64
		if j > len(vars) {
			j = len(vars)
		}
		var sb strings.Builder
		sb.WriteString("(get-value (")
		n := 0
		for _, v := range vars[i:j] {
			if v.Op != OpVar || !s.isDeclared(v.Name) {
				continue
			}
			sb.WriteString(v.Name + " ")
			n++
		}
		sb.WriteString("))")
		if n == 0 {
			continue
		}
		s.raw(sb.String())
		resp, err := s.readSexp()
		if err != nil || strings.Contains(resp, "(error") {
			s.Errors = append(s.Errors, "get-value: "+resp)
			return m
		}
		parseValues(resp, m)
	}
	return m
}

// parseValues reads ((name value) ...) where value is #x.., #b.., true/false or (_ bvN w).
func parseValues(resp string, m map[string]uint64) {
	toks := tokenize(resp)
	for i := 0; i+2 < len(toks); i++ {
		if toks[i] != "(" {
			continue
		}
		name := toks[i+1]
		if name == "(" || name == ")" {
			continue
		}
		val := toks[i+2]
		switch {
		case strings.HasPrefix(val, "#x"):
			v, _ := strconv.ParseUint(val[2:], 16, 64)
			m[name] = v
		case strings.HasPrefix(val, "#b"):
			v, _ := strconv.ParseUint(val[2:], 2, 64)
			m[name] = v
		case val == "true":
			m[name] = 1
		case val == "false":
			m[name] = 0
		case val == "(" && i+4 < len(toks) && toks[i+3] == "_" && strings.HasPrefix(toks[i+4], "bv"):
			v, _ := strconv.ParseUint(toks[i+4][2:], 10, 64)
			m[name] = v
		}
	}
}

func tokenize(s string) []string {
	var toks []string
	cur := ""
	flush := func() {
		if cur != "" {
			toks = append(toks, cur)
			cur = ""
		}
	}
	for _, ch := range s {
		switch ch {
		case '(', ')':
			flush()
			toks = append(toks, string(ch))
		case ' ', '\n', '\t', '\r':
			flush()
		default:
			cur += string(ch)
		}
	}
	flush()
	return toks
}

// Script returns a standalone SMT-LIB2 script of the live scope plus a final literal.
func (s *Solver) Script(extra *Term, neg bool) string {
	var sb strings.Builder
	for _, l := range s.levels {
		for _, ln := range l.lines {
			sb.WriteString(ln)
			sb.WriteByte('\n')
		}
	}
	if extra != nil {
		lit := extra.ref()
		if neg {
			lit = "(not " + lit + ")"
		}
		sb.WriteString("(assert " + lit + ")\n")
	}
	sb.WriteString("(check-sat)\n")
	return sb.String()
}

var slowQ = func() time.Duration {
	ms, _ := strconv.Atoi(os.Getenv("GOSYM_SLOWQ"))
	return time.Duration(ms) * time.Millisecond
}()
var slowN int
