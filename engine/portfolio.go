package main

import (
	"bytes"
	"context"
	"fmt"
	"os"
	"os/exec"
	"path/filepath"
	"strings"
	"sync/atomic"
	"time"
)

var noPortfolio = os.Getenv("GOSYM_NOPORTFOLIO") != ""
var portfolioSeq int64

// portfolio re-decides the current query as a standalone script with the other solvers of the image
// (whichever the primary is not), in parallel; the first definite answer wins.
func (s *Solver) portfolio(extra *Term, neg bool, vars []*Term) (SatResult, map[string]uint64) {
	script := s.Script(extra, neg)
	var names []string
	for _, v := range vars {
		if v.Op == OpVar && s.isDeclared(v.Name) {
			names = append(names, v.Name)
		}
	}
	if len(names) > 0 {
		script += "(get-value (" + strings.Join(names, " ") + "))\n"
	}
	dir := filepath.Join(os.TempDir(), "gosym-portfolio")
	os.MkdirAll(dir, 0o755)
	fn := filepath.Join(dir, fmt.Sprintf("q_%d_%d.smt2", os.Getpid(), atomic.AddInt64(&portfolioSeq, 1)))
	if err := os.WriteFile(fn, []byte("(set-option :produce-models true)\n"+script), 0o644); err != nil {
		return Unknown, nil
	}
	defer os.Remove(fn)
	factor := 6
	if s.timeout < 120000 {
		factor = 3 // quick tier: 30 s primary, 90 s for the other solvers
	}
	limit := time.Duration(s.timeout) * time.Millisecond * time.Duration(factor)
	ctx, cancel := context.WithTimeout(context.Background(), limit)
	defer cancel()
	type res struct {
		r     SatResult
		model map[string]uint64
		who   string
	}
	var cmds [][]string
	for _, n := range []string{"cvc5", "z3", "z3-new"} {
		if n == s.name {
			continue
		}
		switch n {
		case "cvc5":
			cmds = append(cmds, []string{"cvc5", "--lang=smt2", "--produce-models", fn})
		default:
			cmds = append(cmds, []string{n, fn})
		}
	}
	ch := make(chan res, len(cmds))
	for _, argv := range cmds {
		argv := argv
		go func() {
			out, _ := exec.CommandContext(ctx, argv[0], argv[1:]...).Output()
			text := string(bytes.TrimSpace(out))
			r := res{r: Unknown, who: argv[0]}
			// an (error ...) before the answer invalidates it; the one after "unsat" is only the
			// refused get-value
			if i := strings.Index(text, "(error"); i >= 0 && !strings.HasPrefix(text, "unsat") {
				ch <- r
				return
			}
			first := text
			rest := ""
			if i := strings.IndexByte(text, '\n'); i >= 0 {
				first, rest = text[:i], text[i+1:]
			}
			switch strings.TrimSpace(first) {
			case "sat":
				r.r = Sat
				r.model = map[string]uint64{}
				parseValues(rest, r.model)
			case "unsat":
				r.r = Unsat
			}
			ch <- r
		}()
	}
	for range cmds {
		r := <-ch
		if r.r != Unknown {
			cancel()
			return r.r, r.model
		}
	}
	return Unknown, nil
}
