package main

import (
	"go/constant"
	"go/token"
	"go/types"
	"math"
	"strings"
	"unicode/utf8"

	"golang.org/x/tools/go/ssa"
)

func (p *Path) constValue(c *ssa.Const) Value {
	tc := p.tc()
	t := c.Type()
	if c.Value == nil {
		return p.wk.zero(t)
	}
	switch u := t.Underlying().(type) {
	case *types.Basic:
		if w, signed, ok := intWidth(u); ok {
			if signed {
				return tc.BV(uint64(c.Int64()), w)
			}
			return tc.BV(c.Uint64(), w)
		}
		switch u.Kind() {
		case types.Bool, types.UntypedBool:
			return tc.Bool(constant.BoolVal(c.Value))
		case types.Float32:
			return tc.BV(uint64(math.Float32bits(float32(c.Float64()))), 32)
		case types.Float64, types.UntypedFloat:
			return tc.BV(math.Float64bits(c.Float64()), 64)
		case types.String, types.UntypedString:
			if c.Value.Kind() == constant.String {
				return StrV{s: constant.StringVal(c.Value)}
			}
			// string(int const)
			return StrV{s: string(rune(c.Int64()))}
		}
	case *types.TypeParam:
		panic(unsupportedf("type parameter constant"))
	}
	panic(unsupportedf("constant of type %s", t))
}

func (p *Path) asTerm(v Value) *Term {
	switch x := v.(type) {
	case *Term:
		return x
	case PoisonV:
		panic(unsupportedf("poisoned: %s", x.why))
	}
	panic(unsupportedf("expected scalar, got %T", v))
}

// fconst returns the concrete float value of a bit pattern.
func fconst(t *Term) float64 {
	if t.W == 32 {
		return float64(math.Float32frombits(uint32(t.Val)))
	}
	return math.Float64frombits(t.Val)
}

func (p *Path) fmake(f float64, w int) *Term {
	if w == 32 {
		return p.tc().BV(uint64(math.Float32bits(float32(f))), 32)
	}
	return p.tc().BV(math.Float64bits(f), 64)
}

func (p *Path) binop(op token.Token, xt, yt types.Type, xv, yv Value) Value {
	tc := p.tc()
	switch op {
	case token.EQL:
		return p.equal(xt, xv, yv)
	case token.NEQ:
		return tc.Not(p.equal(xt, xv, yv))
	}
	if isString(xt) {
		xs, ys := p.asStr(xv), p.asStr(yv)
		switch op {
		case token.ADD:
			return p.strConcat(xs, ys)
		case token.LSS:
			return p.strLess(xs, ys, false)
		case token.LEQ:
			return p.strLess(xs, ys, true)
		case token.GTR:
			return p.strLess(ys, xs, false)
		case token.GEQ:
			return p.strLess(ys, xs, true)
		}
		panic(unsupportedf("string op %s", op))
	}
	if fw, ok := isFloat(xt); ok {
		x, y := p.asTerm(xv), p.asTerm(yv)
		if x.IsConst() && y.IsConst() {
			a, b := fconst(x), fconst(y)
			if fw == 32 {
				a32, b32 := float32(a), float32(b)
				switch op {
				case token.ADD:
					return p.fmake(float64(a32+b32), 32)
				case token.SUB:
					return p.fmake(float64(a32-b32), 32)
				case token.MUL:
					return p.fmake(float64(a32*b32), 32)
				case token.QUO:
					return p.fmake(float64(a32/b32), 32)
				}
			}
			switch op {
			case token.ADD:
				return p.fmake(a+b, fw)
			case token.SUB:
				return p.fmake(a-b, fw)
			case token.MUL:
				return p.fmake(a*b, fw)
			case token.QUO:
				return p.fmake(a/b, fw)
			case token.LSS:
				return tc.Bool(a < b)
			case token.LEQ:
				return tc.Bool(a <= b)
			case token.GTR:
				return tc.Bool(a > b)
			case token.GEQ:
				return tc.Bool(a >= b)
			}
		}
		switch op {
		case token.ADD:
			return tc.FOp(OpFAdd, fw, 0, x, y)
		case token.SUB:
			return tc.FOp(OpFSub, fw, 0, x, y)
		case token.MUL:
			return tc.FOp(OpFMul, fw, 0, x, y)
		case token.QUO:
			return tc.FOp(OpFDiv, fw, 0, x, y)
		case token.LSS:
			return tc.FOp(OpFLt, 0, 0, x, y)
		case token.LEQ:
			return tc.FOp(OpFLe, 0, 0, x, y)
		case token.GTR:
			return tc.FOp(OpFLt, 0, 0, y, x)
		case token.GEQ:
			return tc.FOp(OpFLe, 0, 0, y, x)
		}
		panic(unsupportedf("float op %s", op))
	}
	if isBoolT(xt) {
		x, y := p.asTerm(xv), p.asTerm(yv)
		switch op {
		case token.AND, token.LAND:
			return tc.And(x, y)
		case token.OR, token.LOR:
			return tc.Or(x, y)
		}
		panic(unsupportedf("bool op %s", op))
	}
	w, signed, ok := isInt(xt)
	if !ok {
		panic(unsupportedf("binop %s on %s", op, xt))
	}
	x := p.asTerm(xv)
	y := p.asTerm(yv)
	switch op {
	case token.SHL, token.SHR:
		yw, ysigned, _ := isInt(yt)
		if ysigned {
			neg := tc.Cmp(OpBvSlt, y, tc.BV(0, yw))
			if p.branch(neg, "negative shift") {
				p.goPanicRT("negative shift amount")
				return nil
			}
		}
		// bring y to width w, saturating
		var ys *Term
		if yw > w {
			big := tc.Cmp(OpBvUle, tc.BV(uint64(w), yw), y)
			ys = tc.Ite(big, tc.BV(uint64(w), w), tc.Extract(y, w-1, 0))
		} else {
			ys = tc.Zext(y, w)
		}
		if op == token.SHL {
			return tc.Bin(OpBvShl, x, ys)
		}
		if signed {
			return tc.Bin(OpBvAshr, x, ys)
		}
		return tc.Bin(OpBvLshr, x, ys)
	}
	if y.W != x.W {
		panic(unsupportedf("binop %s width mismatch %d %d", op, x.W, y.W))
	}
	switch op {
	case token.ADD:
		return tc.Bin(OpBvAdd, x, y)
	case token.SUB:
		return tc.Bin(OpBvSub, x, y)
	case token.MUL:
		return tc.Bin(OpBvMul, x, y)
	case token.QUO, token.REM:
		if p.branch(tc.Eq(y, tc.BV(0, w)), "division by zero") {
			p.goPanicRT("integer divide by zero")
			return nil
		}
		if op == token.QUO {
			if signed {
				return tc.Bin(OpBvSdiv, x, y)
			}
			return tc.Bin(OpBvUdiv, x, y)
		}
		if signed {
			return tc.Bin(OpBvSrem, x, y)
		}
		return tc.Bin(OpBvUrem, x, y)
	case token.AND:
		return tc.Bin(OpBvAnd, x, y)
	case token.OR:
		return tc.Bin(OpBvOr, x, y)
	case token.XOR:
		return tc.Bin(OpBvXor, x, y)
	case token.AND_NOT:
		return tc.Bin(OpBvAnd, x, tc.BvNot(y))
	case token.LSS:
		if signed {
			return tc.Cmp(OpBvSlt, x, y)
		}
		return tc.Cmp(OpBvUlt, x, y)
	case token.LEQ:
		if signed {
			return tc.Cmp(OpBvSle, x, y)
		}
		return tc.Cmp(OpBvUle, x, y)
	case token.GTR:
		if signed {
			return tc.Cmp(OpBvSlt, y, x)
		}
		return tc.Cmp(OpBvUlt, y, x)
	case token.GEQ:
		if signed {
			return tc.Cmp(OpBvSle, y, x)
		}
		return tc.Cmp(OpBvUle, y, x)
	}
	panic(unsupportedf("int op %s", op))
}

func (p *Path) asStr(v Value) StrV {
	switch x := v.(type) {
	case StrV:
		return x
	case PoisonV:
		panic(unsupportedf("poisoned: %s", x.why))
	}
	panic(unsupportedf("expected string, got %T", v))
}

func (p *Path) strByte(s StrV, i int) *Term {
	if s.sym != nil {
		return s.sym[i]
	}
	return p.tc().BV(uint64(s.s[i]), 8)
}

func (p *Path) strBytes(s StrV) []*Term {
	if s.sym != nil {
		return s.sym
	}
	out := make([]*Term, len(s.s))
	for i := 0; i < len(s.s); i++ {
		out[i] = p.tc().BV(uint64(s.s[i]), 8)
	}
	return out
}

// mkStr builds a string value, staying concrete when all bytes are.
func (p *Path) mkStr(bs []*Term) StrV {
	conc := true
	for _, b := range bs {
		if !b.IsConst() {
			conc = false
			break
		}
	}
	if conc {
		buf := make([]byte, len(bs))
		for i, b := range bs {
			buf[i] = byte(b.Val)
		}
		return StrV{s: string(buf)}
	}
	if len(bs) == 0 {
		return StrV{}
	}
	return StrV{sym: append([]*Term(nil), bs...)}
}

func (p *Path) strConcat(a, b StrV) StrV {
	if a.Concrete() && b.Concrete() {
		return StrV{s: a.s + b.s}
	}
	return p.mkStr(append(append([]*Term(nil), p.strBytes(a)...), p.strBytes(b)...))
}

func refuseUnrendered(a, b StrV) {
	if (a.Concrete() && strings.Contains(a.s, unrenderedMark)) || (b.Concrete() && strings.Contains(b.s, unrenderedMark)) {
		panic(unsupportedf("comparison of a string that fmt rendered from an argument the engine cannot format"))
	}
}

func (p *Path) strEq(a, b StrV) *Term {
	tc := p.tc()
	refuseUnrendered(a, b)
	if a.Len() != b.Len() {
		return tc.False
	}
	if a.Concrete() && b.Concrete() {
		return tc.Bool(a.s == b.s)
	}
	r := tc.True
	for i := 0; i < a.Len(); i++ {
		r = tc.And(r, tc.Eq(p.strByte(a, i), p.strByte(b, i)))
	}
	return r
}

func (p *Path) strLess(a, b StrV, orEq bool) *Term {
	tc := p.tc()
	refuseUnrendered(a, b)
	if a.Concrete() && b.Concrete() {
		if orEq {
			return tc.Bool(a.s <= b.s)
		}
		return tc.Bool(a.s < b.s)
	}
	n := a.Len()
	if b.Len() < n {
		n = b.Len()
	}
	// result for equal common prefix
	var res *Term
	if orEq {
		res = tc.Bool(a.Len() <= b.Len())
	} else {
		res = tc.Bool(a.Len() < b.Len())
	}
	for i := n - 1; i >= 0; i-- {
		x, y := p.strByte(a, i), p.strByte(b, i)
		res = tc.Ite(tc.Cmp(OpBvUlt, x, y), tc.True, tc.Ite(tc.Cmp(OpBvUlt, y, x), tc.False, res))
	}
	return res
}

// equal implements == for any comparable static type.
func (p *Path) equal(t types.Type, xv, yv Value) *Term {
	tc := p.tc()
	if pv, ok := xv.(PoisonV); ok {
		panic(unsupportedf("poisoned: %s", pv.why))
	}
	if pv, ok := yv.(PoisonV); ok {
		panic(unsupportedf("poisoned: %s", pv.why))
	}
	switch x := xv.(type) {
	case *Term:
		y, ok := yv.(*Term)
		if !ok {
			panic(unsupportedf("== between %T and %T", xv, yv))
		}
		if fw, isf := isFloat(t); isf && t != nil {
			if x.IsConst() && y.IsConst() {
				return tc.Bool(fconst(x) == fconst(y))
			}
			_ = fw
			return tc.FOp(OpFEq, 0, 0, x, y)
		}
		return tc.Eq(x, y)
	case StrV:
		return p.strEq(x, p.asStr(yv))
	case PtrV:
		y, ok := yv.(PtrV)
		if !ok {
			panic(unsupportedf("== between pointer and %T", yv))
		}
		return tc.Bool(ptrEq(x, y))
	case IfaceV:
		y, ok := yv.(IfaceV)
		if !ok {
			panic(unsupportedf("== between interface and %T", yv))
		}
		if x.t == nil || y.t == nil {
			return tc.Bool(x.t == nil && y.t == nil)
		}
		if !types.Identical(x.t, y.t) {
			return tc.False
		}
		if !types.Comparable(x.t) {
			p.goPanicRT("comparing uncomparable type " + x.t.String())
			return tc.False
		}
		return p.equal(x.t, x.v, y.v)
	case *StructV:
		y := yv.(*StructV)
		r := tc.True
		var st *types.Struct
		if t != nil {
			st, _ = t.Underlying().(*types.Struct)
		}
		for i := range x.f {
			var ft types.Type
			if st != nil {
				ft = st.Field(i).Type()
			}
			r = tc.And(r, p.equal(ft, x.f[i], y.f[i]))
		}
		return r
	case *ArrayV:
		y := yv.(*ArrayV)
		r := tc.True
		var et types.Type
		if t != nil {
			if at, ok := t.Underlying().(*types.Array); ok {
				et = at.Elem()
			}
		}
		for i := range x.e {
			r = tc.And(r, p.equal(et, x.e[i], y.e[i]))
		}
		return r
	case SliceV:
		y := yv.(SliceV)
		if x.isNil || y.isNil {
			return tc.Bool(x.isNil && y.isNil)
		}
		panic(unsupportedf("slice comparison"))
	case MapV:
		y := yv.(MapV)
		return tc.Bool(x.id == y.id)
	case ChanV:
		y := yv.(ChanV)
		return tc.Bool(x.id == y.id)
	case FuncV:
		y := yv.(FuncV)
		if x.IsNil() || y.IsNil() {
			return tc.Bool(x.IsNil() && y.IsNil())
		}
		panic(unsupportedf("func comparison"))
	case NativeV:
		y, ok := yv.(NativeV)
		return tc.Bool(ok && x.kind == y.kind && x.data == y.data)
	}
	panic(unsupportedf("== on %T", xv))
}

func ptrEq(x, y PtrV) bool {
	if x.id != y.id || len(x.path) != len(y.path) {
		return false
	}
	for i := range x.path {
		if x.path[i] != y.path[i] {
			return false
		}
	}
	return true
}

func (p *Path) unop(in *ssa.UnOp, xv Value) Value {
	tc := p.tc()
	switch in.Op {
	case token.NOT:
		return tc.Not(p.asTerm(xv))
	case token.SUB:
		x := p.asTerm(xv)
		if fw, ok := isFloat(in.X.Type()); ok {
			if x.IsConst() {
				return p.fmake(-fconst(x), fw)
			}
			return tc.FOp(OpFNeg, fw, 0, x)
		}
		return tc.BvNeg(x)
	case token.XOR:
		return tc.BvNot(p.asTerm(xv))
	}
	panic(unsupportedf("unop %s", in.Op))
}

func (p *Path) convert(from, to types.Type, v Value) Value {
	tc := p.tc()
	if pv, ok := v.(PoisonV); ok {
		return pv
	}
	fu, tu := from.Underlying(), to.Underlying()
	// pointer <-> unsafe.Pointer
	if _, ok := v.(PtrV); ok {
		switch t := tu.(type) {
		case *types.Pointer:
			return v
		case *types.Basic:
			if t.Kind() == types.UnsafePointer {
				return v
			}
			if t.Kind() == types.Uintptr {
				if v.(PtrV).IsNil() {
					return tc.BV(0, 64)
				}
				// opaque but stable address: object id in the high bits
				pv := v.(PtrV)
				if len(pv.path) == 0 {
					return tc.BV(uint64(uint32(pv.id))<<16|0x1000, 64)
				}
				panic(unsupportedf("pointer to uintptr conversion"))
			}
		}
	}
	if tb, ok := tu.(*types.Basic); ok {
		if tb.Kind() == types.UnsafePointer {
			if t, ok := v.(*Term); ok && t.IsConst() && t.Val == 0 {
				return PtrV{}
			}
			panic(unsupportedf("uintptr to unsafe.Pointer conversion"))
		}
	}
	// string conversions
	if isString(to) {
		switch x := v.(type) {
		case StrV:
			return x
		case SliceV:
			// []byte or []rune
			et := fu.(*types.Slice).Elem()
			if w, _, _ := isInt(et); w == 8 {
				return p.mkStr(p.sliceBytes(x))
			}
			// []rune -> string
			var out []*Term
			for i := 0; i < x.len; i++ {
				r := p.asTerm(p.h.load(x.arr.child(x.off + i)))
				out = append(out, p.encodeRune(r)...)
			}
			return p.mkStr(out)
		case *Term:
			// integer -> string (rune)
			w, _, _ := isInt(from)
			r := x
			if w < 32 {
				r = tc.Zext(x, 32)
			} else if w > 32 {
				// out of range values become U+FFFD
				if x.IsConst() {
					val := sext64(x.Val, w)
					if val < 0 || val > 0x10FFFF {
						return StrV{s: "�"}
					}
				}
				r = tc.Extract(x, 31, 0)
			}
			return p.mkStr(p.encodeRune(r))
		}
	}
	if ts, ok := tu.(*types.Slice); ok {
		if s, ok := v.(StrV); ok {
			if w, _, _ := isInt(ts.Elem()); w == 8 {
				return p.newByteSlice(p.strBytes(s), to)
			}
			// []rune(string)
			var runes []Value
			bs := p.strBytes(s)
			for i := 0; i < len(bs); {
				r, n := p.decodeRune(bs[i:])
				runes = append(runes, r)
				i += n
			}
			arr := &ArrayV{e: runes}
			o := p.h.alloc(types.NewArray(ts.Elem(), int64(len(runes))), arr, "[]rune(string)")
			return SliceV{arr: PtrV{id: o.id}, len: len(runes), cap: len(runes)}
		}
		if sv, ok := v.(SliceV); ok {
			return sv
		}
	}
	// numeric
	x, ok := v.(*Term)
	if !ok {
		// same underlying representation (named types etc.)
		return v
	}
	fw, fsigned, fint := isInt(from)
	tw, tsigned, tint := isInt(to)
	ff, ffl := isFloat(from)
	tf, tfl := isFloat(to)
	switch {
	case fint && tint:
		if tw <= fw {
			return tc.Extract(x, tw-1, 0)
		}
		if fsigned {
			return tc.Sext(x, tw)
		}
		return tc.Zext(x, tw)
	case fint && tfl:
		if x.IsConst() {
			if fsigned {
				return p.fmake(float64(sext64(x.Val, fw)), tf)
			}
			return p.fmake(float64(x.Val), tf)
		}
		if fsigned {
			return tc.FOp(OpFFromSInt, tf, 0, x)
		}
		return tc.FOp(OpFFromUInt, tf, 0, x)
	case ffl && tint:
		if x.IsConst() {
			f := fconst(x)
			if tsigned {
				return tc.BV(uint64(int64(f)), tw)
			}
			return tc.BV(uint64(f), tw)
		}
		if tsigned {
			return tc.FOp(OpFToSInt, tw, 0, x)
		}
		return tc.FOp(OpFToUInt, tw, 0, x)
	case ffl && tfl:
		if ff == tf {
			return x
		}
		if x.IsConst() {
			return p.fmake(fconst(x), tf)
		}
		return tc.FOp(OpFToF, tf, 0, x)
	}
	if isBoolT(from) && isBoolT(to) {
		return x
	}
	panic(unsupportedf("convert %s -> %s", from, to))
}

func (p *Path) sliceBytes(s SliceV) []*Term {
	out := make([]*Term, s.len)
	if s.len == 0 {
		return out
	}
	arr := p.arrayAt(s.arr, false)
	for i := 0; i < s.len; i++ {
		out[i] = p.asTerm(arr.e[s.off+i])
	}
	return out
}

// arrayAt returns the (live) array value a pointer designates.
func (p *Path) arrayAt(ptr PtrV, write bool) *ArrayV {
	o := p.h.obj(ptr.id, write)
	cur := o.root
	for _, e := range ptr.path {
		if e.sym != nil {
			panic(unsupportedf("symbolic path to array"))
		}
		cur = stepElem(cur, e)
	}
	a, ok := cur.(*ArrayV)
	if !ok {
		if pv, isP := cur.(PoisonV); isP {
			panic(unsupportedf("poisoned: %s", pv.why))
		}
		panic(unsupportedf("slice backing is %T", cur))
	}
	return a
}

func (p *Path) newByteSlice(bs []*Term, t types.Type) SliceV {
	arr := &ArrayV{e: make([]Value, len(bs))}
	for i, b := range bs {
		arr.e[i] = b
	}
	o := p.h.alloc(types.NewArray(types.Typ[types.Uint8], int64(len(bs))), arr, "bytes")
	p.noteAlloc(int64(len(bs)))
	return SliceV{arr: PtrV{id: o.id}, len: len(bs), cap: len(bs)}
}

// encodeRune returns the UTF-8 bytes of r (width 32), forking on the encoded length when symbolic.
func (p *Path) encodeRune(r *Term) []*Term {
	tc := p.tc()
	if r.IsConst() {
		v := rune(int32(r.Val))
		buf := make([]byte, 4)
		n := utf8.EncodeRune(buf, v)
		out := make([]*Term, n)
		for i := 0; i < n; i++ {
			out[i] = tc.BV(uint64(buf[i]), 8)
		}
		return out
	}
	c := func(v uint64) *Term { return tc.BV(v, 32) }
	b8 := func(t *Term) *Term { return tc.Extract(t, 7, 0) }
	shr := func(t *Term, n uint64) *Term { return tc.Bin(OpBvLshr, t, c(n)) }
	or := func(a *Term, v uint64) *Term { return tc.Bin(OpBvOr, a, c(v)) }
	and := func(a *Term, v uint64) *Term { return tc.Bin(OpBvAnd, a, c(v)) }
	if p.branch(tc.Cmp(OpBvUle, r, c(0x7F)), "rune<=0x7f") {
		return []*Term{b8(r)}
	}
	if p.branch(tc.Cmp(OpBvUle, r, c(0x7FF)), "rune<=0x7ff") {
		return []*Term{b8(or(shr(r, 6), 0xC0)), b8(or(and(r, 0x3F), 0x80))}
	}
	bad := tc.Or(tc.Cmp(OpBvUlt, c(0x10FFFF), r), tc.And(tc.Cmp(OpBvUle, c(0xD800), r), tc.Cmp(OpBvUle, r, c(0xDFFF))))
	if p.branch(bad, "rune invalid") {
		return []*Term{tc.BV(0xEF, 8), tc.BV(0xBF, 8), tc.BV(0xBD, 8)}
	}
	if p.branch(tc.Cmp(OpBvUle, r, c(0xFFFF)), "rune<=0xffff") {
		return []*Term{b8(or(shr(r, 12), 0xE0)), b8(or(and(shr(r, 6), 0x3F), 0x80)), b8(or(and(r, 0x3F), 0x80))}
	}
	return []*Term{b8(or(shr(r, 18), 0xF0)), b8(or(and(shr(r, 12), 0x3F), 0x80)), b8(or(and(shr(r, 6), 0x3F), 0x80)), b8(or(and(r, 0x3F), 0x80))}
}

// decodeRune decodes the first rune of bs (len>0), forking on symbolic bytes like utf8.DecodeRune.
func (p *Path) decodeRune(bs []*Term) (*Term, int) {
	tc := p.tc()
	allConst := true
	lim := len(bs)
	if lim > 4 {
		lim = 4
	}
	for _, b := range bs[:lim] {
		if !b.IsConst() {
			allConst = false
		}
	}
	if allConst {
		buf := make([]byte, lim)
		for i := range buf {
			buf[i] = byte(bs[i].Val)
		}
		r, n := utf8.DecodeRune(buf)
		return tc.BV(uint64(uint32(r)), 32), n
	}
	c8 := func(v uint64) *Term { return tc.BV(v, 8) }
	z := func(t *Term) *Term { return tc.Zext(t, 32) }
	runeErr := tc.BV(0xFFFD, 32)
	b0 := bs[0]
	if p.branch(tc.Cmp(OpBvUlt, b0, c8(0x80)), "utf8 ascii") {
		return z(b0), 1
	}
	inr := func(b *Term, lo, hi uint64) *Term {
		return tc.And(tc.Cmp(OpBvUle, c8(lo), b), tc.Cmp(OpBvUle, b, c8(hi)))
	}
	cont := func(b *Term) *Term { return tc.Bin(OpBvAnd, z(b), tc.BV(0x3F, 32)) }
	shl := func(t *Term, n uint64) *Term { return tc.Bin(OpBvShl, t, tc.BV(n, 32)) }
	or := func(a, b *Term) *Term { return tc.Bin(OpBvOr, a, b) }
	// 2-byte
	if p.branch(inr(b0, 0xC2, 0xDF), "utf8 2-byte lead") {
		if len(bs) < 2 || !p.branch(inr(bs[1], 0x80, 0xBF), "utf8 cont1") {
			return runeErr, 1
		}
		return or(shl(tc.Bin(OpBvAnd, z(b0), tc.BV(0x1F, 32)), 6), cont(bs[1])), 2
	}
	if p.branch(inr(b0, 0xE0, 0xEF), "utf8 3-byte lead") {
		if len(bs) < 3 {
			return runeErr, 1
		}
		// accept ranges for second byte depend on lead
		lo := tc.Ite(tc.Eq(b0, c8(0xE0)), c8(0xA0), c8(0x80))
		hi := tc.Ite(tc.Eq(b0, c8(0xED)), c8(0x9F), c8(0xBF))
		ok1 := tc.And(tc.Cmp(OpBvUle, lo, bs[1]), tc.Cmp(OpBvUle, bs[1], hi))
		if !p.branch(tc.And(ok1, inr(bs[2], 0x80, 0xBF)), "utf8 3-byte conts") {
			return runeErr, 1
		}
		return or(or(shl(tc.Bin(OpBvAnd, z(b0), tc.BV(0x0F, 32)), 12), shl(cont(bs[1]), 6)), cont(bs[2])), 3
	}
	if p.branch(inr(b0, 0xF0, 0xF4), "utf8 4-byte lead") {
		if len(bs) < 4 {
			return runeErr, 1
		}
		lo := tc.Ite(tc.Eq(b0, c8(0xF0)), c8(0x90), c8(0x80))
		hi := tc.Ite(tc.Eq(b0, c8(0xF4)), c8(0x8F), c8(0xBF))
		ok1 := tc.And(tc.Cmp(OpBvUle, lo, bs[1]), tc.Cmp(OpBvUle, bs[1], hi))
		if !p.branch(tc.And(ok1, tc.And(inr(bs[2], 0x80, 0xBF), inr(bs[3], 0x80, 0xBF))), "utf8 4-byte conts") {
			return runeErr, 1
		}
		return or(or(or(shl(tc.Bin(OpBvAnd, z(b0), tc.BV(0x07, 32)), 18), shl(cont(bs[1]), 12)), shl(cont(bs[2]), 6)), cont(bs[3])), 4
	}
	return runeErr, 1
}
