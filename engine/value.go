package main

import (
	"fmt"
	"go/types"
	"strings"

	"golang.org/x/tools/go/ssa"
)

// Value is the interpreter's value domain:
//
//	*Term     bool, integers, floats (IEEE bit pattern), uintptr
//	StrV      string
//	PtrV      pointer (also unsafe.Pointer)
//	SliceV    slice
//	*StructV  struct (mutable only while owned by a heap object; copied on load/store)
//	*ArrayV   array
//	IfaceV    interface
//	MapV      map reference
//	ChanV     channel reference
//	FuncV     function / closure
//	TupleV    multiple results
//	PoisonV   result of an unsupported computation during package initialisation
type Value interface{}

type StrV struct {
	s   string  // concrete contents when sym == nil
	sym []*Term // per byte terms (width 8) otherwise
}

func (s StrV) Len() int {
	if s.sym != nil {
		return len(s.sym)
	}
	return len(s.s)
}

func (s StrV) Concrete() bool { return s.sym == nil }

type ObjID int32

type pelem struct {
	i   int
	sym *Term // symbolic index (64 bit); only allowed as the last element
	view int  // >0: this element designates the sub-array [i:i+view] of the array (slice-to-array-pointer)
}

type PtrV struct {
	id   ObjID
	path []pelem
}

func (p PtrV) IsNil() bool { return p.id == 0 }

func (p PtrV) child(i int) PtrV {
	np := make([]pelem, len(p.path)+1)
	copy(np, p.path)
	np[len(p.path)] = pelem{i: i}
	return PtrV{id: p.id, path: np}
}

func (p PtrV) childSym(t *Term) PtrV {
	np := make([]pelem, len(p.path)+1)
	copy(np, p.path)
	np[len(p.path)] = pelem{sym: t}
	return PtrV{id: p.id, path: np}
}

func (p PtrV) key() string {
	var sb strings.Builder
	fmt.Fprintf(&sb, "%d", p.id)
	for _, e := range p.path {
		if e.sym != nil {
			fmt.Fprintf(&sb, "/s%d", e.sym.ID)
		} else {
			if e.view > 0 {
				fmt.Fprintf(&sb, "/%d:%d", e.i, e.view)
			} else {
				fmt.Fprintf(&sb, "/%d", e.i)
			}
		}
	}
	return sb.String()
}

type SliceV struct {
	arr           PtrV // pointer to the backing array value
	off, len, cap int
	isNil         bool
}

type StructV struct{ f []Value }
type ArrayV struct{ e []Value }

type IfaceV struct {
	t types.Type // nil = nil interface
	v Value
}

type MapV struct{ id ObjID }
type ChanV struct{ id ObjID }

type FuncV struct {
	fn      *ssa.Function
	free    []Value
	builtin *ssa.Builtin
	native  string // name of an engine-native function value
}

func (f FuncV) IsNil() bool { return f.fn == nil && f.builtin == nil && f.native == "" }

type TupleV []Value

type PoisonV struct{ why string }

// NativeV is an engine-implemented object living behind an interface or pointer.
type NativeV struct {
	kind string
	data interface{}
}

// RangeIter is the state of a Range instruction.
type RangeIter struct {
	str  *StrV
	m    ObjID
	keys []Value // snapshot of map keys
	pos  int
}

// MapData is the root value of a map object.
type MapData struct {
	keys []Value
	vals []Value
	idx  map[string]int // concrete key -> position
	kt   types.Type
	vt   types.Type
}

func (m *MapData) clone() *MapData {
	n := &MapData{kt: m.kt, vt: m.vt, idx: make(map[string]int, len(m.idx))}
	n.keys = make([]Value, len(m.keys))
	n.vals = make([]Value, len(m.vals))
	for i := range m.keys {
		n.keys[i] = copyVal(m.keys[i])
		n.vals[i] = copyVal(m.vals[i])
	}
	for k, v := range m.idx {
		n.idx[k] = v
	}
	return n
}

// ChanData is the root value of a channel object.
type ChanData struct {
	buf    []Value
	cap    int
	closed bool
	et     types.Type
	// rendezvous state for unbuffered channels
	recvWaiting int
}

func (c *ChanData) clone() *ChanData {
	n := *c
	n.buf = append([]Value(nil), c.buf...)
	return &n
}

func copyVal(v Value) Value {
	switch x := v.(type) {
	case *StructV:
		n := &StructV{f: make([]Value, len(x.f))}
		for i, f := range x.f {
			n.f[i] = copyVal(f)
		}
		return n
	case *ArrayV:
		n := &ArrayV{e: make([]Value, len(x.e))}
		for i, f := range x.e {
			n.e[i] = copyVal(f)
		}
		return n
	case *MapData:
		return x.clone()
	case *ChanData:
		return x.clone()
	}
	return v
}

func intWidth(b *types.Basic) (w int, signed bool, ok bool) {
	switch b.Kind() {
	case types.Int8:
		return 8, true, true
	case types.Int16:
		return 16, true, true
	case types.Int32, types.UntypedRune:
		return 32, true, true
	case types.Int64, types.Int, types.UntypedInt:
		return 64, true, true
	case types.Uint8:
		return 8, false, true
	case types.Uint16:
		return 16, false, true
	case types.Uint32:
		return 32, false, true
	case types.Uint64, types.Uint, types.Uintptr:
		return 64, false, true
	}
	return 0, false, false
}

func isFloat(t types.Type) (int, bool) {
	if b, ok := t.Underlying().(*types.Basic); ok {
		switch b.Kind() {
		case types.Float32:
			return 32, true
		case types.Float64, types.UntypedFloat:
			return 64, true
		}
	}
	return 0, false
}

func isInt(t types.Type) (int, bool, bool) {
	if b, ok := t.Underlying().(*types.Basic); ok {
		return intWidth(b)
	}
	return 0, false, false
}

func isString(t types.Type) bool {
	b, ok := t.Underlying().(*types.Basic)
	return ok && b.Info()&types.IsString != 0
}

func isBoolT(t types.Type) bool {
	b, ok := t.Underlying().(*types.Basic)
	return ok && b.Info()&types.IsBoolean != 0
}

// zero builds the zero value of t.
func (wk *Worker) zero(t types.Type) Value {
	switch u := t.Underlying().(type) {
	case *types.Basic:
		if w, _, ok := intWidth(u); ok {
			return wk.tc.BV(0, w)
		}
		switch u.Kind() {
		case types.Bool, types.UntypedBool:
			return wk.tc.False
		case types.Float32:
			return wk.tc.BV(0, 32)
		case types.Float64, types.UntypedFloat:
			return wk.tc.BV(0, 64)
		case types.String, types.UntypedString:
			return StrV{}
		case types.UnsafePointer:
			return PtrV{}
		case types.UntypedNil:
			return IfaceV{}
		case types.Complex64, types.Complex128:
			return PoisonV{"complex numbers"}
		}
	case *types.Pointer:
		return PtrV{}
	case *types.Slice:
		return SliceV{isNil: true}
	case *types.Map:
		return MapV{}
	case *types.Chan:
		return ChanV{}
	case *types.Signature:
		return FuncV{}
	case *types.Interface:
		return IfaceV{}
	case *types.Struct:
		s := &StructV{f: make([]Value, u.NumFields())}
		for i := range s.f {
			s.f[i] = wk.zero(u.Field(i).Type())
		}
		return s
	case *types.Array:
		n := int(u.Len())
		a := &ArrayV{e: make([]Value, n)}
		et := u.Elem()
		if n > 0 {
			z := wk.zero(et)
			switch z.(type) {
			case *StructV, *ArrayV:
				a.e[0] = z
				for i := 1; i < n; i++ {
					a.e[i] = copyVal(z)
				}
			default:
				for i := range a.e {
					a.e[i] = z
				}
			}
		}
		return a
	case *types.Tuple:
		tv := make(TupleV, u.Len())
		for i := range tv {
			tv[i] = wk.zero(u.At(i).Type())
		}
		return tv
	}
	panic(unsupportedf("zero value of %s", t))
}

func describe(v Value) string {
	switch x := v.(type) {
	case nil:
		return "<nil>"
	case *Term:
		if x.IsConst() {
			if x.W == 0 {
				return fmt.Sprint(x.Val != 0)
			}
			return fmt.Sprintf("%d", x.Val)
		}
		return "sym:" + x.ref()
	case StrV:
		if x.Concrete() {
			return fmt.Sprintf("%q", x.s)
		}
		return fmt.Sprintf("symstr[%d]", len(x.sym))
	case PtrV:
		if x.IsNil() {
			return "nilptr"
		}
		return "&" + x.key()
	case SliceV:
		return fmt.Sprintf("slice(%s,%d,%d,%d)", x.arr.key(), x.off, x.len, x.cap)
	case *StructV:
		parts := []string{}
		for _, f := range x.f {
			parts = append(parts, describe(f))
		}
		return "{" + strings.Join(parts, ",") + "}"
	case *ArrayV:
		return fmt.Sprintf("array[%d]", len(x.e))
	case IfaceV:
		if x.t == nil {
			return "nil-iface"
		}
		return fmt.Sprintf("iface(%s:%s)", x.t, describe(x.v))
	case FuncV:
		if x.fn != nil {
			return "func " + x.fn.String()
		}
		return "func?"
	case TupleV:
		parts := []string{}
		for _, f := range x {
			parts = append(parts, describe(f))
		}
		return "(" + strings.Join(parts, ",") + ")"
	case PoisonV:
		return "poison(" + x.why + ")"
	}
	return fmt.Sprintf("%T", v)
}
