package main

import (
	"fmt"
	"strings"

	"golang.org/x/tools/go/ssa"
)

// fairnessBound is the number of consecutive synchronisation operations one goroutine may execute
// while others are runnable before the scheduler forces a switch (only unfair infinite schedules are cut).
const fairnessBound = 40

type lockState struct {
	writer  int // thread id, -1 = none
	readers map[int]int
	site    string
	key     string
}

func (p *Path) lock(key string) *lockState {
	l, ok := p.locks[key]
	if !ok {
		l = &lockState{writer: -1, readers: map[int]int{}, key: key}
		p.locks[key] = l
	}
	return l
}

func (l *lockState) free() bool { return l.writer < 0 && len(l.readers) == 0 }

func (p *Path) enabled(th *Thread) bool {
	switch th.state {
	case thRunnable:
		return true
	case thBlocked:
		return th.wake != nil && th.wake()
	}
	return false
}

func (p *Path) block(th *Thread, wake func() bool, why string) {
	th.state = thBlocked
	th.wake = wake
	th.name = why
}

// pickThread returns the next thread to step, or nil when the run is complete.
func (p *Path) pickThread() *Thread {
	cur := p.threads[p.cur]
	if cur.state == thRunnable {
		return cur
	}
	var en []*Thread
	for _, t := range p.threads {
		if p.enabled(t) {
			en = append(en, t)
		}
	}
	if len(en) == 0 {
		// all done or stuck
		var stuck []string
		mutexStuck := false
		for _, t := range p.threads {
			if t.state == thBlocked {
				stuck = append(stuck, fmt.Sprintf("thread %d blocked on %s", t.id, t.name))
				if strings.HasPrefix(t.name, "mutex") || t.id == 0 {
					mutexStuck = true
				}
			}
		}
		if mutexStuck {
			p.cur = 0
			for _, t := range p.threads {
				if t.state == thBlocked {
					p.cur = t.id
					break
				}
			}
			p.violationNow("deadlock", "no goroutine can make progress: "+strings.Join(stuck, "; "))
			panic(pathEnd{endStop, "deadlock"})
		}
		if len(stuck) > 0 {
			p.note("goroutines left blocked at harness end: %s", strings.Join(stuck, "; "))
		}
		return nil
	}
	i := 0
	if len(en) > 1 {
		i = p.chooseN(len(en), "schedule")
	}
	t := en[i]
	t.state = thRunnable
	t.wake = nil
	p.cur = t.id
	return t
}

// schedPoint is a possible context switch (bounded by maxPreempt).
func (p *Path) schedPoint(th *Thread, what string) {
	if len(p.threads) <= 1 || p.nofork {
		return
	}
	p.schedPoints++
	th.syncSince++
	var others []*Thread
	for _, t := range p.threads {
		if t != th && p.enabled(t) {
			others = append(others, t)
		}
	}
	if len(others) == 0 {
		return
	}
	if th.syncSince > fairnessBound {
		// fairness: a goroutine that keeps performing synchronisation operations while others are
		// runnable (a retry/spin loop waiting for them) is eventually descheduled. Not a preemption.
		th.syncSince = 0
		t := others[0]
		t.state = thRunnable
		t.wake = nil
		p.cur = t.id
		return
	}
	if p.preempts >= p.maxPreempt {
		return
	}
	i := p.chooseN(len(others)+1, "preempt@"+what)
	if i == 0 {
		return
	}
	p.preempts++
	th.syncSince = 0
	t := others[i-1]
	t.state = thRunnable
	t.wake = nil
	p.cur = t.id
}

// ---------- mutex model ----------

func (p *Path) mutexKey(v Value) string {
	ptr := p.asPtr(v)
	if ptr.IsNil() {
		p.goPanicRT("invalid memory address or nil pointer dereference (nil mutex)")
		return ""
	}
	return ptr.key()
}

func removeOne(s []string, k string) []string {
	for i := len(s) - 1; i >= 0; i-- {
		if s[i] == k {
			return append(s[:i:i], s[i+1:]...)
		}
	}
	return s
}

func (p *Path) muLock(c *callCtx, write bool, try bool) (Value, ctl) {
	key := p.mutexKey(c.args[0])
	if key == "" {
		return nil, ctlPanicked
	}
	th := c.th
	l := p.lock(key)
	can := l.free()
	if !write {
		can = l.writer < 0
	}
	if !can {
		if try {
			return p.tc().False, ctlRet
		}
		kind := "mutex"
		if !write {
			kind = "mutex(read)"
		}
		holder := l.site
		p.block(th, func() bool {
			if write {
				return l.free()
			}
			return l.writer < 0
		}, fmt.Sprintf("%s %s (held since %s)", kind, key, holder))
		return nil, ctlBlock
	}
	if write {
		l.writer = th.id
	} else {
		l.readers[th.id]++
	}
	l.site = p.where()
	th.held = append(th.held, key)
	if try {
		return p.tc().True, ctlRet
	}
	return nil, ctlRet
}

func (p *Path) muUnlock(c *callCtx, write bool) (Value, ctl) {
	key := p.mutexKey(c.args[0])
	if key == "" {
		return nil, ctlPanicked
	}
	l := p.lock(key)
	if write {
		if l.writer < 0 {
			p.violationNow("panic", "fatal error: sync: unlock of unlocked mutex")
			panic(pathEnd{endStop, "unlock of unlocked mutex"})
		}
		holder := l.writer
		l.writer = -1
		p.threads[holder].held = removeOne(p.threads[holder].held, key)
	} else {
		// any reader count may be released by any goroutine in Go; we release this thread's first
		tid := c.th.id
		if l.readers[tid] == 0 {
			found := false
			for k := range l.readers {
				tid = k
				found = true
				break
			}
			if !found {
				p.violationNow("panic", "fatal error: sync: RUnlock of unlocked RWMutex")
				panic(pathEnd{endStop, "runlock of unlocked rwmutex"})
			}
		}
		l.readers[tid]--
		if l.readers[tid] == 0 {
			delete(l.readers, tid)
		}
		p.threads[tid].held = removeOne(p.threads[tid].held, key)
	}
	return nil, ctlRet
}

func (p *Path) heldBy(th *Thread, key string, write bool) bool {
	l, ok := p.locks[key]
	if !ok {
		return false
	}
	if l.writer == th.id {
		return true
	}
	if !write && l.readers[th.id] > 0 {
		return true
	}
	return false
}

// ---------- lockset monitor ----------

func (p *Path) inHarnessCode(th *Thread) bool {
	fr := th.top()
	if fr.fn == nil {
		return true
	}
	pos := fr.fn.Pos()
	if !pos.IsValid() {
		if fr.fn.Parent() != nil {
			pos = fr.fn.Parent().Pos()
		}
	}
	if !pos.IsValid() {
		return false
	}
	fn := p.wk.w.fset.Position(pos).Filename
	// harness files and the engine's Go-bodied models (sync.Map, sync.Once, ...) are not code under test
	return strings.Contains(fn, "zz_verif") || strings.Contains(fn, "/zzverif/")
}

func (p *Path) guardViolation(th *Thread, what string, mu string, write bool) {
	mode := "read"
	if write {
		mode = "write"
	}
	p.violationNow("race", fmt.Sprintf("%s of %s without holding its guarding lock %s", mode, what, mu))
	panic(pathEnd{endStop, "lockset violation"})
}

// ---------- Eraser-style lockset race monitor over all heap cells (opt-in: zz.RaceMonitor) ----------

type cellState struct {
	state   int // 1 exclusive, 2 shared (read only since shared), 3 shared-modified
	owner   int
	lockset map[string]bool
}

func (p *Path) heldSet(th *Thread, write bool) map[string]bool {
	out := map[string]bool{}
	for k, l := range p.locks {
		if l.writer == th.id || (!write && l.readers[th.id] > 0) {
			out[k] = true
		}
	}
	return out
}

func (p *Path) eraserAccess(th *Thread, key, what string, write bool) {
	if p.inHarnessCode(th) {
		return
	}
	if p.eraserCells == nil {
		p.eraserCells = map[string]*cellState{}
	}
	c := p.eraserCells[key]
	if c == nil {
		p.eraserCells[key] = &cellState{state: 1, owner: th.id}
		return
	}
	switch c.state {
	case 1:
		if c.owner == th.id {
			return
		}
		c.lockset = p.heldSet(th, write)
		c.state = 2
		if write {
			c.state = 3
		}
	default:
		held := p.heldSet(th, write)
		for k := range c.lockset {
			if !held[k] {
				delete(c.lockset, k)
			}
		}
		if write {
			c.state = 3
		}
	}
	if c.state == 3 && len(c.lockset) == 0 {
		mode := "read"
		if write {
			mode = "write"
		}
		p.violationNow("race", fmt.Sprintf("%s of %s shared between goroutines with no common lock held (a write under a read lock does not count)", mode, what))
		panic(pathEnd{endStop, "lockset violation"})
	}
}

func (p *Path) accessCheck(th *Thread, ptr PtrV, write bool) {
	if p.eraser && len(p.threads) > 1 {
		p.eraserAccess(th, "p:"+ptr.key(), "memory cell "+ptr.key(), write)
	}
	if len(p.guards) == 0 {
		return
	}
	mu, ok := p.guards["p:"+ptr.key()]
	if !ok {
		return
	}
	if p.inHarnessCode(th) {
		return
	}
	if !p.heldBy(th, mu, write) {
		p.guardViolation(th, "guarded field "+ptr.key(), mu, write)
	}
}

func (p *Path) mapAccessCheck(th *Thread, m MapV, write bool) {
	if p.eraser && len(p.threads) > 1 && m.id != 0 {
		p.eraserAccess(th, fmt.Sprintf("m:%d", m.id), fmt.Sprintf("map (object %d)", m.id), write)
	}
	if len(p.guards) == 0 {
		return
	}
	mu, ok := p.guards[fmt.Sprintf("m:%d", m.id)]
	if !ok {
		return
	}
	if p.inHarnessCode(th) {
		return
	}
	if !p.heldBy(th, mu, write) {
		p.guardViolation(th, fmt.Sprintf("guarded map (object %d)", m.id), mu, write)
	}
}

// ---------- channels (basic) ----------

func (p *Path) chanSend(th *Thread, fr *Frame, x *ssa.Send) {
	ch := p.get(fr, x.Chan).(ChanV)
	if ch.id == 0 {
		p.block(th, func() bool { return false }, "send on nil channel")
		return
	}
	cd := p.h.chanData(ch, true)
	if cd.closed {
		p.goPanicRT("send on closed channel")
		return
	}
	limit := cd.cap
	if cd.cap == 0 {
		limit = cd.recvWaiting
	}
	if len(cd.buf) < limit {
		cd.buf = append(cd.buf, copyVal(p.get(fr, x.X)))
		fr.ip++
		p.schedPoint(th, "send")
		return
	}
	id := ch
	p.block(th, func() bool {
		c := p.h.chanData(id, false)
		l := c.cap
		if c.cap == 0 {
			l = c.recvWaiting
		}
		return c.closed || len(c.buf) < l
	}, "channel send")
}

func (p *Path) chanRecv(th *Thread, fr *Frame, x *ssa.UnOp) {
	ch := p.get(fr, x.X).(ChanV)
	if ch.id == 0 {
		p.block(th, func() bool { return false }, "receive on nil channel")
		return
	}
	cd := p.h.chanData(ch, true)
	tc := p.tc()
	waitingKey := fmt.Sprintf("recvwait:%d:%d", th.id, ch.id)
	if len(cd.buf) > 0 {
		v := cd.buf[0]
		cd.buf = cd.buf[1:]
		if _, ok := p.ghost[waitingKey]; ok {
			delete(p.ghost, waitingKey)
			cd.recvWaiting--
		}
		if x.CommaOk {
			p.set(fr, x, TupleV{v, tc.True})
		} else {
			p.set(fr, x, v)
		}
		fr.ip++
		p.schedPoint(th, "recv")
		return
	}
	if cd.closed {
		if _, ok := p.ghost[waitingKey]; ok {
			delete(p.ghost, waitingKey)
			cd.recvWaiting--
		}
		z := p.wk.zero(cd.et)
		if x.CommaOk {
			p.set(fr, x, TupleV{z, tc.False})
		} else {
			p.set(fr, x, z)
		}
		fr.ip++
		return
	}
	if _, ok := p.ghost[waitingKey]; !ok {
		p.ghost[waitingKey] = true
		cd.recvWaiting++
	}
	id := ch
	p.block(th, func() bool {
		c := p.h.chanData(id, false)
		return c.closed || len(c.buf) > 0
	}, "channel receive")
}

func (p *Path) chanClose(th *Thread, ch ChanV) bool {
	if ch.id == 0 {
		p.goPanicRT("close of nil channel")
		return false
	}
	cd := p.h.chanData(ch, true)
	if cd.closed {
		p.goPanicRT("close of closed channel")
		return false
	}
	cd.closed = true
	return true
}

func (p *Path) execSelect(th *Thread, fr *Frame, x *ssa.Select) {
	tc := p.tc()
	// A blocked select counts as a waiting receiver on its unbuffered receive channels, so that a
	// sender can hand its value over (the hand-off slot is cd.buf, as for a plain receive). Once a
	// sender has committed a value there, the select must take one of the committed cases: schedules
	// in which another case wins are the ones where that sender simply has not sent yet.
	selKey := func(ch ChanV) string { return fmt.Sprintf("selwait:%d:%d", th.id, ch.id) }
	unregister := func() {
		for _, st := range x.States {
			ch := p.get(fr, st.Chan).(ChanV)
			if ch.id == 0 || st.Dir != 2 {
				continue
			}
			if _, ok := p.ghost[selKey(ch)]; ok {
				delete(p.ghost, selKey(ch))
				p.h.chanData(ch, true).recvWaiting--
			}
		}
	}
	// find ready cases
	var ready, committed []int
	for i, st := range x.States {
		ch := p.get(fr, st.Chan).(ChanV)
		if ch.id == 0 {
			continue
		}
		cd := p.h.chanData(ch, false)
		if st.Dir == 2 /* types.RecvOnly */ {
			if len(cd.buf) > 0 || cd.closed {
				ready = append(ready, i)
				if cd.cap == 0 && len(cd.buf) > 0 {
					committed = append(committed, i)
				}
			}
		} else {
			limit := cd.cap
			if cd.cap == 0 {
				limit = cd.recvWaiting
			}
			if cd.closed || len(cd.buf) < limit {
				ready = append(ready, i)
			}
		}
	}
	nrecv := 0
	for _, st := range x.States {
		if st.Dir == 2 {
			nrecv++
		}
	}
	mk := func(idx int, recvOk bool, recvVals []Value) {
		tv := TupleV{tc.BV(uint64(int64(idx)), 64), tc.Bool(recvOk)}
		tv = append(tv, recvVals...)
		p.set(fr, x, tv)
		fr.ip++
	}
	zeros := func() []Value {
		var out []Value
		for _, st := range x.States {
			if st.Dir == 2 {
				ch := st.Chan.Type().Underlying()
				_ = ch
				out = append(out, p.wk.zero(chanElem(st.Chan.Type())))
			}
		}
		return out
	}
	if len(ready) == 0 {
		if !x.Blocking {
			mk(-1, false, zeros())
			return
		}
		states := x.States
		for _, st := range states {
			ch := p.get(fr, st.Chan).(ChanV)
			if ch.id == 0 || st.Dir != 2 {
				continue
			}
			if cd := p.h.chanData(ch, true); cd.cap == 0 {
				if _, ok := p.ghost[selKey(ch)]; !ok {
					p.ghost[selKey(ch)] = true
					cd.recvWaiting++
				}
			}
		}
		p.block(th, func() bool {
			for _, st := range states {
				ch := p.get(fr, st.Chan).(ChanV)
				if ch.id == 0 {
					continue
				}
				cd := p.h.chanData(ch, false)
				if st.Dir == 2 {
					if len(cd.buf) > 0 || cd.closed {
						return true
					}
				} else if cd.closed || len(cd.buf) < cd.cap {
					return true
				}
			}
			return false
		}, "select")
		return
	}
	if len(committed) > 0 {
		ready = committed
	}
	unregister()
	pick := ready[0]
	if len(ready) > 1 {
		pick = ready[p.chooseN(len(ready), "select")]
	}
	st := x.States[pick]
	ch := p.get(fr, st.Chan).(ChanV)
	cd := p.h.chanData(ch, true)
	vals := zeros()
	if st.Dir == 2 {
		// position among recv cases
		ri := 0
		for i := 0; i < pick; i++ {
			if x.States[i].Dir == 2 {
				ri++
			}
		}
		if len(cd.buf) > 0 {
			vals[ri] = cd.buf[0]
			cd.buf = cd.buf[1:]
			mk(pick, true, vals)
		} else {
			mk(pick, false, vals)
		}
		return
	}
	if cd.closed {
		p.goPanicRT("send on closed channel")
		return
	}
	cd.buf = append(cd.buf, copyVal(p.get(fr, st.Send)))
	mk(pick, false, vals)
}
