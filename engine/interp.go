package main

import (
	"fmt"
	"go/token"
	"go/types"

	"golang.org/x/tools/go/ssa"
)

func (p *Path) get(fr *Frame, v ssa.Value) Value {
	switch x := v.(type) {
	case *ssa.Const:
		return p.constValue(x)
	case *ssa.Global:
		return p.globalPtr(x)
	case *ssa.Function:
		return FuncV{fn: x}
	case *ssa.Builtin:
		return FuncV{builtin: x}
	}
	i, ok := fr.info.slot[v]
	if !ok {
		panic(unsupportedf("no slot for %s in %s", v.Name(), fr.info.name))
	}
	return fr.env[i]
}

func (p *Path) set(fr *Frame, v ssa.Value, val Value) {
	fr.env[fr.info.slot[v]] = val
}

func (p *Path) globalPtr(g *ssa.Global) PtrV {
	wk := p.wk
	if id, ok := wk.globals[g]; ok {
		if g.Pkg != nil && wk.pkgState[g.Pkg] == 0 {
			wk.ensureInit(g.Pkg)
		}
		return PtrV{id: id}
	}
	wk.initDepth++
	et := g.Type().(*types.Pointer).Elem()
	o := p.h.alloc(et, wk.zero(et), "global "+g.String())
	wk.initDepth--
	wk.globals[g] = o.id
	if g.Pkg != nil {
		wk.ensureInit(g.Pkg)
	}
	return PtrV{id: o.id}
}

// ---------- running ----------

func (p *Path) newThread(name string) *Thread {
	th := &Thread{id: len(p.threads), name: name}
	p.threads = append(p.threads, th)
	return th
}

// pushFrame enters an SSA function.
func (p *Path) pushFrame(th *Thread, fn *ssa.Function, args []Value, free []Value, retSlot int, onRet func(Value)) *Frame {
	if p.maxDepth > 0 && len(th.frames) > p.maxDepth {
		// the harness declared that the code under test never nests deeper: running past the bound is
		// unbounded recursion, which natively ends in a fatal (unrecoverable) stack overflow
		p.violationNow("panic", fmt.Sprintf("call depth exceeds %d: unbounded recursion (natively a fatal stack overflow, which no recover can catch)", p.maxDepth))
		panic(pathEnd{endStop, "call depth bound exceeded"})
	}
	if len(th.frames) > 2000 {
		panic(pathEnd{endBudget, "call depth exceeded"})
	}
	fi := p.wk.w.info(fn)
	fr := &Frame{fn: fn, info: fi, env: make([]Value, fi.n), retSlot: retSlot, onRet: onRet}
	if len(args) != len(fn.Params) {
		panic(unsupportedf("call of %s with %d args, want %d", fi.name, len(args), len(fn.Params)))
	}
	for i, a := range args {
		fr.env[i] = a
	}
	for i, f := range free {
		fr.env[len(fn.Params)+i] = f
	}
	if len(fn.Blocks) == 0 {
		panic(unsupportedf("function without body: %s", fi.name))
	}
	fr.block = fn.Blocks[0]
	fr.locksAtEntry = len(th.held)
	th.frames = append(th.frames, fr)
	p.wk.funcsSeen[fn]++
	return fr
}

// deliver hands a call result to the frame that is now on top (after a pop) or to a continuation.
func (p *Path) finishFrame(th *Thread, fr *Frame, result Value) {
	th.frames = th.frames[:len(th.frames)-1]
	if fr.onRet != nil {
		fr.onRet(result)
		return
	}
	if len(th.frames) == 0 {
		th.state = thDone
		return
	}
	caller := th.top()
	if fr.retSlot >= 0 {
		caller.env[fr.retSlot] = result
	}
}

// run executes until all threads are done.
func (p *Path) run() {
	for {
		th := p.pickThread()
		if th == nil {
			return
		}
		p.stepThread(th)
		if p.pendingSched != nil {
			t := p.pendingSched
			p.pendingSched = nil
			if t.state == thRunnable {
				p.schedPoint(t, "sync")
			}
		}
	}
}

func (p *Path) stepThread(th *Thread) {
	p.steps++
	if p.steps > p.maxSteps {
		panic(pathEnd{endBudget, fmt.Sprintf("step budget %d exceeded", p.maxSteps)})
	}
	fr := th.top()
	if fr.phase == phDefersPanic {
		p.continuePanic(th, fr)
		return
	}
	in := fr.block.Instrs[fr.ip]
	p.exec(th, fr, in)
}

func (p *Path) jump(fr *Frame, to *ssa.BasicBlock) {
	from := fr.block
	// evaluate phis in parallel
	var phiVals []Value
	n := 0
	for _, in := range to.Instrs {
		phi, ok := in.(*ssa.Phi)
		if !ok {
			break
		}
		n++
		idx := -1
		for i, pred := range to.Preds {
			if pred == from {
				idx = i
				break
			}
		}
		if idx < 0 {
			panic(unsupportedf("phi without matching predecessor"))
		}
		phiVals = append(phiVals, p.get(fr, phi.Edges[idx]))
	}
	for i := 0; i < n; i++ {
		p.set(fr, to.Instrs[i].(*ssa.Phi), phiVals[i])
	}
	fr.prev = from
	fr.block = to
	fr.ip = n
}

func (p *Path) exec(th *Thread, fr *Frame, in ssa.Instruction) {
	tc := p.tc()
	switch x := in.(type) {
	case *ssa.DebugRef:
		fr.ip++
	case *ssa.Alloc:
		et := x.Type().(*types.Pointer).Elem()
		o := p.h.alloc(et, p.wk.zero(et), "alloc")
		p.set(fr, x, PtrV{id: o.id})
		fr.ip++
	case *ssa.BinOp:
		xv, yv := p.get(fr, x.X), p.get(fr, x.Y)
		r := p.binop(x.Op, x.X.Type(), x.Y.Type(), xv, yv)
		if th.top() != fr || fr.phase != phNormal {
			return // a runtime panic was raised
		}
		p.set(fr, x, r)
		fr.ip++
	case *ssa.UnOp:
		switch x.Op {
		case token.MUL:
			ptr := p.asPtr(p.get(fr, x.X))
			if ptr.IsNil() {
				p.goPanicRT("invalid memory address or nil pointer dereference")
				return
			}
			p.accessCheck(th, ptr, false)
			p.set(fr, x, p.h.load(ptr))
			fr.ip++
		case token.ARROW:
			p.chanRecv(th, fr, x)
		default:
			p.set(fr, x, p.unop(x, p.get(fr, x.X)))
			fr.ip++
		}
	case *ssa.Store:
		ptr := p.asPtr(p.get(fr, x.Addr))
		if ptr.IsNil() {
			p.goPanicRT("invalid memory address or nil pointer dereference")
			return
		}
		p.accessCheck(th, ptr, true)
		p.h.store(ptr, p.get(fr, x.Val))
		fr.ip++
	case *ssa.Phi:
		panic(unsupportedf("phi executed directly"))
	case *ssa.Jump:
		p.jump(fr, fr.block.Succs[0])
	case *ssa.If:
		c := p.simp(p.asTerm(p.get(fr, x.Cond)))
		if !c.IsConst() && !noIfConv && p.tryIfConvert(fr, c) {
			return
		}
		if !c.IsConst() {
			if fr.loops == nil {
				fr.loops = map[ssa.Instruction]int{}
			}
			fr.loops[in]++
			if fr.loops[in] > p.unwind {
				panic(pathEnd{endUnwind, fmt.Sprintf("unwinding bound %d exceeded at %s", p.unwind, p.where())})
			}
		}
		if p.branch(c, "if") {
			p.jump(fr, fr.block.Succs[0])
		} else {
			p.jump(fr, fr.block.Succs[1])
		}
	case *ssa.Return:
		var res Value
		switch len(x.Results) {
		case 0:
		case 1:
			res = p.get(fr, x.Results[0])
		default:
			tv := make(TupleV, len(x.Results))
			for i, r := range x.Results {
				tv[i] = p.get(fr, r)
			}
			res = tv
		}
		p.leakCheck(th, fr)
		p.finishFrame(th, fr, res)
		if len(th.frames) > 0 && th.top() != fr {
			p.afterReturn(th)
		}
	case *ssa.RunDefers:
		if len(fr.defers) == 0 {
			fr.ip++
			return
		}
		d := fr.defers[len(fr.defers)-1]
		fr.defers = fr.defers[:len(fr.defers)-1]
		p.callValue(th, d.fn, d.args, -1, nil, fr)
	case *ssa.Panic:
		p.goPanic(th, p.get(fr, x.X))
	case *ssa.Call:
		p.doCall(th, fr, &x.Call, x)
	case *ssa.Defer:
		fn, args, ok := p.resolveCall(th, fr, &x.Call)
		if !ok {
			return
		}
		fr.defers = append(fr.defers, deferred{fn: fn, args: args})
		fr.ip++
	case *ssa.Go:
		fn, args, ok := p.resolveCall(th, fr, &x.Call)
		if !ok {
			return
		}
		fr.ip++
		p.spawn(th, fn, args)
	case *ssa.Extract:
		tv, ok := p.get(fr, x.Tuple).(TupleV)
		if !ok {
			if pv, isP := p.get(fr, x.Tuple).(PoisonV); isP {
				p.set(fr, x, pv)
				fr.ip++
				return
			}
			panic(unsupportedf("extract from %T", p.get(fr, x.Tuple)))
		}
		p.set(fr, x, tv[x.Index])
		fr.ip++
	case *ssa.Field:
		sv, ok := p.get(fr, x.X).(*StructV)
		if !ok {
			panic(unsupportedf("field of %T", p.get(fr, x.X)))
		}
		p.set(fr, x, copyVal(sv.f[x.Field]))
		fr.ip++
	case *ssa.FieldAddr:
		ptr := p.asPtr(p.get(fr, x.X))
		if ptr.IsNil() {
			p.goPanicRT("invalid memory address or nil pointer dereference")
			return
		}
		p.set(fr, x, ptr.child(x.Field))
		fr.ip++
	case *ssa.Index:
		p.execIndex(th, fr, x)
	case *ssa.IndexAddr:
		p.execIndexAddr(th, fr, x)
	case *ssa.Lookup:
		p.execLookup(th, fr, x)
	case *ssa.Slice:
		p.execSlice(th, fr, x)
	case *ssa.MakeSlice:
		p.execMakeSlice(th, fr, x)
	case *ssa.MakeMap:
		mt := x.Type().Underlying().(*types.Map)
		// a size hint pre-allocates buckets for that many entries (8 entries of key+value per bucket, at
		// least 16 bytes an entry counted here): a hint taken from untrusted input counts against the
		// allocation cap just like a slice capacity; a negative hint is ignored by the runtime
		if x.Reserve != nil && p.allocCap > 0 {
			tc := p.tc()
			ht := p.asTerm(p.get(fr, x.Reserve))
			const perEntry = 16
			if ht.IsConst() {
				if n := sext64(ht.Val, ht.W); n > 0 && n*perEntry > p.allocCap {
					p.violationNow("alloc", fmt.Sprintf("a map pre-sized for %d entries exceeds the allocation cap of %d bytes", n, p.allocCap))
				}
			} else {
				h64 := ht
				if ht.W < 64 {
					h64 = p.toInt64(ht, x.Reserve.Type())
				}
				lim := tc.BV(uint64(p.allocCap/perEntry), 64)
				p.check(tc.Cmp(OpBvSle, h64, lim), "alloc", fmt.Sprintf("a map pre-sized from attacker-controlled input exceeds the allocation cap of %d bytes", p.allocCap))
			}
		}
		md := &MapData{idx: map[string]int{}, kt: mt.Key(), vt: mt.Elem()}
		o := p.h.alloc(x.Type(), md, "makemap")
		p.set(fr, x, MapV{id: o.id})
		fr.ip++
	case *ssa.MakeChan:
		size := p.asTerm(p.get(fr, x.Size))
		if !size.IsConst() {
			panic(unsupportedf("symbolic channel capacity"))
		}
		cd := &ChanData{cap: int(size.Val), et: x.Type().Underlying().(*types.Chan).Elem()}
		o := p.h.alloc(x.Type(), cd, "makechan")
		p.set(fr, x, ChanV{id: o.id})
		fr.ip++
	case *ssa.MakeClosure:
		fn := x.Fn.(*ssa.Function)
		free := make([]Value, len(x.Bindings))
		for i, b := range x.Bindings {
			free[i] = p.get(fr, b)
		}
		p.set(fr, x, FuncV{fn: fn, free: free})
		fr.ip++
	case *ssa.MakeInterface:
		v := p.get(fr, x.X)
		p.set(fr, x, IfaceV{t: x.X.Type(), v: copyVal(v)})
		fr.ip++
	case *ssa.ChangeInterface:
		p.set(fr, x, p.get(fr, x.X))
		fr.ip++
	case *ssa.ChangeType:
		p.set(fr, x, p.get(fr, x.X))
		fr.ip++
	case *ssa.Convert:
		p.set(fr, x, p.convert(x.X.Type(), x.Type(), p.get(fr, x.X)))
		fr.ip++
	case *ssa.MultiConvert:
		p.set(fr, x, p.convert(x.X.Type(), x.Type(), p.get(fr, x.X)))
		fr.ip++
	case *ssa.SliceToArrayPointer:
		sv := p.get(fr, x.X).(SliceV)
		n := int(x.Type().(*types.Pointer).Elem().Underlying().(*types.Array).Len())
		if sv.len < n {
			p.goPanicRT("cannot convert slice to array pointer: length too short")
			return
		}
		if sv.isNil {
			p.set(fr, x, PtrV{})
			fr.ip++
			return
		}
		if sv.off == 0 && len(p.arrayAt(sv.arr, false).e) == n {
			p.set(fr, x, sv.arr)
			fr.ip++
			return
		}
		np := make([]pelem, len(sv.arr.path)+1)
		copy(np, sv.arr.path)
		np[len(sv.arr.path)] = pelem{i: sv.off, view: n}
		p.set(fr, x, PtrV{id: sv.arr.id, path: np})
		fr.ip++
		return
	case *ssa.TypeAssert:
		p.execTypeAssert(th, fr, x)
	case *ssa.MapUpdate:
		m := p.get(fr, x.Map).(MapV)
		if m.id == 0 {
			p.goPanicRT("assignment to entry in nil map")
			return
		}
		p.mapAccessCheck(th, m, true)
		p.mapSet(m, p.get(fr, x.Key), p.get(fr, x.Value))
		fr.ip++
	case *ssa.Range:
		p.execRange(th, fr, x)
	case *ssa.Next:
		p.execNext(th, fr, x)
	case *ssa.Send:
		p.chanSend(th, fr, x)
	case *ssa.Select:
		p.execSelect(th, fr, x)
	default:
		panic(unsupportedf("instruction %T", in))
	}
	_ = tc
}

func (p *Path) asPtr(v Value) PtrV {
	switch x := v.(type) {
	case PtrV:
		return x
	case PoisonV:
		panic(unsupportedf("poisoned: %s", x.why))
	}
	panic(unsupportedf("expected pointer, got %T", v))
}

func (p *Path) execIndex(th *Thread, fr *Frame, x *ssa.Index) {
	tc := p.tc()
	xv := p.get(fr, x.X)
	idx := p.asTerm(p.get(fr, x.Index))
	idx = p.toInt64(idx, x.Index.Type())
	switch a := xv.(type) {
	case *ArrayV:
		if !p.boundsCheck(idx, len(a.e)) {
			return
		}
		if idx.IsConst() {
			p.set(fr, x, copyVal(a.e[idx.Val]))
		} else {
			p.set(fr, x, p.wk.selectElem(a.e, idx))
		}
	case StrV:
		if !p.boundsCheck(idx, a.Len()) {
			return
		}
		p.set(fr, x, p.strIndex(a, idx))
	default:
		panic(unsupportedf("index of %T", xv))
	}
	_ = tc
	fr.ip++
}

func (p *Path) strIndex(s StrV, idx *Term) *Term {
	if idx.IsConst() {
		return p.strByte(s, int(idx.Val))
	}
	bs := p.strBytes(s)
	vals := make([]Value, len(bs))
	for i, b := range bs {
		vals[i] = b
	}
	return p.wk.selectElem(vals, idx).(*Term)
}

// toInt64 widens an index of any integer type to 64 bits.
func (p *Path) toInt64(t *Term, typ types.Type) *Term {
	w, signed, ok := isInt(typ)
	if !ok || w == 64 {
		return t
	}
	if signed {
		return p.tc().Sext(t, 64)
	}
	return p.tc().Zext(t, 64)
}

// boundsCheck returns false after raising a Go panic when idx is out of [0,n).
func (p *Path) boundsCheck(idx *Term, n int) bool {
	tc := p.tc()
	in := tc.Cmp(OpBvUlt, idx, tc.BV(uint64(n), 64))
	if p.branch(in, "index in range") {
		return true
	}
	p.goPanicRT(fmt.Sprintf("index out of range [%s] with length %d", describe(idx), n))
	return false
}

func (p *Path) execIndexAddr(th *Thread, fr *Frame, x *ssa.IndexAddr) {
	xv := p.get(fr, x.X)
	idx := p.toInt64(p.asTerm(p.get(fr, x.Index)), x.Index.Type())
	var base PtrV
	var off, n int
	var et types.Type
	switch a := xv.(type) {
	case SliceV:
		base, off, n = a.arr, a.off, a.len
		et = x.X.Type().Underlying().(*types.Slice).Elem()
	case PtrV:
		if a.IsNil() {
			p.goPanicRT("invalid memory address or nil pointer dereference")
			return
		}
		at := x.X.Type().Underlying().(*types.Pointer).Elem().Underlying().(*types.Array)
		base, off, n = a, 0, int(at.Len())
		et = at.Elem()
	case PoisonV:
		panic(unsupportedf("poisoned: %s", a.why))
	default:
		panic(unsupportedf("indexaddr of %T", xv))
	}
	if !p.boundsCheck(idx, n) {
		return
	}
	if idx.IsConst() {
		p.set(fr, x, base.child(off+int(idx.Val)))
		fr.ip++
		return
	}
	// symbolic index
	if isScalarType(et) {
		tc := p.tc()
		p.set(fr, x, base.childSym(tc.Bin(OpBvAdd, idx, tc.BV(uint64(off), 64))))
		fr.ip++
		return
	}
	i := p.concretizeLen(idx, n-1, "index of aggregate element")
	p.set(fr, x, base.child(off+i))
	fr.ip++
}

func isScalarType(t types.Type) bool {
	b, ok := t.Underlying().(*types.Basic)
	if !ok {
		return false
	}
	return b.Info()&(types.IsInteger|types.IsBoolean|types.IsFloat) != 0
}

func (p *Path) execLookup(th *Thread, fr *Frame, x *ssa.Lookup) {
	xv := p.get(fr, x.X)
	switch a := xv.(type) {
	case StrV:
		idx := p.toInt64(p.asTerm(p.get(fr, x.Index)), x.Index.Type())
		if !p.boundsCheck(idx, a.Len()) {
			return
		}
		p.set(fr, x, p.strIndex(a, idx))
	case MapV:
		mt := x.X.Type().Underlying().(*types.Map)
		var val Value
		found := false
		if a.id != 0 {
			p.mapAccessCheck(th, a, false)
			val, found = p.mapGet(a, p.get(fr, x.Index))
		}
		if !found {
			val = p.wk.zero(mt.Elem())
		}
		if x.CommaOk {
			p.set(fr, x, TupleV{val, p.tc().Bool(found)})
		} else {
			p.set(fr, x, val)
		}
	case PoisonV:
		panic(unsupportedf("poisoned: %s", a.why))
	default:
		panic(unsupportedf("lookup in %T", xv))
	}
	fr.ip++
}

func (p *Path) optIndex(fr *Frame, v ssa.Value, def int, what string, max int) (int, bool) {
	if v == nil {
		return def, true
	}
	t := p.toInt64(p.asTerm(p.get(fr, v)), v.Type())
	if t.IsConst() {
		return int(int64(t.Val)), true
	}
	// symbolic slice bound: fork over values within [0,max]; anything else is out of range anyway
	tc := p.tc()
	in := tc.Cmp(OpBvUle, t, tc.BV(uint64(max), 64))
	if !p.branch(in, what+" in range") {
		return -1, true
	}
	return p.concretizeLen(t, max, what), true
}

func (p *Path) execSlice(th *Thread, fr *Frame, x *ssa.Slice) {
	xv := p.get(fr, x.X)
	switch a := xv.(type) {
	case StrV:
		n := a.Len()
		lo, _ := p.optIndex(fr, x.Low, 0, "slice low", n)
		hi, _ := p.optIndex(fr, x.High, n, "slice high", n)
		if lo < 0 || hi < lo || hi > n {
			p.goPanicRT(fmt.Sprintf("slice bounds out of range [%d:%d] with length %d", lo, hi, n))
			return
		}
		if a.Concrete() {
			p.set(fr, x, StrV{s: a.s[lo:hi]})
		} else {
			p.set(fr, x, p.mkStr(a.sym[lo:hi]))
		}
	case SliceV:
		lo, _ := p.optIndex(fr, x.Low, 0, "slice low", a.cap)
		hi, _ := p.optIndex(fr, x.High, a.len, "slice high", a.cap)
		mx, _ := p.optIndex(fr, x.Max, a.cap, "slice max", a.cap)
		if lo < 0 || hi < lo || mx < hi || mx > a.cap {
			p.goPanicRT(fmt.Sprintf("slice bounds out of range [%d:%d:%d] with capacity %d", lo, hi, mx, a.cap))
			return
		}
		if a.isNil {
			p.set(fr, x, SliceV{isNil: true})
		} else {
			p.set(fr, x, SliceV{arr: a.arr, off: a.off + lo, len: hi - lo, cap: mx - lo})
		}
	case PtrV:
		if a.IsNil() {
			p.goPanicRT("invalid memory address or nil pointer dereference")
			return
		}
		n := int(x.X.Type().Underlying().(*types.Pointer).Elem().Underlying().(*types.Array).Len())
		lo, _ := p.optIndex(fr, x.Low, 0, "slice low", n)
		hi, _ := p.optIndex(fr, x.High, n, "slice high", n)
		mx, _ := p.optIndex(fr, x.Max, n, "slice max", n)
		if lo < 0 || hi < lo || mx < hi || mx > n {
			p.goPanicRT(fmt.Sprintf("slice bounds out of range [%d:%d:%d] with capacity %d", lo, hi, mx, n))
			return
		}
		p.set(fr, x, SliceV{arr: a, off: lo, len: hi - lo, cap: mx - lo})
	case PoisonV:
		panic(unsupportedf("poisoned: %s", a.why))
	default:
		panic(unsupportedf("slice of %T", xv))
	}
	fr.ip++
}

func (p *Path) typeSize(t types.Type) int64 {
	defer func() { recover() }()
	return types.SizesFor("gc", "amd64").Sizeof(t)
}

func (p *Path) noteAlloc(n int64) {
	tc := p.tc()
	t := tc.BV(uint64(n), 64)
	p.noteAllocTerm(t)
}

func (p *Path) noteAllocTerm(t *Term) {
	tc := p.tc()
	if p.maxAlloc == nil {
		p.maxAlloc = t
		return
	}
	if p.maxAlloc.IsConst() && t.IsConst() {
		if t.Val > p.maxAlloc.Val {
			p.maxAlloc = t
		}
		return
	}
	p.maxAlloc = tc.Ite(tc.Cmp(OpBvUlt, p.maxAlloc, t), t, p.maxAlloc)
}

func (p *Path) execMakeSlice(th *Thread, fr *Frame, x *ssa.MakeSlice) {
	tc := p.tc()
	et := x.Type().Underlying().(*types.Slice).Elem()
	lt := p.toInt64(p.asTerm(p.get(fr, x.Len)), x.Len.Type())
	ct := p.toInt64(p.asTerm(p.get(fr, x.Cap)), x.Cap.Type())
	esz := p.typeSize(et)
	// Go panics on negative or absurd sizes
	bad := tc.Or(tc.Cmp(OpBvSlt, lt, tc.BV(0, 64)), tc.Cmp(OpBvSlt, ct, lt))
	if p.branch(bad, "makeslice: len out of range") {
		p.goPanicRT("makeslice: len out of range")
		return
	}
	// allocation monitor sees the requested size before any concretisation
	if !ct.IsConst() {
		sz := tc.Bin(OpBvMul, ct, tc.BV(uint64(esz), 64))
		if p.allocCap > 0 {
			// also exclude multiplication overflow: ct <= cap/esz
			lim := uint64(p.allocCap) / uint64(maxI64(esz, 1))
			p.check(tc.Cmp(OpBvUle, ct, tc.BV(lim, 64)), "alloc", fmt.Sprintf("allocation of a slice with attacker-controlled capacity exceeds the cap of %d bytes", p.allocCap))
		}
		p.noteAllocTerm(sz)
	} else {
		p.noteAlloc(int64(ct.Val) * esz)
		if p.allocCap > 0 && int64(ct.Val)*esz > p.allocCap {
			p.violationNow("alloc", fmt.Sprintf("allocation of %d bytes exceeds the cap of %d bytes", int64(ct.Val)*esz, p.allocCap))
		}
	}
	same := lt == ct
	c := p.concretizeLen(ct, p.maxLen, "make cap")
	l := c
	if !same {
		l = p.concretizeLen(lt, c, "make len")
	}
	if c > 1<<22 {
		panic(pathEnd{endCut, fmt.Sprintf("make of %d elements exceeds engine limit", c)})
	}
	arr := &ArrayV{e: make([]Value, c)}
	if c > 0 {
		z := p.wk.zero(et)
		switch z.(type) {
		case *StructV, *ArrayV:
			for i := range arr.e {
				arr.e[i] = copyVal(z)
			}
		default:
			for i := range arr.e {
				arr.e[i] = z
			}
		}
	}
	o := p.h.alloc(types.NewArray(et, int64(c)), arr, "makeslice")
	p.set(fr, x, SliceV{arr: PtrV{id: o.id}, len: l, cap: c})
	fr.ip++
}

func maxI64(a, b int64) int64 {
	if a > b {
		return a
	}
	return b
}

func (p *Path) implements(dyn types.Type, iface *types.Interface) bool {
	return types.Implements(dyn, iface)
}

func (p *Path) execTypeAssert(th *Thread, fr *Frame, x *ssa.TypeAssert) {
	v := p.get(fr, x.X)
	iv, ok := v.(IfaceV)
	if !ok {
		if pv, isP := v.(PoisonV); isP {
			panic(unsupportedf("poisoned: %s", pv.why))
		}
		panic(unsupportedf("type assert on %T", v))
	}
	var res Value
	okk := false
	if iv.t != nil {
		if it, isI := x.AssertedType.Underlying().(*types.Interface); isI {
			if _, nat := iv.v.(NativeV); nat {
				okk = p.nativeImplements(iv, it)
			} else {
				okk = p.implements(iv.t, it)
			}
			if okk {
				res = iv
			}
		} else {
			okk = types.Identical(iv.t, x.AssertedType)
			if okk {
				res = copyVal(iv.v)
			}
		}
	}
	if x.CommaOk {
		if !okk {
			res = p.wk.zero(x.AssertedType)
		}
		p.set(fr, x, TupleV{res, p.tc().Bool(okk)})
		fr.ip++
		return
	}
	if !okk {
		dyn := "nil"
		if iv.t != nil {
			dyn = iv.t.String()
		}
		p.goPanicRT(fmt.Sprintf("interface conversion: interface is %s, not %s", dyn, x.AssertedType))
		return
	}
	p.set(fr, x, res)
	fr.ip++
}

func (p *Path) execRange(th *Thread, fr *Frame, x *ssa.Range) {
	v := p.get(fr, x.X)
	switch a := v.(type) {
	case StrV:
		p.set(fr, x, &RangeIter{str: &a})
	case MapV:
		it := &RangeIter{m: a.id}
		if a.id != 0 {
			p.mapAccessCheck(th, a, false)
			md := p.h.mapData(a, false)
			it.keys = append(it.keys, md.keys...)
		}
		p.set(fr, x, it)
	default:
		panic(unsupportedf("range over %T", v))
	}
	fr.ip++
}

func (p *Path) execNext(th *Thread, fr *Frame, x *ssa.Next) {
	tc := p.tc()
	it := p.get(fr, x.Iter).(*RangeIter)
	if x.IsString {
		s := *it.str
		if it.pos >= s.Len() {
			p.set(fr, x, TupleV{tc.False, tc.BV(0, 64), tc.BV(0, 32)})
			fr.ip++
			return
		}
		bs := p.strBytes(s)
		r, n := p.decodeRune(bs[it.pos:])
		k := it.pos
		it.pos += n
		p.set(fr, x, TupleV{tc.True, tc.BV(uint64(k), 64), r})
		fr.ip++
		return
	}
	tt := x.Type().(*types.Tuple)
	for it.m != 0 && it.pos < len(it.keys) {
		k := it.keys[it.pos]
		it.pos++
		m := MapV{id: it.m}
		p.mapAccessCheck(th, m, false)
		val, found := p.mapGetExact(m, k)
		if !found {
			continue // deleted during iteration
		}
		p.set(fr, x, TupleV{tc.True, k, val})
		fr.ip++
		return
	}
	zeroOr := func(t types.Type) Value {
		if b, ok := t.(*types.Basic); ok && b.Kind() == types.Invalid {
			return nil // component not used by the range statement
		}
		return p.wk.zero(t)
	}
	p.set(fr, x, TupleV{tc.False, zeroOr(tt.At(1).Type()), zeroOr(tt.At(2).Type())})
	fr.ip++
}
