// Package zzverif, native replay implementation: the same harness source is compiled by the real
// Go toolchain against this file, and symbolic inputs are replaced by the values of a solver model.
package zzverif

import (
	"encoding/json"
	"fmt"
	"os"
	"sync"
	"time"
)

type inputVal struct {
	Name string `json:"name"`
	Kind string `json:"kind"`
	W    int    `json:"w"`
	Val  uint64 `json:"val"`
}

type violation struct {
	Kind   string     `json:"kind"`
	Msg    string     `json:"msg"`
	Inputs []inputVal `json:"inputs"`
}

var (
	mu       sync.Mutex
	inputs   []inputVal
	pos      int
	thorough = os.Getenv("ZZ_THOROUGH") == "1"
)

type stop struct{ why string }

func result(kind, msg string) {
	fmt.Printf("\nZZ-RESULT: %s %s\n", kind, msg)
}

func next(kind string) uint64 {
	mu.Lock()
	defer mu.Unlock()
	if pos >= len(inputs) {
		panic(stop{"diverged: harness asked for more inputs than the model has (" + kind + ")"})
	}
	in := inputs[pos]
	if in.Kind != kind {
		panic(stop{fmt.Sprintf("diverged: input %d is %s in the model but the harness asked for %s", pos, in.Kind, kind)})
	}
	pos++
	return in.Val
}

func Bool() bool       { return next("bool") != 0 }
func Byte() byte       { return byte(next("byte")) }
func Int8() int8       { return int8(next("int8")) }
func Int16() int16     { return int16(next("int16")) }
func Uint16() uint16   { return uint16(next("uint16")) }
func Int() int         { return int(next("int")) }
func Int32() int32     { return int32(next("int32")) }
func Int64() int64     { return int64(next("int64")) }
func Uint32() uint32   { return uint32(next("uint32")) }
func Uint64() uint64   { return next("uint64") }
func Float64() float64 { panic(stop{"unsupported: Float64 in native replay"}) }
func Float32() float32 { panic(stop{"unsupported: Float32 in native replay"}) }
func Bytes(n int) []byte {
	b := make([]byte, n)
	for i := range b {
		b[i] = byte(next("byte"))
	}
	return b
}
func String(n int) string { return string(Bytes(n)) }
func Choose(n int) int    { return int(next("choice")) }
func MaxLen(n int)        {}
func Unwind(n int)        {}
func MaxDepth(n int)      {}
func MaxPreempt(n int)    {}
func AllocCap(n int)      {}
func Assume(c bool) {
	if !c {
		panic(stop{"diverged: assumption does not hold natively"})
	}
}
func Assert(c bool, msg string) {
	if !c {
		panic(stop{"assert-fail " + msg})
	}
}
func Reach(label string)              {}
func Thorough() bool                  { return thorough }
func Concrete(v any) bool             { return true }
func Replace(target string, fn any)   { panic(stop{"unsupported: Replace(" + target + ") has no native equivalent"}) }
func UF8(name string, in []byte) byte { panic(stop{"unsupported: uninterpreted function in native replay"}) }
func UFBytes(name string, in []byte, n int) []byte {
	panic(stop{"unsupported: uninterpreted function in native replay"})
}
func MaxAlloc() int          { return 0 }
func ResetAlloc()            {}

// Held natively: a lock that cannot be taken right now is held (replays are single-threaded).
func Held(mu any) bool {
	switch m := mu.(type) {
	case *sync.Mutex:
		if m.TryLock() {
			m.Unlock()
			return false
		}
		return true
	case *sync.RWMutex:
		if m.TryLock() {
			m.Unlock()
			return false
		}
		return true
	}
	panic(stop{"unsupported: Held on this lock type in native replay"})
}

// Native reports whether the harness runs natively (replay) rather than symbolically.
func Native() bool { return true }
func WaitGhostNe(obj any, key string, old int) {}
func RaceMonitor()   {}

// NativeUnsupported ends a native replay that cannot be faithful (e.g. it would need a symbolic-only stub).
func NativeUnsupported(why string) { panic(stop{"unsupported: " + why}) }

// ReplaceSym replaces a function only in the symbolic run; natively the real function runs.
func ReplaceSym(target string, fn any) {}

func Guard(obj any, mu any)  {}
func Go(f func())            { panic(stop{"unsupported: scheduled goroutines in native replay"}) }
func Yield()                 {}
func WaitAll()               {}
func ExpectPanic()           {}
func Note(s string)          {}
func Split()                 {}
func IsComparable(v any) bool { return true }
func AsAssign(err error, target any) bool { return false }
var ghost = map[any]map[string]int{}

func GhostGet(obj any, key string) int { return ghost[obj][key] }
func GhostSet(obj any, key string, v int) {
	if ghost[obj] == nil {
		ghost[obj] = map[string]int{}
	}
	ghost[obj][key] = v
}

type RuntimeError struct{ Msg string }

func (e RuntimeError) Error() string { return e.Msg }
func (e RuntimeError) RuntimeError()  {}

// Replay runs a harness natively on the model in $ZZ_REPLAY and prints one ZZ-RESULT line.
func Replay(f func()) {
	b, err := os.ReadFile(os.Getenv("ZZ_REPLAY"))
	if err != nil {
		result("error", err.Error())
		return
	}
	var v violation
	if err := json.Unmarshal(b, &v); err != nil {
		result("error", err.Error())
		return
	}
	inputs = v.Inputs
	done := make(chan string, 1)
	go func() {
		defer func() {
			if r := recover(); r != nil {
				if s, ok := r.(stop); ok {
					done <- s.why
					return
				}
				done <- fmt.Sprintf("panic %v", r)
				return
			}
		}()
		f()
		done <- "ok"
	}()
	select {
	case r := <-done:
		fmt.Printf("\nZZ-RESULT: %s\n", r)
	case <-time.After(5 * time.Second):
		result("timeout", "harness did not return within 5s (deadlock)")
	}
}
