// Package zzverif is the harness interface of the gosym engine. This file is only ever seen by
// go/packages through an overlay; functions without bodies are engine intrinsics.
package zzverif

import "sync"

func Bool() bool
func Byte() byte
func Int8() int8
func Int16() int16
func Uint16() uint16
func Int() int
func Int32() int32
func Int64() int64
func Uint32() uint32
func Uint64() uint64
func Float64() float64
func Float32() float32
func Bytes(n int) []byte
func String(n int) string
func Choose(n int) int
func MaxLen(n int)
func Unwind(n int)
func MaxDepth(n int) // a call depth beyond n is reported as unbounded recursion
func MaxPreempt(n int)
func AllocCap(n int)
func Assume(c bool)
func Assert(c bool, msg string)
func Reach(label string)
func Thorough() bool
func Concrete(v any) bool
func Replace(target string, fn any)
func Native() bool
func WaitGhostNe(obj any, key string, old int) // blocks the goroutine until the ghost value differs from old
func RaceMonitor() // lockset (Eraser) race monitor over every heap cell touched by the code under test
func NativeUnsupported(why string)
func ReplaceSym(target string, fn any) // like Replace, but the native replay runs the real function
func UF8(name string, in []byte) byte
func UFBytes(name string, in []byte, n int) []byte
func MaxAlloc() int
func ResetAlloc()
func Held(mu any) bool
func Guard(obj any, mu any)
func Go(f func())
func Yield()
func WaitAll()
func ExpectPanic()
func Note(s string)
func Split() // no-op; a branch arm containing it is forked by the engine instead of being folded into an ite
func IsComparable(v any) bool
func AsAssign(err error, target any) bool
func GhostGet(obj any, key string) int
func GhostSet(obj any, key string, v int)

// RuntimeError is the dynamic type of run-time panics raised by the engine.
type RuntimeError struct{ Msg string }

func (e RuntimeError) Error() string { return e.Msg }
func (e RuntimeError) RuntimeError()  {}

// ---------- Go-bodied models of functions whose real bodies are assembly or runtime-internal ----------

func ModelErrorsIs(err, target error) bool {
	if err == nil || target == nil {
		return err == target
	}
	cmp := IsComparable(target)
	return modelIs(err, target, cmp)
}

func modelIs(err, target error, cmp bool) bool {
	for {
		if cmp && err == target {
			return true
		}
		if x, ok := err.(interface{ Is(error) bool }); ok && x.Is(target) {
			return true
		}
		switch x := err.(type) {
		case interface{ Unwrap() error }:
			err = x.Unwrap()
			if err == nil {
				return false
			}
		case interface{ Unwrap() []error }:
			for _, e := range x.Unwrap() {
				if e != nil && modelIs(e, target, cmp) {
					return true
				}
			}
			return false
		default:
			return false
		}
	}
}

func ModelErrorsAs(err error, target any) bool {
	for err != nil {
		if AsAssign(err, target) {
			return true
		}
		if x, ok := err.(interface{ As(any) bool }); ok && x.As(target) {
			return true
		}
		switch x := err.(type) {
		case interface{ Unwrap() error }:
			err = x.Unwrap()
		case interface{ Unwrap() []error }:
			for _, e := range x.Unwrap() {
				if e != nil && ModelErrorsAs(e, target) {
					return true
				}
			}
			return false
		default:
			return false
		}
	}
	return false
}

func ModelIndexByte(b []byte, c byte) int {
	for i := 0; i < len(b); i++ {
		if b[i] == c {
			return i
		}
	}
	return -1
}

func ModelIndexByteString(s string, c byte) int {
	for i := 0; i < len(s); i++ {
		if s[i] == c {
			return i
		}
	}
	return -1
}

func ModelLastIndexByte(b []byte, c byte) int {
	for i := len(b) - 1; i >= 0; i-- {
		if b[i] == c {
			return i
		}
	}
	return -1
}

func ModelLastIndexByteString(s string, c byte) int {
	for i := len(s) - 1; i >= 0; i-- {
		if s[i] == c {
			return i
		}
	}
	return -1
}

func ModelCount(b []byte, c byte) int {
	n := 0
	for i := 0; i < len(b); i++ {
		if b[i] == c {
			n++
		}
	}
	return n
}

func ModelCountString(s string, c byte) int {
	n := 0
	for i := 0; i < len(s); i++ {
		if s[i] == c {
			n++
		}
	}
	return n
}

func ModelCompare(a, b []byte) int {
	n := len(a)
	if len(b) < n {
		n = len(b)
	}
	for i := 0; i < n; i++ {
		if a[i] < b[i] {
			return -1
		}
		if a[i] > b[i] {
			return 1
		}
	}
	if len(a) < len(b) {
		return -1
	}
	if len(a) > len(b) {
		return 1
	}
	return 0
}

func ModelBytesEqual(a, b []byte) bool { return string(a) == string(b) }

func ModelIndex(a, b []byte) int { return ModelIndexString(string(a), string(b)) }

func ModelIndexString(a, b string) int {
	n := len(b)
	for i := 0; i+n <= len(a); i++ {
		if a[i:i+n] == b {
			return i
		}
	}
	return -1
}

func ModelOnceDo(o *sync.Once, f func()) {
	if GhostGet(o, "done") != 0 {
		return
	}
	GhostSet(o, "done", 1)
	f()
}

// sync.Pool never keeps anything: Get always allocates through New.
func ModelPoolGet(p *sync.Pool) any {
	if p.New != nil {
		return p.New()
	}
	return nil
}

func ModelPoolPut(p *sync.Pool, x any) {}

func ModelConstantTimeCompare(x, y []byte) int {
	if len(x) != len(y) {
		return 0
	}
	var v byte
	for i := 0; i < len(x); i++ {
		v |= x[i] ^ y[i]
	}
	if v == 0 {
		return 1
	}
	return 0
}

func ModelXORBytes(dst, x, y []byte) int {
	n := len(x)
	if len(y) < n {
		n = len(y)
	}
	if n == 0 {
		return 0
	}
	if n > len(dst) {
		panic("subtle.XORBytes: dst too short")
	}
	for i := 0; i < n; i++ {
		dst[i] = x[i] ^ y[i]
	}
	return n
}

// ---------- sync.Map: insertion-ordered association list per map object ----------

type syncMapModel struct {
	keys []any
	vals map[any]any
}

var syncMaps = map[*sync.Map]*syncMapModel{}

func smap(m *sync.Map) *syncMapModel {
	sm, ok := syncMaps[m]
	if !ok {
		sm = &syncMapModel{vals: map[any]any{}}
		syncMaps[m] = sm
	}
	return sm
}

func ModelSyncMapLoad(m *sync.Map, key any) (any, bool) {
	v, ok := smap(m).vals[key]
	return v, ok
}

func ModelSyncMapStore(m *sync.Map, key, value any) {
	sm := smap(m)
	if _, ok := sm.vals[key]; !ok {
		sm.keys = append(sm.keys, key)
	}
	sm.vals[key] = value
}

func ModelSyncMapLoadOrStore(m *sync.Map, key, value any) (any, bool) {
	sm := smap(m)
	if v, ok := sm.vals[key]; ok {
		return v, true
	}
	sm.keys = append(sm.keys, key)
	sm.vals[key] = value
	return value, false
}

func ModelSyncMapLoadAndDelete(m *sync.Map, key any) (any, bool) {
	sm := smap(m)
	v, ok := sm.vals[key]
	if ok {
		delete(sm.vals, key)
	}
	return v, ok
}

func ModelSyncMapDelete(m *sync.Map, key any) { ModelSyncMapLoadAndDelete(m, key) }

func ModelSyncMapSwap(m *sync.Map, key, value any) (any, bool) {
	sm := smap(m)
	v, ok := sm.vals[key]
	if !ok {
		sm.keys = append(sm.keys, key)
	}
	sm.vals[key] = value
	return v, ok
}

func ModelSyncMapRange(m *sync.Map, f func(key, value any) bool) {
	sm := smap(m)
	keys := append([]any(nil), sm.keys...)
	for _, k := range keys {
		v, ok := sm.vals[k]
		if !ok {
			continue
		}
		if !f(k, v) {
			return
		}
	}
}

func ModelSyncMapCompareAndDelete(m *sync.Map, key, old any) bool {
	sm := smap(m)
	v, ok := sm.vals[key]
	if !ok || v != old {
		return false
	}
	delete(sm.vals, key)
	return true
}

func ModelSyncMapCompareAndSwap(m *sync.Map, key, old, new any) bool {
	sm := smap(m)
	v, ok := sm.vals[key]
	if !ok || v != old {
		return false
	}
	sm.vals[key] = new
	return true
}

func ModelSyncMapClear(m *sync.Map) {
	sm := smap(m)
	sm.keys = nil
	sm.vals = map[any]any{}
}

// ---------- sync.Cond: a generation counter; Wait releases L, blocks until the next Signal/Broadcast, reacquires L ----------

func ModelCondWait(c *sync.Cond) {
	gen := GhostGet(c, "gen")
	c.L.Unlock()
	WaitGhostNe(c, "gen", gen)
	c.L.Lock()
}

func ModelCondNotify(c *sync.Cond) { GhostSet(c, "gen", GhostGet(c, "gen")+1) }
