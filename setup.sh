#!/bin/sh
# MANIFEST.setup_cmd: build the engine offline from /verif/engine (module cache only).
set -e
cd /verif
./build.sh
mkdir -p out evidence replays
echo "setup ok: $(./bin/gosym version 2>/dev/null || echo gosym built)"
