#!/bin/sh
# builds the engine offline
set -e
export GOFLAGS=-mod=mod GOPROXY=off GOSUMDB=off GOTOOLCHAIN=local PATH=/opt/veriftools/go1.26.8/bin:$PATH
cd /verif/engine && go build -o /verif/bin/gosym .
